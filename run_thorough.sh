#!/bin/bash
# usage: ./run_thorough.sh [ids...]   runs the thorough tier of each registered property (sequentially), summary in out/thorough_summary.txt
cd "$(dirname "$0")"
mkdir -p out
ids="$@"
if [ -z "$ids" ]; then ids=$(python3 -c "import json;print(' '.join(c['property_id'] for c in json.load(open('MANIFEST.json'))['checks']))"); fi
for id in $ids; do
  s=$(date +%s)
  timeout 3600 ./check $id --tier thorough > out/thorough_$id.log 2>&1
  code=$?
  echo "$id exit=$code secs=$(( $(date +%s) - s )) $(grep -c VIOLATION out/thorough_$id.log) violations $(grep -m1 INCONCLUSIVE out/thorough_$id.log | cut -c1-160)" >> out/thorough_summary.txt
done
