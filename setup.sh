#!/bin/bash
# Builds the gosym engine from /verif/engine (vendored deps, offline, go1.26.8).
set -e
cd "$(dirname "$0")/engine"
export GOFLAGS=-mod=vendor GOPROXY=off GOSUMDB=off GOTOOLCHAIN=local PATH=/opt/veriftools/go1.26.8/bin:$PATH
mkdir -p ../bin
go build -o ../bin/gosym .
echo "gosym built: $(ls -la ../bin/gosym | awk '{print $5}') bytes"
