package interp

// internal/bytealg and a few runtime-linked helpers (assembly in the real tree).

import (
	"bytes"
	"strings"
)

func toBytes(v value) []byte {
	s := v.([]value)
	b := make([]byte, len(s))
	for i := range s {
		c, ok := s[i].(byte)
		if !ok {
			unsupported("symbolic byte in a byte-slice primitive")
		}
		b[i] = c
	}
	return b
}

func init() {
	add := func(name string, f externalFn) { externals[name] = f }
	add("internal/bytealg.IndexByteString", func(fr *frame, a []value) value { return strings.IndexByte(a[0].(string), a[1].(byte)) })
	add("internal/bytealg.IndexByte", func(fr *frame, a []value) value { return bytes.IndexByte(toBytes(a[0]), a[1].(byte)) })
	add("internal/bytealg.LastIndexByteString", func(fr *frame, a []value) value { return strings.LastIndexByte(a[0].(string), a[1].(byte)) })
	add("internal/bytealg.LastIndexByte", func(fr *frame, a []value) value { return bytes.LastIndexByte(toBytes(a[0]), a[1].(byte)) })
	add("internal/bytealg.CountString", func(fr *frame, a []value) value { return strings.Count(a[0].(string), string([]byte{a[1].(byte)})) })
	add("internal/bytealg.Count", func(fr *frame, a []value) value { return bytes.Count(toBytes(a[0]), []byte{a[1].(byte)}) })
	add("internal/bytealg.Equal", func(fr *frame, a []value) value { return bytes.Equal(toBytes(a[0]), toBytes(a[1])) })
	add("internal/bytealg.Compare", func(fr *frame, a []value) value { return bytes.Compare(toBytes(a[0]), toBytes(a[1])) })
	add("internal/bytealg.CompareString", func(fr *frame, a []value) value { return strings.Compare(a[0].(string), a[1].(string)) })
	add("internal/bytealg.IndexString", func(fr *frame, a []value) value { return strings.Index(a[0].(string), a[1].(string)) })
	add("internal/bytealg.Index", func(fr *frame, a []value) value { return bytes.Index(toBytes(a[0]), toBytes(a[1])) })
	add("internal/bytealg.MakeNoZero", func(fr *frame, a []value) value {
		n := asInt64(a[0])
		s := make([]value, n)
		for i := range s {
			s[i] = byte(0)
		}
		return s
	})
	add("internal/bytealg.Cutover", func(fr *frame, a []value) value { return 64 })
	add("syscall.Getpagesize", func(fr *frame, a []value) value { return 4096 })
	add("os.Getpagesize", func(fr *frame, a []value) value { return 4096 })
	add("os.Getpid", func(fr *frame, a []value) value { return 4242 })
	add("internal/godebug.setUpdate", func(fr *frame, a []value) value { return nil })
	add("internal/godebug.registerMetric", func(fr *frame, a []value) value { return nil })
	add("internal/godebug.setNewIncNonDefault", func(fr *frame, a []value) value { return nil })
}
