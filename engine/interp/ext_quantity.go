package interp

// Closed forms for two loop-heavy helpers of k8s.io/apimachinery/pkg/api/resource.
// Everything else in that package is interpreted (and if-converted); these two
// divide by ten in a loop with three exits per iteration, which multiplies callee
// paths by 3^scale (ScaledValue(Giga) in log messages is 3^9). The closed forms are
// the documented meaning ("ceil away from zero of base / 10^scale"); witness paths
// of every harness are replayed natively against the real functions.

import (
	"go/token"
	"go/types"

	"gosym/smt"
)

func init() {
	const pkg = "k8s.io/apimachinery/pkg/api/resource."
	externals[pkg+"negativeScaleInt64"] = func(fr *frame, a []value) value {
		fn := fr.i.prog.ImportedPackage("k8s.io/apimachinery/pkg/api/resource").Func("negativeScaleInt64")
		base, ok := a[0].(sym)
		if !ok || isSym(a[1]) {
			fr.i.bypass = fn
			return callSSAraw(fr.i, fr, token.NoPos, fn, a, nil)
		}
		scale := asInt64(a[1])
		if scale == 0 {
			return tuple{a[0], true}
		}
		if scale > 18 {
			// 10^scale exceeds int64: result is 0 or +-1
			pos := smt.Slt(smt.BV(0, 64), base.t)
			neg := smt.Slt(base.t, smt.BV(0, 64))
			r := smt.Ite(pos, smt.BVS(1, 64), smt.Ite(neg, smt.BVS(-1, 64), smt.BV(0, 64)))
			return tuple{mkSym(r, types.Int64), mkSym(smt.Eq(base.t, smt.BV(0, 64)), types.Bool)}
		}
		p := int64(1)
		for k := int64(0); k < scale; k++ {
			p *= 10
		}
		P := smt.BVS(p, 64)
		q := smt.SDiv(base.t, P) // truncated toward zero
		rem := smt.SRem(base.t, P)
		exact := smt.Eq(rem, smt.BV(0, 64))
		pos := smt.Slt(smt.BV(0, 64), base.t)
		adj := smt.Ite(exact, q, smt.Ite(pos, smt.Add(q, smt.BVS(1, 64)), smt.Sub(q, smt.BVS(1, 64))))
		return tuple{mkSym(adj, types.Int64), mkSym(exact, types.Bool)}
	}
	// Quantity.String and friends build decimal text; with a symbolic amount the result
	// can only be an opaque (tainted) string.
	for _, name := range []string{"(*k8s.io/apimachinery/pkg/api/resource.Quantity).String", "(k8s.io/apimachinery/pkg/api/resource.Quantity).String"} {
		name := name
		externals[name] = func(fr *frame, a []value) value {
			if hasSym(a[0], 0) {
				return taintedStr
			}
			m := fr.i.lookupMethod("k8s.io/apimachinery/pkg/api/resource", "Quantity", "String")
			if m == nil {
				unsupported("Quantity.String not found")
			}
			recv := a[0]
			if _, isPtr := recv.(*value); !isPtr {
				cell := recv
				recv = &cell
			}
			fr.i.bypass = m
			return callSSAraw(fr.i, fr, token.NoPos, m, []value{recv}, nil)
		}
	}
}
