package interp

// math and math/bits intrinsics (concrete and symbolic). The Go bodies are
// assembly or bit tricks; the SMT operations are the IEEE/bit-vector meaning.

import (
	"go/types"
	"math"
	"math/bits"

	"gosym/smt"
)

func fterm(v value) *smt.Term { return termOf(v, types.Float64) }

func init() {
	add := func(name string, f externalFn) { externals[name] = f }
	round := func(mode int, native func(float64) float64) externalFn {
		return func(fr *frame, a []value) value {
			if s, ok := a[0].(sym); ok {
				return mkSym(smt.FRound(s.t, mode), types.Float64)
			}
			return native(a[0].(float64))
		}
	}
	add("math.Ceil", round(smt.RTP, math.Ceil))
	add("math.Floor", round(smt.RTN, math.Floor))
	add("math.Round", round(smt.RNA, math.Round))
	add("math.Trunc", round(smt.RTZ, math.Trunc))
	add("math.RoundToEven", round(smt.RNE, math.RoundToEven))
	add("math.Abs", func(fr *frame, a []value) value {
		if s, ok := a[0].(sym); ok {
			return mkSym(smt.FAbs(s.t), types.Float64)
		}
		return math.Abs(a[0].(float64))
	})
	add("math.Sqrt", func(fr *frame, a []value) value {
		if s, ok := a[0].(sym); ok {
			return mkSym(smt.FSqrt(s.t), types.Float64)
		}
		return math.Sqrt(a[0].(float64))
	})
	add("math.IsNaN", func(fr *frame, a []value) value {
		if s, ok := a[0].(sym); ok {
			return mkSym(smt.FIsNaN(s.t), types.Bool)
		}
		return math.IsNaN(a[0].(float64))
	})
	add("math.IsInf", func(fr *frame, a []value) value {
		if s, ok := a[0].(sym); ok {
			sign := asInt64(a[1])
			inf := smt.FIsInf(s.t)
			switch {
			case sign > 0:
				return mkSym(smt.And(inf, smt.FLt(smt.FPC(0), s.t)), types.Bool)
			case sign < 0:
				return mkSym(smt.And(inf, smt.FLt(s.t, smt.FPC(0))), types.Bool)
			}
			return mkSym(inf, types.Bool)
		}
		return math.IsInf(a[0].(float64), int(asInt64(a[1])))
	})
	minmax := func(isMax bool) externalFn {
		return func(fr *frame, a []value) value {
			if !isSym(a[0]) && !isSym(a[1]) {
				if isMax {
					return math.Max(a[0].(float64), a[1].(float64))
				}
				return math.Min(a[0].(float64), a[1].(float64))
			}
			x, y := fterm(a[0]), fterm(a[1])
			nan := smt.Or(smt.FIsNaN(x), smt.FIsNaN(y))
			zeros := smt.And(smt.FEq(x, smt.FPC(0)), smt.FEq(y, smt.FPC(0)))
			var eq, r *smt.Term
			if isMax {
				eq = smt.Ite(zeros, smt.FAdd(x, y), x)
				r = smt.Ite(smt.FLt(y, x), x, smt.Ite(smt.FLt(x, y), y, eq))
			} else {
				eq = smt.Ite(zeros, smt.FNeg(smt.FAdd(smt.FNeg(x), smt.FNeg(y))), x)
				r = smt.Ite(smt.FLt(x, y), x, smt.Ite(smt.FLt(y, x), y, eq))
			}
			return mkSym(smt.Ite(nan, smt.FPC(math.NaN()), r), types.Float64)
		}
	}
	add("math.Max", minmax(true))
	add("math.Min", minmax(false))
	for name, f := range map[string]func(float64, float64) float64{"math.Pow": math.Pow, "math.Mod": math.Mod, "math.Hypot": math.Hypot, "math.Atan2": math.Atan2} {
		f := f
		add(name, func(fr *frame, a []value) value {
			if isSym(a[0]) || isSym(a[1]) {
				unsupported("symbolic argument to a transcendental math function")
			}
			return f(a[0].(float64), a[1].(float64))
		})
	}
	for name, f := range map[string]func(float64) float64{"math.Log2": math.Log2, "math.Log10": math.Log10, "math.Exp2": math.Exp2, "math.Log1p": math.Log1p, "math.Cbrt": math.Cbrt} {
		f := f
		add(name, func(fr *frame, a []value) value {
			if isSym(a[0]) {
				unsupported("symbolic argument to a transcendental math function")
			}
			return f(a[0].(float64))
		})
	}
	add("math.Float64bits", func(fr *frame, a []value) value {
		if isSym(a[0]) {
			unsupported("math.Float64bits of a symbolic float")
		}
		return math.Float64bits(a[0].(float64))
	})
	add("math.Float64frombits", func(fr *frame, a []value) value {
		if s, ok := a[0].(sym); ok {
			return mkSym(smt.FFromBits(s.t), types.Float64)
		}
		return math.Float64frombits(a[0].(uint64))
	})

	// ---- math/bits on 64-bit words: 128-bit meaning
	u64 := func(v value) *smt.Term { return termOf(v, types.Uint64) }
	add("math/bits.Mul64", func(fr *frame, a []value) value {
		if !isSym(a[0]) && !isSym(a[1]) {
			hi, lo := bits.Mul64(a[0].(uint64), a[1].(uint64))
			return tuple{hi, lo}
		}
		// inside the declared input ranges the product often provably fits 63 bits:
		// then the high word is 0 and everything stays 64-bit
		iv := fr.i.X.intervals()
		x, y := iv.Of(u64(a[0])), iv.Of(u64(a[1]))
		if x.OK && y.OK && x.Lo >= 0 && y.Lo >= 0 && x.Hi*y.Hi < 4.0e18 {
			return tuple{uint64(0), mkSym(smt.Mul(u64(a[0]), u64(a[1])), types.Uint64)}
		}
		p := smt.Mul(smt.Zext(u64(a[0]), 128), smt.Zext(u64(a[1]), 128))
		return tuple{mkSym(smt.Extract(p, 127, 64), types.Uint64), mkSym(smt.Extract(p, 63, 0), types.Uint64)}
	})
	add("math/bits.Div64", func(fr *frame, a []value) value {
		if !isSym(a[0]) && !isSym(a[1]) && !isSym(a[2]) {
			hi, lo, y := a[0].(uint64), a[1].(uint64), a[2].(uint64)
			if y == 0 {
				panic(runtimeError("integer divide by zero"))
			}
			if y <= hi {
				panic(runtimeError("integer overflow"))
			}
			q, r := bits.Div64(hi, lo, y)
			return tuple{q, r}
		}
		hi, lo, y := u64(a[0]), u64(a[1]), u64(a[2])
		if fr.i.X.decide(smt.Eq(y, smt.BV(0, 64))) {
			panic(runtimeError("integer divide by zero"))
		}
		if fr.i.X.decide(smt.Ule(y, hi)) {
			panic(runtimeError("integer overflow"))
		}
		if hi.IsConst() && hi.Lo == 0 {
			return tuple{mkSym(smt.UDiv(lo, y), types.Uint64), mkSym(smt.URem(lo, y), types.Uint64)}
		}
		n := smt.Concat(hi, lo)
		d := smt.Zext(y, 128)
		return tuple{mkSym(smt.Extract(smt.UDiv(n, d), 63, 0), types.Uint64), mkSym(smt.Extract(smt.URem(n, d), 63, 0), types.Uint64)}
	})
	add("math/bits.Add64", func(fr *frame, a []value) value {
		if !isSym(a[0]) && !isSym(a[1]) && !isSym(a[2]) {
			s, c := bits.Add64(a[0].(uint64), a[1].(uint64), a[2].(uint64))
			return tuple{s, c}
		}
		s := smt.Add(smt.Add(smt.Zext(u64(a[0]), 65), smt.Zext(u64(a[1]), 65)), smt.Zext(u64(a[2]), 65))
		return tuple{mkSym(smt.Extract(s, 63, 0), types.Uint64), mkSym(smt.Zext(smt.Extract(s, 64, 64), 64), types.Uint64)}
	})
	add("math/bits.Sub64", func(fr *frame, a []value) value {
		if !isSym(a[0]) && !isSym(a[1]) && !isSym(a[2]) {
			s, c := bits.Sub64(a[0].(uint64), a[1].(uint64), a[2].(uint64))
			return tuple{s, c}
		}
		s := smt.Sub(smt.Sub(smt.Zext(u64(a[0]), 65), smt.Zext(u64(a[1]), 65)), smt.Zext(u64(a[2]), 65))
		return tuple{mkSym(smt.Extract(s, 63, 0), types.Uint64), mkSym(smt.Zext(smt.Extract(s, 64, 64), 64), types.Uint64)}
	})
	conc1 := func(name string, f func(uint64) int) {
		add(name, func(fr *frame, a []value) value {
			if isSym(a[0]) {
				unsupported("%s of a symbolic value", name)
			}
			return f(asUint64(a[0]))
		})
	}
	conc1("math/bits.Len64", bits.Len64)
	conc1("math/bits.Len", func(x uint64) int { return bits.Len64(x) })
	conc1("math/bits.Len32", func(x uint64) int { return bits.Len32(uint32(x)) })
	conc1("math/bits.TrailingZeros64", bits.TrailingZeros64)
	conc1("math/bits.TrailingZeros", func(x uint64) int { return bits.TrailingZeros64(x) })
	conc1("math/bits.TrailingZeros32", func(x uint64) int { return bits.TrailingZeros32(uint32(x)) })
	conc1("math/bits.LeadingZeros64", bits.LeadingZeros64)
	conc1("math/bits.OnesCount64", bits.OnesCount64)
	conc1("math/bits.OnesCount", func(x uint64) int { return bits.OnesCount64(x) })
}
