// Copyright 2013 The Go Authors. All rights reserved.
// Use of this source code is governed by a BSD-style
// license that can be found in the LICENSE file.

package interp

// Emulated "reflect" package.
//
// We completely replace the built-in "reflect" package.
// The only thing clients can depend upon are that reflect.Type is an
// interface and reflect.Value is an (opaque) struct.

import (
	"fmt"
	"go/token"
	"go/types"
	"reflect"
	"unsafe"

	"golang.org/x/tools/go/ssa"
)

type opaqueType struct {
	types.Type
	name string
}

func (t *opaqueType) String() string { return t.name }

// A bogus "reflect" type-checker package.  Shared across interpreters.
var reflectTypesPackage = types.NewPackage("reflect", "reflect")

// rtype is the concrete type the interpreter uses to implement the
// reflect.Type interface.
//
// type rtype <opaque>
var rtypeType = makeNamedType("rtype", &opaqueType{nil, "rtype"})

// error is an (interpreted) named type whose underlying type is string.
// The interpreter uses it for all implementations of the built-in error
// interface that it creates.
// We put it in the "reflect" package for expedience.
//
// type error string
var errorType = makeNamedType("error", &opaqueType{nil, "error"})

func makeNamedType(name string, underlying types.Type) *types.Named {
	obj := types.NewTypeName(token.NoPos, reflectTypesPackage, name, nil)
	return types.NewNamed(obj, underlying, nil)
}

func makeReflectValue(t types.Type, v value) value {
	return structure{rtype{t}, v}
}

// Given a reflect.Value, returns its rtype.
func rV2T(v value) rtype {
	return v.(structure)[0].(rtype)
}

// Given a reflect.Value, returns the underlying interpreter value.
func rV2V(v value) value {
	return v.(structure)[1]
}

// makeReflectType boxes up an rtype in a reflect.Type interface.
func makeReflectType(rt rtype) value {
	return iface{rtypeType, rt}
}

func ext۰reflect۰rtype۰Bits(fr *frame, args []value) value {
	// Signature: func (t reflect.rtype) int
	rt := args[0].(rtype).t
	basic, ok := rt.Underlying().(*types.Basic)
	if !ok {
		panic(fmt.Sprintf("reflect.Type.Bits(%T): non-basic type", rt))
	}
	return int(fr.i.sizes.Sizeof(basic)) * 8
}

func ext۰reflect۰rtype۰Elem(fr *frame, args []value) value {
	// Signature: func (t reflect.rtype) reflect.Type
	return makeReflectType(rtype{args[0].(rtype).t.Underlying().(interface {
		Elem() types.Type
	}).Elem()})
}

func ext۰reflect۰rtype۰Field(fr *frame, args []value) value {
	// Signature: func (t reflect.rtype, i int) reflect.StructField
	st := args[0].(rtype).t.Underlying().(*types.Struct)
	i := args[1].(int)
	f := st.Field(i)
	return structure{
		f.Name(),
		f.Pkg().Path(),
		makeReflectType(rtype{f.Type()}),
		st.Tag(i),
		0,         // TODO(adonovan): offset
		[]value{}, // TODO(adonovan): indices
		f.Anonymous(),
	}
}

func ext۰reflect۰rtype۰In(fr *frame, args []value) value {
	// Signature: func (t reflect.rtype, i int) int
	i := args[1].(int)
	return makeReflectType(rtype{args[0].(rtype).t.(*types.Signature).Params().At(i).Type()})
}

func ext۰reflect۰rtype۰Kind(fr *frame, args []value) value {
	// Signature: func (t reflect.rtype) uint
	return uint(reflectKind(args[0].(rtype).t))
}

func ext۰reflect۰rtype۰NumField(fr *frame, args []value) value {
	// Signature: func (t reflect.rtype) int
	return args[0].(rtype).t.Underlying().(*types.Struct).NumFields()
}

func ext۰reflect۰rtype۰NumIn(fr *frame, args []value) value {
	// Signature: func (t reflect.rtype) int
	return args[0].(rtype).t.Underlying().(*types.Signature).Params().Len()
}

func ext۰reflect۰rtype۰NumMethod(fr *frame, args []value) value {
	// Signature: func (t reflect.rtype) int
	return fr.i.prog.MethodSets.MethodSet(args[0].(rtype).t).Len() // beware: falsely reports generic methods
}

func ext۰reflect۰rtype۰NumOut(fr *frame, args []value) value {
	// Signature: func (t reflect.rtype) int
	return args[0].(rtype).t.Underlying().(*types.Signature).Results().Len()
}

func ext۰reflect۰rtype۰Out(fr *frame, args []value) value {
	// Signature: func (t reflect.rtype, i int) int
	i := args[1].(int)
	return makeReflectType(rtype{args[0].(rtype).t.Underlying().(*types.Signature).Results().At(i).Type()})
}

func ext۰reflect۰rtype۰Size(fr *frame, args []value) value {
	// Signature: func (t reflect.rtype) uintptr
	return uintptr(fr.i.sizes.Sizeof(args[0].(rtype).t))
}

func ext۰reflect۰rtype۰String(fr *frame, args []value) value {
	// Signature: func (t reflect.rtype) string
	return args[0].(rtype).t.String()
}

func ext۰reflect۰New(fr *frame, args []value) value {
	// Signature: func (t reflect.Type) reflect.Value
	t := args[0].(iface).v.(rtype).t
	alloc := zero(t)
	return makeReflectValue(types.NewPointer(t), &alloc)
}

func ext۰reflect۰SliceOf(fr *frame, args []value) value {
	// Signature: func (t reflect.rtype) Type
	return makeReflectType(rtype{types.NewSlice(args[0].(iface).v.(rtype).t)})
}

func ext۰reflect۰TypeOf(fr *frame, args []value) value {
	// Signature: func (t reflect.rtype) Type
	return makeReflectType(rtype{args[0].(iface).t})
}

func ext۰reflect۰ValueOf(fr *frame, args []value) value {
	// Signature: func (interface{}) reflect.Value
	itf := args[0].(iface)
	return makeReflectValue(itf.t, itf.v)
}

func ext۰reflect۰Zero(fr *frame, args []value) value {
	// Signature: func (t reflect.Type) reflect.Value
	t := args[0].(iface).v.(rtype).t
	return makeReflectValue(t, zero(t))
}

func reflectKind(t types.Type) reflect.Kind {
	switch t := t.(type) {
	case *types.Named, *types.Alias:
		return reflectKind(t.Underlying())
	case *types.Basic:
		switch t.Kind() {
		case types.Bool:
			return reflect.Bool
		case types.Int:
			return reflect.Int
		case types.Int8:
			return reflect.Int8
		case types.Int16:
			return reflect.Int16
		case types.Int32:
			return reflect.Int32
		case types.Int64:
			return reflect.Int64
		case types.Uint:
			return reflect.Uint
		case types.Uint8:
			return reflect.Uint8
		case types.Uint16:
			return reflect.Uint16
		case types.Uint32:
			return reflect.Uint32
		case types.Uint64:
			return reflect.Uint64
		case types.Uintptr:
			return reflect.Uintptr
		case types.Float32:
			return reflect.Float32
		case types.Float64:
			return reflect.Float64
		case types.Complex64:
			return reflect.Complex64
		case types.Complex128:
			return reflect.Complex128
		case types.String:
			return reflect.String
		case types.UnsafePointer:
			return reflect.UnsafePointer
		}
	case *types.Array:
		return reflect.Array
	case *types.Chan:
		return reflect.Chan
	case *types.Signature:
		return reflect.Func
	case *types.Interface:
		return reflect.Interface
	case *types.Map:
		return reflect.Map
	case *types.Pointer:
		return reflect.Pointer
	case *types.Slice:
		return reflect.Slice
	case *types.Struct:
		return reflect.Struct
	}
	panic(fmt.Sprint("unexpected type: ", t))
}

func ext۰reflect۰Value۰Kind(fr *frame, args []value) value {
	// Signature: func (reflect.Value) uint
	return uint(reflectKind(rV2T(args[0]).t))
}

func ext۰reflect۰Value۰String(fr *frame, args []value) value {
	// Signature: func (reflect.Value) string
	return toString(rV2V(args[0]))
}

func ext۰reflect۰Value۰Type(fr *frame, args []value) value {
	// Signature: func (reflect.Value) reflect.Type
	return makeReflectType(rV2T(args[0]))
}

func ext۰reflect۰Value۰Uint(fr *frame, args []value) value {
	// Signature: func (reflect.Value) uint64
	switch v := rV2V(args[0]).(type) {
	case uint:
		return uint64(v)
	case uint8:
		return uint64(v)
	case uint16:
		return uint64(v)
	case uint32:
		return uint64(v)
	case uint64:
		return uint64(v)
	case uintptr:
		return uint64(v)
	}
	panic("reflect.Value.Uint")
}

func ext۰reflect۰Value۰Len(fr *frame, args []value) value {
	// Signature: func (reflect.Value) int
	switch v := rV2V(args[0]).(type) {
	case string:
		return len(v)
	case array:
		return len(v)
	case chan value:
		return cap(v)
	case []value:
		return len(v)
	case *hashmap:
		return v.len()
	default:
		panic(fmt.Sprintf("reflect.(Value).Len(%v)", v))
	}
}

func ext۰reflect۰Value۰MapIndex(fr *frame, args []value) value {
	// Signature: func (reflect.Value) Value
	tValue := rV2T(args[0]).t.Underlying().(*types.Map).Key()
	k := rV2V(args[1])
	switch m := rV2V(args[0]).(type) {
	case *hashmap:
		if v, ok := m.lookup(k); ok {
			return makeReflectValue(tValue, v)
		}

	default:
		panic(fmt.Sprintf("(reflect.Value).MapIndex(%T, %T)", m, k))
	}
	return makeReflectValue(nil, nil)
}

func ext۰reflect۰Value۰MapKeys(fr *frame, args []value) value {
	// Signature: func (reflect.Value) []Value
	var keys []value
	tKey := rV2T(args[0]).t.Underlying().(*types.Map).Key()
	switch v := rV2V(args[0]).(type) {
	case *hashmap:
		for _, e := range v.entries() {
			keys = append(keys, makeReflectValue(tKey, e.key))
		}

	default:
		panic(fmt.Sprintf("(reflect.Value).MapKeys(%T)", v))
	}
	return keys
}

func ext۰reflect۰Value۰NumField(fr *frame, args []value) value {
	// Signature: func (reflect.Value) int
	return len(rV2V(args[0]).(structure))
}

func ext۰reflect۰Value۰NumMethod(fr *frame, args []value) value {
	// Signature: func (reflect.Value) int
	return fr.i.prog.MethodSets.MethodSet(rV2T(args[0]).t).Len()
}

func ext۰reflect۰Value۰Pointer(fr *frame, args []value) value {
	// Signature: func (v reflect.Value) uintptr
	switch v := rV2V(args[0]).(type) {
	case *value:
		return uintptr(unsafe.Pointer(v))
	case chan value:
		return reflect.ValueOf(v).Pointer()
	case []value:
		return reflect.ValueOf(v).Pointer()
	case *hashmap:
		return uintptr(unsafe.Pointer(v))
	case *ssa.Function:
		return uintptr(unsafe.Pointer(v))
	case *closure:
		return uintptr(unsafe.Pointer(v))
	default:
		panic(fmt.Sprintf("reflect.(Value).Pointer(%T)", v))
	}
}

func ext۰reflect۰Value۰Index(fr *frame, args []value) value {
	// Signature: func (v reflect.Value, i int) Value
	i := args[1].(int)
	t := rV2T(args[0]).t.Underlying()
	switch v := rV2V(args[0]).(type) {
	case array:
		return makeReflectValue(t.(*types.Array).Elem(), v[i])
	case []value:
		return makeReflectValue(t.(*types.Slice).Elem(), v[i])
	default:
		panic(fmt.Sprintf("reflect.(Value).Index(%T)", v))
	}
}

func ext۰reflect۰Value۰Bool(fr *frame, args []value) value {
	// Signature: func (reflect.Value) bool
	return rV2V(args[0]).(bool)
}

func ext۰reflect۰Value۰CanAddr(fr *frame, args []value) value {
	// Signature: func (v reflect.Value) bool
	// Always false for our representation.
	return false
}

func ext۰reflect۰Value۰CanInterface(fr *frame, args []value) value {
	// Signature: func (v reflect.Value) bool
	// Always true for our representation.
	return true
}

func ext۰reflect۰Value۰Elem(fr *frame, args []value) value {
	// Signature: func (v reflect.Value) reflect.Value
	switch x := rV2V(args[0]).(type) {
	case iface:
		return makeReflectValue(x.t, x.v)
	case *value:
		var v value
		if x != nil {
			v = *x
		}
		return makeReflectValue(rV2T(args[0]).t.Underlying().(*types.Pointer).Elem(), v)
	default:
		panic(fmt.Sprintf("reflect.(Value).Elem(%T)", x))
	}
}

func ext۰reflect۰Value۰Field(fr *frame, args []value) value {
	// Signature: func (v reflect.Value, i int) reflect.Value
	v := args[0]
	i := args[1].(int)
	return makeReflectValue(rV2T(v).t.Underlying().(*types.Struct).Field(i).Type(), rV2V(v).(structure)[i])
}

func ext۰reflect۰Value۰Float(fr *frame, args []value) value {
	// Signature: func (reflect.Value) float64
	switch v := rV2V(args[0]).(type) {
	case float32:
		return float64(v)
	case float64:
		return float64(v)
	}
	panic("reflect.Value.Float")
}

func ext۰reflect۰Value۰Interface(fr *frame, args []value) value {
	// Signature: func (v reflect.Value) interface{}
	return ext۰reflect۰valueInterface(args)
}

func ext۰reflect۰Value۰Int(fr *frame, args []value) value {
	// Signature: func (reflect.Value) int64
	switch x := rV2V(args[0]).(type) {
	case int:
		return int64(x)
	case int8:
		return int64(x)
	case int16:
		return int64(x)
	case int32:
		return int64(x)
	case int64:
		return x
	default:
		panic(fmt.Sprintf("reflect.(Value).Int(%T)", x))
	}
}

func ext۰reflect۰Value۰IsNil(fr *frame, args []value) value {
	// Signature: func (reflect.Value) bool
	switch x := rV2V(args[0]).(type) {
	case *value:
		return x == nil
	case chan value:
		return x == nil
	case *hashmap:
		return x == nil
	case iface:
		return x.t == nil
	case []value:
		return x == nil
	case *ssa.Function:
		return x == nil
	case *ssa.Builtin:
		return x == nil
	case *closure:
		return x == nil
	default:
		panic(fmt.Sprintf("reflect.(Value).IsNil(%T)", x))
	}
}

func ext۰reflect۰Value۰IsValid(fr *frame, args []value) value {
	// Signature: func (reflect.Value) bool
	return rV2V(args[0]) != nil
}

func ext۰reflect۰Value۰Set(fr *frame, args []value) value {
	// TODO(adonovan): implement.
	return nil
}

func ext۰reflect۰valueInterface(args []value) value {
	// Signature: func (v reflect.Value, safe bool) interface{}
	v := args[0].(structure)
	return iface{rV2T(v).t, rV2V(v)}
}

func ext۰reflect۰error۰Error(fr *frame, args []value) value {
	return args[0]
}

// newMethod creates a new method of the specified name, package and receiver type.
func newMethod(pkg *ssa.Package, recvType types.Type, name string) *ssa.Function {
	// TODO(adonovan): fix: hack: currently the only part of Signature
	// that is needed is the "pointerness" of Recv.Type, and for
	// now, we'll set it to always be false since we're only
	// concerned with rtype.  Encapsulate this better.
	sig := types.NewSignatureType(types.NewParam(token.NoPos, nil, "recv", recvType), nil, nil, nil, nil, false)
	fn := pkg.Prog.NewFunction(name, sig, "fake reflect method")
	fn.Pkg = pkg
	return fn
}

func initReflect(i *interpreter) {
	i.reflectPackage = &ssa.Package{
		Prog:    i.prog,
		Pkg:     reflectTypesPackage,
		Members: make(map[string]ssa.Member),
	}

	// Clobber the type-checker's notion of reflect.Value's
	// underlying type so that it more closely matches the fake one
	// (at least in the number of fields---we lie about the type of
	// the rtype field).
	//
	// We must ensure that calls to (ssa.Value).Type() return the
	// fake type so that correct "shape" is used when allocating
	// variables, making zero values, loading, and storing.
	//
	// TODO(adonovan): obviously this is a hack.  We need a cleaner
	// way to fake the reflect package (almost---DeepEqual is fine).
	// One approach would be not to even load its source code, but
	// provide fake source files.  This would guarantee that no bad
	// information leaks into other packages.
	if r := i.prog.ImportedPackage("reflect"); r != nil {
		rV := r.Pkg.Scope().Lookup("Value").Type().(*types.Named)

		// delete bodies of the old methods
		mset := i.prog.MethodSets.MethodSet(rV)
		for method := range mset.Methods() {
			i.prog.MethodValue(method).Blocks = nil
		}

		tEface := types.NewInterface(nil, nil).Complete()
		rV.SetUnderlying(types.NewStruct([]*types.Var{
			types.NewField(token.NoPos, r.Pkg, "t", tEface, false), // a lie
			types.NewField(token.NoPos, r.Pkg, "v", tEface, false),
		}, nil))
	}

	i.rtypeMethods = methodSet{
		"Bits":      newMethod(i.reflectPackage, rtypeType, "Bits"),
		"Elem":      newMethod(i.reflectPackage, rtypeType, "Elem"),
		"Field":     newMethod(i.reflectPackage, rtypeType, "Field"),
		"In":        newMethod(i.reflectPackage, rtypeType, "In"),
		"Kind":      newMethod(i.reflectPackage, rtypeType, "Kind"),
		"NumField":  newMethod(i.reflectPackage, rtypeType, "NumField"),
		"NumIn":     newMethod(i.reflectPackage, rtypeType, "NumIn"),
		"NumMethod": newMethod(i.reflectPackage, rtypeType, "NumMethod"),
		"NumOut":    newMethod(i.reflectPackage, rtypeType, "NumOut"),
		"Out":       newMethod(i.reflectPackage, rtypeType, "Out"),
		"Size":      newMethod(i.reflectPackage, rtypeType, "Size"),
		"String":    newMethod(i.reflectPackage, rtypeType, "String"),
	}
	i.errorMethods = methodSet{
		"Error": newMethod(i.reflectPackage, errorType, "Error"),
	}
}
