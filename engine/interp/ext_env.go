package interp

// Environment stubs: atomics, semaphores, clock, misc runtime hooks.

import (
	"go/types"

	"golang.org/x/tools/go/ssa"

	"gosym/smt"
)

func setCell(fr *frame, p *value, v value) {
	if fr != nil && fr.i.logging() {
		fr.i.logCell(p)
	}
	*p = v
}

func init() {
	add := func(name string, f externalFn) { externals[name] = f }
	cas := func(fr *frame, a []value) value {
		p := a[0].(*value)
		if isSym(*p) || isSym(a[1]) {
			c := eqTerm(nil, *p, a[1])
			if fr.i.X.decide(c) {
				setCell(fr, p, a[2])
				return true
			}
			return false
		}
		if *p == a[1] {
			setCell(fr, p, a[2])
			return true
		}
		return false
	}
	addf := func(fr *frame, a []value) value {
		p := a[0].(*value)
		setCell(fr, p, binopAdd(*p, a[1]))
		return *p
	}
	for _, n := range []string{"Int32", "Int64", "Uint32", "Uint64", "Uintptr", "Pointer"} {
		add("sync/atomic.CompareAndSwap"+n, cas)
		add("sync/atomic.Load"+n, func(fr *frame, a []value) value { return *(a[0].(*value)) })
		add("sync/atomic.Store"+n, func(fr *frame, a []value) value { setCell(fr, a[0].(*value), a[1]); return nil })
		add("sync/atomic.Swap"+n, func(fr *frame, a []value) value {
			p := a[0].(*value)
			old := *p
			setCell(fr, p, a[1])
			return old
		})
		if n != "Pointer" {
			add("sync/atomic.Add"+n, addf)
		}
	}
	add("time.now", func(fr *frame, a []value) value {
		// (sec int64, nsec int32, mono int64)
		return tuple{fr.i.clock, int32(0), int64(0)}
	})
	add("time.Now", func(fr *frame, a []value) value {
		// time.Time{wall uint64, ext int64, loc *Location}; wall without the
		// monotonic bit: ext holds seconds since year 1.
		const unixToInternal int64 = (1969*365 + 1969/4 - 1969/100 + 1969/400) * 86400
		sec := fr.i.clock
		if s, ok := sec.(sym); ok {
			return structure{uint64(0), mkSym(smt.Add(s.t, smt.BVS(unixToInternal, 64)), types.Int64), (*value)(nil)}
		}
		return structure{uint64(0), sec.(int64) + unixToInternal, (*value)(nil)}
	})
	add("time.runtimeNano", func(fr *frame, a []value) value { return int64(1) })
	add("time.Sleep", func(fr *frame, a []value) value { return nil })
	// A sequential harness that has to wait for a mutex would wait forever (nobody else runs): the schedule
	// it stands for is not realisable, the path is discarded. (Harnesses use re-entrant calls to express
	// "another goroutine ran here"; this is what keeps that sound for lock-protected regions.)
	blocked := func(fr *frame, a []value) value {
		panic(engineAbort{"assume-false", "blocked on a held mutex: the schedule is not realisable"})
	}
	add("internal/sync.runtime_SemacquireMutex", blocked)
	add("internal/sync.runtime_canSpin", func(fr *frame, a []value) value { return false })
	add("internal/sync.runtime_doSpin", func(fr *frame, a []value) value { return nil })
	add("internal/sync.runtime_nanotime", func(fr *frame, a []value) value { return int64(0) })
	add("internal/sync.runtime_Semrelease", func(fr *frame, a []value) value { return nil })
	add("internal/sync.throw", func(fr *frame, a []value) value { panic(targetPanic{a[0]}) })
	add("internal/sync.fatal", func(fr *frame, a []value) value { panic(targetPanic{a[0]}) })
	add("sync.runtime_SemacquireRWMutexR", blocked)
	add("sync.runtime_SemacquireRWMutex", blocked)
	add("sync.runtime_Semrelease", func(fr *frame, a []value) value { return nil })
	add("sync.runtime_Semacquire", func(fr *frame, a []value) value { return nil })
	add("sync.runtime_registerPoolCleanup", func(fr *frame, a []value) value { return nil })
	add("sync.throw", func(fr *frame, a []value) value { panic(targetPanic{a[0]}) })
	add("sync.fatal", func(fr *frame, a []value) value { panic(targetPanic{a[0]}) })
	add("github.com/koordinator-sh/koordinator/pkg/util.DumpJSON", func(fr *frame, a []value) value { return "" })
	add("internal/abi.NoEscape", func(fr *frame, a []value) value { return a[0] })
	add("internal/abi.Escape", func(fr *frame, a []value) value { return a[0] })
	add("internal/race.Enable", func(fr *frame, a []value) value { return nil })
	add("internal/race.Disable", func(fr *frame, a []value) value { return nil })
	add("internal/race.Acquire", func(fr *frame, a []value) value { return nil })
	add("internal/race.Release", func(fr *frame, a []value) value { return nil })
	add("internal/race.ReleaseMerge", func(fr *frame, a []value) value { return nil })
	add("internal/race.Read", func(fr *frame, a []value) value { return nil })
	add("internal/race.Write", func(fr *frame, a []value) value { return nil })
	add("runtime.SetFinalizer", func(fr *frame, a []value) value { return nil })
	add("runtime.KeepAlive", func(fr *frame, a []value) value { return nil })
	add("runtime.Caller", func(fr *frame, a []value) value { return tuple{uintptr(0), "", 0, false} })
	add("runtime.Callers", func(fr *frame, a []value) value { return 0 })
	add("runtime/debug.Stack", func(fr *frame, a []value) value { return []value(nil) })
	add("(*sync.Pool).Get", func(fr *frame, a []value) value {
		p := a[0].(*value)
		st := (*p).(structure)
		newf := st[len(st)-1]
		if isNilFunc(newf) {
			return iface{}
		}
		return callFn(fr, newf)
	})
	add("(*sync.Pool).Put", func(fr *frame, a []value) value { return nil })
}

func binopAdd(x, y value) value {
	if isSym(x) || isSym(y) {
		return symBinopAdd(x, y)
	}
	switch x := x.(type) {
	case int32:
		return x + y.(int32)
	case int64:
		return x + y.(int64)
	case uint32:
		return x + y.(uint32)
	case uint64:
		return x + y.(uint64)
	case uintptr:
		return x + y.(uintptr)
	}
	unsupported("atomic add on %T", x)
	return nil
}

func symBinopAdd(x, y value) value {
	k := kindOfVal(x)
	if !isSym(x) {
		k = y.(sym).k
	}
	return mkSym(smt.Add(termOf(x, k), termOf(y, k)), k)
}

func isNilFunc(f value) bool {
	switch f := f.(type) {
	case nil:
		return true
	case *closure:
		return f == nil
	case *ssa.Function:
		return f == nil
	}
	return false
}

func init() {
	// field.Error formatting walks the bad value with reflection; error text is not the
	// subject of any property
	externals["(*k8s.io/apimachinery/pkg/util/validation/field.Error).ErrorBody"] = func(fr *frame, a []value) value { return "<field error>" }
	externals["(*k8s.io/apimachinery/pkg/util/validation/field.Error).Error"] = func(fr *frame, a []value) value { return "<field error>" }
}
