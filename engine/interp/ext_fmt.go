package interp

import "go/token"

// fmt: with concrete arguments the real fmt code is interpreted (keys such as
// "ns/name" must be faithful). With a symbolic argument the result is an opaque
// tainted string that may only flow into logging and error construction.

const taintedStr = "\x00<tainted:symbolic-format>"

func init() {
	real := func(pkg, name string) externalFn {
		return func(fr *frame, a []value) value {
			fn := fr.i.prog.ImportedPackage(pkg).Func(name)
			if hasSym(tuple(a), 0) {
				switch name {
				case "Errorf":
					return mkErr(fr, taintedStr)
				default:
					return taintedStr
				}
			}
			fr.i.bypass = fn
			return callSSAraw(fr.i, fr, token.NoPos, fn, a, nil)
		}
	}
	for _, n := range []string{"Sprintf", "Sprint", "Sprintln", "Errorf"} {
		externals["fmt."+n] = real("fmt", n)
	}
	for _, n := range []string{"Printf", "Println", "Print"} {
		externals["fmt."+n] = func(fr *frame, a []value) value { return tuple{0, iface{}} }
	}
}
