package interp

// Symbolic decimal strings.
//
// Strings are concrete in this engine, with one exception: the canonical decimal rendering of a symbolic
// integer (strconv.FormatInt(x, 10), strconv.Itoa(x)) is carried as a marker string "\x00<dec:ID>" that
// names the integer term. The marker can be stored (struct fields, the in-memory file map, []byte round
// trips), trimmed of white space, parsed back (strconv.ParseInt/Atoi give the term) and compared for
// equality (with another marker: equality of the terms; with a concrete string: equality with the integer
// that string canonically denotes, false for anything else such as "max"). Every other inspection of a
// marker string (len, index, slice, range, ordering, map key, any other strings/strconv function) ends
// the path as unsupported, so a marker never silently behaves like the text "\x00<dec:...>".

import (
	"go/types"
	"strconv"
	"strings"
	"sync"

	"gosym/smt"
)

const decPrefix = "\x00<dec:"

var decTerms sync.Map // uint64 term id -> sym (int64-kinded)

func decMarker(v sym) string {
	// normalise to a signed 64-bit term
	w, signed := kindWidth(v.k)
	t := v.t
	if w < 64 {
		if signed {
			t = smt.Sext(t, 64)
		} else {
			t = smt.Zext(t, 64)
		}
	} else if !signed {
		unsupported("decimal rendering of a symbolic unsigned 64-bit value")
	}
	decTerms.Store(t.ID, sym{t, types.Int64})
	return decPrefix + strconv.FormatUint(t.ID, 10) + ">"
}

func hasDec(s string) bool { return strings.Contains(s, decPrefix) }

// decOf returns the term of an exact marker string.
func decOf(s string) (sym, bool) {
	if !strings.HasPrefix(s, decPrefix) || !strings.HasSuffix(s, ">") {
		return sym{}, false
	}
	id, err := strconv.ParseUint(s[len(decPrefix):len(s)-1], 10, 64)
	if err != nil {
		return sym{}, false
	}
	v, ok := decTerms.Load(id)
	if !ok {
		return sym{}, false
	}
	return v.(sym), true
}

func guardDec(s string, what string) {
	if hasDec(s) {
		unsupported("%s of a symbolic decimal string", what)
	}
}

// decEq decides x == y for strings at least one of which carries a marker.
func decEq(x, y string) value {
	if x == y {
		return true
	}
	sx, okx := decOf(x)
	sy, oky := decOf(y)
	switch {
	case okx && oky:
		return mkSym(smt.Eq(sx.t, sy.t), types.Bool)
	case okx && !hasDec(y):
		return decEqConst(sx, y)
	case oky && !hasDec(x):
		return decEqConst(sy, x)
	}
	unsupported("comparison of strings that embed a symbolic decimal")
	return nil
}

func decEqConst(s sym, c string) value {
	n, err := strconv.ParseInt(c, 10, 64)
	if err != nil || strconv.FormatInt(n, 10) != c {
		return false // not the canonical rendering of any integer
	}
	return mkSym(smt.Eq(s.t, smt.BVS(n, 64)), types.Bool)
}

func init() {
	fmtInt := externals["strconv.FormatInt"]
	externals["strconv.FormatInt"] = func(fr *frame, a []value) value {
		if s, ok := a[0].(sym); ok {
			if b, ok := a[1].(int); ok && b == 10 {
				return decMarker(s)
			}
		}
		return fmtInt(fr, a)
	}
	itoa := externals["strconv.Itoa"]
	externals["strconv.Itoa"] = func(fr *frame, a []value) value {
		if s, ok := a[0].(sym); ok {
			return decMarker(s)
		}
		return itoa(fr, a)
	}
	parseInt := externals["strconv.ParseInt"]
	externals["strconv.ParseInt"] = func(fr *frame, a []value) value {
		if s, ok := a[0].(string); ok && hasDec(s) {
			v, ok := decOf(s)
			base, _ := a[1].(int)
			bits, _ := a[2].(int)
			if !ok || (base != 10 && base != 0) {
				unsupported("strconv.ParseInt of a string that embeds a symbolic decimal")
			}
			if bits != 64 && bits != 0 {
				// narrower results: only when the value provably fits (otherwise ParseInt reports a range error)
				iv := fr.i.X.intervals().Of(v.t)
				lim := float64(int64(1) << uint(bits-1))
				if bits < 1 || bits > 63 || !iv.OK || iv.Lo < -lim || iv.Hi > lim-1 {
					unsupported("strconv.ParseInt(_, 10, %d) of a symbolic decimal that may be out of range", bits)
				}
			}
			return tuple{v, iface{}}
		}
		return parseInt(fr, a)
	}
	atoi := externals["strconv.Atoi"]
	externals["strconv.Atoi"] = func(fr *frame, a []value) value {
		if s, ok := a[0].(string); ok && hasDec(s) {
			v, ok := decOf(s)
			if !ok {
				unsupported("strconv.Atoi of a string that embeds a symbolic decimal")
			}
			return tuple{sym{v.t, types.Int}, iface{}}
		}
		return atoi(fr, a)
	}
	// white-space trimming leaves a canonical decimal unchanged
	for _, name := range []string{"strings.TrimSpace", "strings.Trim", "strings.TrimRight", "strings.TrimLeft", "strings.TrimSuffix", "strings.TrimPrefix"} {
		name := name
		orig := externals[name]
		externals[name] = func(fr *frame, a []value) value {
			if s, ok := a[0].(string); ok && hasDec(s) {
				if _, exact := decOf(s); exact {
					cut := ""
					if len(a) > 1 {
						cut, _ = a[1].(string)
					}
					if strings.Trim(cut, " \n\t\r") == "" {
						return s
					}
				}
				unsupported("%s of a symbolic decimal string", name)
			}
			return orig(fr, a)
		}
	}
	for name := range natives {
		switch name {
		case "strconv.FormatInt", "strconv.Itoa", "strconv.ParseInt", "strconv.Atoi", "strings.TrimSpace", "strings.Trim", "strings.TrimRight", "strings.TrimLeft", "strings.TrimSuffix", "strings.TrimPrefix":
			continue
		}
		name := name
		orig := externals[name]
		if orig == nil {
			continue
		}
		externals[name] = func(fr *frame, a []value) value {
			for _, x := range a {
				switch x := x.(type) {
				case string:
					guardDec(x, name)
				case []value:
					for _, e := range x {
						if s, ok := e.(string); ok {
							guardDec(s, name)
						}
					}
				}
			}
			return orig(fr, a)
		}
	}
}
