// Copyright 2013 The Go Authors. All rights reserved.
// Use of this source code is governed by a BSD-style
// license that can be found in the LICENSE file.

package interp

// Emulated functions that we cannot interpret because they are
// external or because they use "unsafe" or "reflect" operations.

import (
	"bytes"
	"maps"
	"math"
	"os"
	"runtime"
	"slices"
	"sort"
	"strconv"
	"strings"
	"time"
	"unicode/utf8"
)

type externalFn func(fr *frame, args []value) value

// TODO(adonovan): fix: reflect.Value abstracts an lvalue or an
// rvalue; Set() causes mutations that can be observed via aliases.
// We have not captured that correctly here.

// Key strings are from Function.String().
var externals = make(map[string]externalFn)

func init() {
	// That little dot ۰ is an Arabic zero numeral (U+06F0), categories [Nd].
	maps.Copy(externals, map[string]externalFn{
		"(reflect.Value).Bool":            ext۰reflect۰Value۰Bool,
		"(reflect.Value).CanAddr":         ext۰reflect۰Value۰CanAddr,
		"(reflect.Value).CanInterface":    ext۰reflect۰Value۰CanInterface,
		"(reflect.Value).Elem":            ext۰reflect۰Value۰Elem,
		"(reflect.Value).Field":           ext۰reflect۰Value۰Field,
		"(reflect.Value).Float":           ext۰reflect۰Value۰Float,
		"(reflect.Value).Index":           ext۰reflect۰Value۰Index,
		"(reflect.Value).Int":             ext۰reflect۰Value۰Int,
		"(reflect.Value).Interface":       ext۰reflect۰Value۰Interface,
		"(reflect.Value).IsNil":           ext۰reflect۰Value۰IsNil,
		"(reflect.Value).IsValid":         ext۰reflect۰Value۰IsValid,
		"(reflect.Value).Kind":            ext۰reflect۰Value۰Kind,
		"(reflect.Value).Len":             ext۰reflect۰Value۰Len,
		"(reflect.Value).MapIndex":        ext۰reflect۰Value۰MapIndex,
		"(reflect.Value).MapKeys":         ext۰reflect۰Value۰MapKeys,
		"(reflect.Value).NumField":        ext۰reflect۰Value۰NumField,
		"(reflect.Value).NumMethod":       ext۰reflect۰Value۰NumMethod,
		"(reflect.Value).Pointer":         ext۰reflect۰Value۰Pointer,
		"(reflect.Value).Set":             ext۰reflect۰Value۰Set,
		"(reflect.Value).String":          ext۰reflect۰Value۰String,
		"(reflect.Value).Type":            ext۰reflect۰Value۰Type,
		"(reflect.Value).Uint":            ext۰reflect۰Value۰Uint,
		"(reflect.error).Error":           ext۰reflect۰error۰Error,
		"(reflect.rtype).Bits":            ext۰reflect۰rtype۰Bits,
		"(reflect.rtype).Elem":            ext۰reflect۰rtype۰Elem,
		"(reflect.rtype).Field":           ext۰reflect۰rtype۰Field,
		"(reflect.rtype).In":              ext۰reflect۰rtype۰In,
		"(reflect.rtype).Kind":            ext۰reflect۰rtype۰Kind,
		"(reflect.rtype).NumField":        ext۰reflect۰rtype۰NumField,
		"(reflect.rtype).NumIn":           ext۰reflect۰rtype۰NumIn,
		"(reflect.rtype).NumMethod":       ext۰reflect۰rtype۰NumMethod,
		"(reflect.rtype).NumOut":          ext۰reflect۰rtype۰NumOut,
		"(reflect.rtype).Out":             ext۰reflect۰rtype۰Out,
		"(reflect.rtype).Size":            ext۰reflect۰rtype۰Size,
		"(reflect.rtype).String":          ext۰reflect۰rtype۰String,
		"bytes.Equal":                     ext۰bytes۰Equal,
		"bytes.IndexByte":                 ext۰bytes۰IndexByte,
		"math.Copysign":                   ext۰math۰Copysign,
		"math.Exp":                        ext۰math۰Exp,
		"math.Float32bits":                ext۰math۰Float32bits,
		"math.Float32frombits":            ext۰math۰Float32frombits,
		"math.Float64bits":                ext۰math۰Float64bits,
		"math.Float64frombits":            ext۰math۰Float64frombits,
		"math.Inf":                        ext۰math۰Inf,
		"math.Ldexp":                      ext۰math۰Ldexp,
		"math.Log":                        ext۰math۰Log,
		"math.NaN":                        ext۰math۰NaN,
		"os.Exit":                         ext۰os۰Exit,
		"reflect.New":                     ext۰reflect۰New,
		"reflect.SliceOf":                 ext۰reflect۰SliceOf,
		"reflect.TypeOf":                  ext۰reflect۰TypeOf,
		"reflect.ValueOf":                 ext۰reflect۰ValueOf,
		"reflect.Zero":                    ext۰reflect۰Zero,
		"runtime.Breakpoint":              ext۰runtime۰Breakpoint,
		"runtime.GC":                      ext۰runtime۰GC,
		"runtime.GOMAXPROCS":              ext۰runtime۰GOMAXPROCS,
		"runtime.GOROOT":                  ext۰runtime۰GOROOT,
		"runtime.Goexit":                  ext۰runtime۰Goexit,
		"runtime.Gosched":                 ext۰runtime۰Gosched,
		"runtime.NumCPU":                  ext۰runtime۰NumCPU,
		"sort.Float64s":                   ext۰sort۰Float64s,
		"sort.Ints":                       ext۰sort۰Ints,
		"sort.Strings":                    ext۰sort۰Strings,
		"unicode/utf8.DecodeRuneInString": ext۰unicode۰utf8۰DecodeRuneInString,
	})
}

func ext۰bytes۰Equal(fr *frame, args []value) value {
	// func Equal(a, b []byte) bool
	a := args[0].([]value)
	b := args[1].([]value)
	return slices.Equal(a, b)
}

func ext۰bytes۰IndexByte(fr *frame, args []value) value {
	// func IndexByte(s []byte, c byte) int
	s := args[0].([]value)
	c := args[1].(byte)
	for i, b := range s {
		if b.(byte) == c {
			return i
		}
	}
	return -1
}

func ext۰math۰Float64frombits(fr *frame, args []value) value {
	return math.Float64frombits(args[0].(uint64))
}

func ext۰math۰Float64bits(fr *frame, args []value) value {
	return math.Float64bits(args[0].(float64))
}

func ext۰math۰Float32frombits(fr *frame, args []value) value {
	return math.Float32frombits(args[0].(uint32))
}

func ext۰math۰Abs(fr *frame, args []value) value {
	return math.Abs(args[0].(float64))
}

func ext۰math۰Copysign(fr *frame, args []value) value {
	return math.Copysign(args[0].(float64), args[1].(float64))
}

func ext۰math۰Exp(fr *frame, args []value) value {
	return math.Exp(args[0].(float64))
}

func ext۰math۰Float32bits(fr *frame, args []value) value {
	return math.Float32bits(args[0].(float32))
}

func ext۰math۰Min(fr *frame, args []value) value {
	return math.Min(args[0].(float64), args[1].(float64))
}

func ext۰math۰NaN(fr *frame, args []value) value {
	return math.NaN()
}

func ext۰math۰IsNaN(fr *frame, args []value) value {
	return math.IsNaN(args[0].(float64))
}

func ext۰math۰Inf(fr *frame, args []value) value {
	return math.Inf(args[0].(int))
}

func ext۰math۰Ldexp(fr *frame, args []value) value {
	return math.Ldexp(args[0].(float64), args[1].(int))
}

func ext۰math۰Log(fr *frame, args []value) value {
	return math.Log(args[0].(float64))
}

func ext۰math۰Sqrt(fr *frame, args []value) value {
	return math.Sqrt(args[0].(float64))
}

func ext۰runtime۰Breakpoint(fr *frame, args []value) value {
	runtime.Breakpoint()
	return nil
}

func ext۰sort۰Ints(fr *frame, args []value) value {
	x := args[0].([]value)
	sort.Slice(x, func(i, j int) bool {
		return x[i].(int) < x[j].(int)
	})
	return nil
}
func ext۰sort۰Strings(fr *frame, args []value) value {
	x := args[0].([]value)
	sort.Slice(x, func(i, j int) bool {
		return x[i].(string) < x[j].(string)
	})
	return nil
}
func ext۰sort۰Float64s(fr *frame, args []value) value {
	x := args[0].([]value)
	sort.Slice(x, func(i, j int) bool {
		return x[i].(float64) < x[j].(float64)
	})
	return nil
}

func ext۰strconv۰Atoi(fr *frame, args []value) value {
	i, e := strconv.Atoi(args[0].(string))
	if e != nil {
		if fr.i.runtimeErrorString != nil {
			return tuple{i, iface{fr.i.runtimeErrorString, e.Error()}}
		}
		return tuple{i, e.Error()}
	}
	return tuple{i, iface{}}
}
func ext۰strconv۰Itoa(fr *frame, args []value) value {
	return strconv.Itoa(args[0].(int))
}
func ext۰strconv۰FormatFloat(fr *frame, args []value) value {
	return strconv.FormatFloat(args[0].(float64), args[1].(byte), args[2].(int), args[3].(int))
}

func ext۰strings۰Count(fr *frame, args []value) value {
	return strings.Count(args[0].(string), args[1].(string))
}

func ext۰strings۰EqualFold(fr *frame, args []value) value {
	return strings.EqualFold(args[0].(string), args[1].(string))
}
func ext۰strings۰IndexByte(fr *frame, args []value) value {
	return strings.IndexByte(args[0].(string), args[1].(byte))
}

func ext۰strings۰Index(fr *frame, args []value) value {
	return strings.Index(args[0].(string), args[1].(string))
}

func ext۰strings۰Replace(fr *frame, args []value) value {
	// func Replace(s, old, new string, n int) string
	s := args[0].(string)
	new := args[1].(string)
	old := args[2].(string)
	n := args[3].(int)
	return strings.Replace(s, old, new, n)
}

func ext۰strings۰ToLower(fr *frame, args []value) value {
	return strings.ToLower(args[0].(string))
}

func ext۰runtime۰GOMAXPROCS(fr *frame, args []value) value {
	// Ignore args[0]; don't let the interpreted program
	// set the interpreter's GOMAXPROCS!
	return runtime.GOMAXPROCS(0)
}

func ext۰runtime۰Goexit(fr *frame, args []value) value {
	// TODO(adonovan): don't kill the interpreter's main goroutine.
	runtime.Goexit()
	return nil
}

func ext۰runtime۰GOROOT(fr *frame, args []value) value {
	return runtime.GOROOT()
}

func ext۰runtime۰GC(fr *frame, args []value) value {
	runtime.GC()
	return nil
}

func ext۰runtime۰Gosched(fr *frame, args []value) value {
	runtime.Gosched()
	return nil
}

func ext۰runtime۰NumCPU(fr *frame, args []value) value {
	return runtime.NumCPU()
}

func ext۰time۰Sleep(fr *frame, args []value) value {
	time.Sleep(time.Duration(args[0].(int64)))
	return nil
}

func ext۰os۰Getenv(fr *frame, args []value) value {
	name := args[0].(string)
	switch name {
	case "GOSSAINTERP":
		return "1"
	}
	return os.Getenv(name)
}

func ext۰os۰Exit(fr *frame, args []value) value {
	panic(exitPanic(args[0].(int)))
}

func ext۰unicode۰utf8۰DecodeRuneInString(fr *frame, args []value) value {
	r, n := utf8.DecodeRuneInString(args[0].(string))
	return tuple{r, n}
}

// A fake function for turning an arbitrary value into a string.
// Handles only the cases needed by the tests.
// Uses same logic as 'print' built-in.
func ext۰fmt۰Sprint(fr *frame, args []value) value {
	buf := new(bytes.Buffer)
	wasStr := false
	for i, arg := range args[0].([]value) {
		x := arg.(iface).v
		_, isStr := x.(string)
		if i > 0 && !wasStr && !isStr {
			buf.WriteByte(' ')
		}
		wasStr = isStr
		buf.WriteString(toString(x))
	}
	return buf.String()
}
