package interp

import (
	"strings"
)

// In-memory file system for os.ReadFile/WriteFile/Stat (C12). Every write is
// appended to the write log and reported to the harness hook, if one is set.

type fsWrite struct {
	Path string
	Data value // []value of bytes or DecStr-bearing value
}

// fsWrittenKey+path records that the program under test wrote the file since the harness put it there
// (zzverif.FileWritten); natively the same is read off the modification time.
const fsWrittenKey = "\x00written:"

func (i *interpreter) fsGet(name string) (value, bool) {
	v, ok := i.memFS[name]
	return v, ok
}

func (i *interpreter) fsSet(name string, v value) {
	old, had := i.memFS[name]
	if i.logging() {
		i.logUndo(func() {
			if had {
				i.memFS[name] = old
			} else {
				delete(i.memFS, name)
			}
		})
	}
	i.memFS[name] = v
}

func strBytes(s string) []value {
	b := make([]value, len(s))
	for k := 0; k < len(s); k++ {
		b[k] = s[k]
	}
	return b
}

func init() {
	externals["os.ReadFile"] = func(fr *frame, a []value) value {
		name := a[0].(string)
		v, ok := fr.i.fsGet(name)
		if !ok {
			return tuple{[]value(nil), mkErr(fr, "open "+name+": no such file or directory")}
		}
		switch v := v.(type) {
		case string:
			return tuple{strBytes(v), iface{}}
		case []value:
			return tuple{append([]value(nil), v...), iface{}}
		}
		return tuple{v, iface{}}
	}
	externals["os.WriteFile"] = func(fr *frame, a []value) value {
		name := a[0].(string)
		data := a[1]
		if bs, ok := data.([]value); ok {
			conc := true
			for _, b := range bs {
				if _, ok := b.(byte); !ok {
					conc = false
				}
			}
			if conc {
				sb := make([]byte, len(bs))
				for k := range bs {
					sb[k] = bs[k].(byte)
				}
				data = string(sb)
			}
		}
		fr.i.fsSet(name, data)
		fr.i.fsSet(fsWrittenKey+name, "1")
		if h := fr.i.fsHook; h != nil {
			callFn(fr, h, name)
		}
		return iface{}
	}
	externals["os.Stat"] = func(fr *frame, a []value) value {
		name := a[0].(string)
		ok := false
		for k := range fr.i.memFS {
			if k == name || strings.HasPrefix(k, strings.TrimSuffix(name, "/")+"/") {
				ok = true
			}
		}
		if ok {
			return tuple{iface{}, iface{}}
		}
		return tuple{iface{}, mkErr(fr, "stat "+name+": no such file or directory")}
	}
	externals["os.IsNotExist"] = func(fr *frame, a []value) value { return a[0].(iface).t != nil }
	externals["os.IsExist"] = func(fr *frame, a []value) value { return false }
	externals["os.Getenv"] = func(fr *frame, a []value) value { return "" }
	externals["os.LookupEnv"] = func(fr *frame, a []value) value { return tuple{"", false} }
	externals["os.Hostname"] = func(fr *frame, a []value) value { return tuple{"verif-host", iface{}} }
}
