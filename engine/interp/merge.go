package interp

// Mergeable calls: a call into a pure arithmetic library (k8s resource.Quantity
// and friends) with symbolic arguments is if-converted instead of forked. All
// callee paths are enumerated syntactically (no solver calls), the stores of each
// path are captured from the undo log and rolled back, and results and written
// cells are merged into ite terms guarded by the callee-local path conditions.

import (
	"fmt"
	"go/token"
	"go/types"
	"reflect"
	"strings"

	"golang.org/x/tools/go/ssa"

	"gosym/smt"
)

type undoRec struct {
	addr *value
	old  value
	fn   func()
}

func (i *interpreter) logging() bool { return i.logOn }

func (i *interpreter) logCell(addr *value) {
	i.undoLog = append(i.undoLog, undoRec{addr: addr, old: *addr})
}

func (i *interpreter) logUndo(fn func()) {
	i.undoLog = append(i.undoLog, undoRec{fn: fn})
}

// rollback undoes every logged write back to mark.
func (i *interpreter) rollback(mark int) {
	for k := len(i.undoLog) - 1; k >= mark; k-- {
		r := i.undoLog[k]
		if r.fn != nil {
			r.fn()
		} else {
			*r.addr = r.old
		}
	}
	i.undoLog = i.undoLog[:mark]
}

// MergePkgs lists package paths whose functions are if-converted at the call.
var mergePkgs = map[string]bool{
	"k8s.io/apimachinery/pkg/api/resource": true,
}

// mergeFuncs lists further individual functions (by full name) that are merged.
var mergeFuncs = map[string]bool{}

// abort list: reaching one of these inside a merged call ends that callee path;
// the path's condition must then be infeasible in the caller's context.
func onAbortList(fn *ssa.Function) bool {
	if fn.Pkg == nil {
		return false
	}
	pp := fn.Pkg.Pkg.Path()
	if pp == "gopkg.in/inf.v0" || pp == "math/big" {
		return true
	}
	if pp == "k8s.io/apimachinery/pkg/api/resource" {
		switch fn.Name() {
		case "ToDec", "AsDec", "AsCanonicalBytes", "String", "MarshalJSON", "CanonicalizeBytes", "AsApproximateFloat64", "AsFloat64Slow":
			return true
		}
	}
	return false
}

func (i *interpreter) mergeable(fn *ssa.Function) bool {
	if i.X == nil || i.X.noMerge || fn.Blocks == nil || fn.Name() == "init" {
		return false
	}
	if i.mergeBad[fn] >= 3 {
		return false
	}
	if fn.Pkg != nil && mergePkgs[fn.Pkg.Pkg.Path()] {
		return !onAbortList(fn)
	}
	if i.env != nil && len(i.env.Merge) > 0 {
		if v, ok := i.mergeSel[fn]; ok {
			return v
		}
		name := fn.String()
		sel := false
		for _, m := range i.env.Merge {
			if m == name || (strings.HasSuffix(m, "/") && fn.Pkg != nil && fn.Pkg.Pkg.Path()+"/" == m) {
				sel = true
			}
		}
		i.mergeSel[fn] = sel
		return sel
	}
	return false
}

func (e *Explorer) mergeDecide(m *mergeCtx, c *smt.Term) bool {
	if c.Op == smt.OBNot {
		return !e.mergeDecide(m, c.A[0])
	}
	// conditions already fixed on this callee path (or an enclosing one)
	for mm := m; mm != nil; mm = mm.parent {
		for _, p := range mm.pc {
			if p == c {
				return true
			}
			if p.Op == smt.OBNot && p.A[0] == c {
				return false
			}
		}
	}
	// conditions fixed by the caller's path condition
	if e.pcTrue[c.ID] {
		return true
	}
	if e.pcFalse[c.ID] {
		return false
	}
	// conditions settled by interval reasoning over the declared input ranges and
	// the facts of the path condition (overflow guards, sign tests of bounded values)
	if v, known := e.intervals().Decide(c); known {
		return v
	}
	var d bool
	if m.pos < len(m.dec) {
		d = m.dec[m.pos]
	} else {
		if len(m.dec) > 40 {
			panic(engineAbort{"abort-merge", "callee path too deep; last condition " + c.String()})
		}
		d = true
		alt := append(append([]bool(nil), m.dec...), false)
		m.alts = append(m.alts, alt)
		m.dec = append(m.dec, true)
	}
	m.pos++
	if d {
		m.pc = append(m.pc, c)
	} else {
		m.pc = append(m.pc, smt.Not(c))
	}
	return d
}

type poison struct{ why string }

// mergeEnv knows which cells were allocated inside the merged call; two different
// fresh pointers are merged into a new cell holding the merged contents.
type mergeEnv struct {
	in        *interpreter
	fresh     map[*value]bool
	freshMaps map[*hashmap]bool
	outer     *mergeCtx
	depth     int
}

func (me *mergeEnv) mergeVal(c *smt.Term, a, b value) value {
	if c.IsTrue() {
		return a
	}
	if c.IsFalse() {
		return b
	}
	if as, ok := a.(sym); ok {
		return mkSym(smt.Ite(c, as.t, termOf(b, as.k)), as.k)
	}
	if bs, ok := b.(sym); ok {
		return mkSym(smt.Ite(c, termOf(a, bs.k), bs.t), bs.k)
	}
	switch a := a.(type) {
	case structure:
		b, ok := b.(structure)
		if !ok || len(a) != len(b) {
			return poison{"structure shape"}
		}
		// resource.Quantity: the scale of a zero amount is unobservable (Add, Sub, Cmp,
		// AsScaledInt64 and Sign test the value first; only the text of a literal zero
		// reads it), so a zero merged with a non-zero amount takes the other's scale.
		// Without this every Max(x, zeroList) turns the scale into a symbolic ite and
		// all later arithmetic carries both scale cases.
		if isQuantityShape(a) && isQuantityShape(b) {
			ia, ib := a[0].(structure), b[0].(structure)
			za, zb := isConstZero(ia[0]), isConstZero(ib[0])
			if za != zb && !isSym(ia[1]) && !isSym(ib[1]) && ia[1] != ib[1] {
				if za {
					a = structure{structure{ia[0], ib[1]}, a[1], a[2], a[3]}
				} else {
					b = structure{structure{ib[0], ia[1]}, b[1], b[2], b[3]}
				}
			}
		}
		out := make(structure, len(a))
		for i := range a {
			out[i] = me.mergeVal(c, a[i], b[i])
		}
		return out
	case array:
		b, ok := b.(array)
		if !ok || len(a) != len(b) {
			return poison{"array shape"}
		}
		out := make(array, len(a))
		for i := range a {
			out[i] = me.mergeVal(c, a[i], b[i])
		}
		return out
	case tuple:
		b, ok := b.(tuple)
		if !ok || len(a) != len(b) {
			return poison{"tuple shape"}
		}
		out := make(tuple, len(a))
		for i := range a {
			out[i] = me.mergeVal(c, a[i], b[i])
		}
		return out
	case bool, int, int8, int16, int32, int64, uint, uint8, uint16, uint32, uint64, uintptr, float64:
		if reflect.TypeOf(a) != reflect.TypeOf(b) {
			return poison{"scalar type"}
		}
		if a == b {
			return a
		}
		k := kindOfVal(a)
		return mkSym(smt.Ite(c, termOf(a, k), termOf(b, k)), k)
	case string:
		if bs, ok := b.(string); ok && bs == a {
			return a
		}
		return poison{"string differs between merged paths"}
	case *value:
		pb, ok := b.(*value)
		if ok && pb == a {
			return a
		}
		if ok && a != nil && pb != nil && me.fresh[a] && me.fresh[pb] && me.depth < 16 {
			me.depth++
			nv := me.mergeVal(c, *a, *pb)
			me.depth--
			if _, bad := nv.(poison); bad {
				return nv
			}
			nc := new(value)
			*nc = nv
			me.fresh[nc] = true
			me.in.allocLog = append(me.in.allocLog, nc)
			return nc
		}
		return poison{"pointer differs between merged paths"}
	case iface:
		if bi, ok := b.(iface); ok && sameType(a.t, bi.t) {
			if a.t == nil {
				return a
			}
			v := me.mergeVal(c, a.v, bi.v)
			if _, bad := v.(poison); bad {
				return v
			}
			return iface{a.t, v}
		}
		return poison{"interface type differs between merged paths"}
	case nil:
		if b == nil {
			return nil
		}
	case []value:
		if bs, ok := b.([]value); ok {
			if a == nil && bs == nil {
				return a
			}
			if len(a) == len(bs) && (len(a) == 0 || &a[0] == &bs[0]) {
				return a
			}
		}
		return poison{"slice differs between merged paths"}
	case *hashmap:
		bm, ok := b.(*hashmap)
		if ok && bm == a {
			return a
		}
		// two maps allocated on different callee paths with the same key sequence
		// are merged entry-wise into a new map
		if ok && a != nil && bm != nil && me.freshMaps[a] && me.freshMaps[bm] && a.len() == bm.len() && me.depth < 16 {
			ea, eb := a.entries(), bm.entries()
			nm := &hashmap{keyType: a.keyType, table: make(map[int][]*entry), creator: me.outer}
			for k := range ea {
				if !equalsNoSym(a.keyType, ea[k].key, eb[k].key) {
					return poison{"map key order differs between merged paths"}
				}
				me.depth++
				v := me.mergeVal(c, ea[k].value, eb[k].value)
				me.depth--
				if _, bad := v.(poison); bad {
					return v
				}
				nm.insert(nil, ea[k].key, v)
			}
			me.freshMaps[nm] = true
			if me.outer != nil {
				me.in.mapLog = append(me.in.mapLog, nm)
			}
			return nm
		}
		return poison{"map differs between merged paths"}
	case *ssa.Function, *closure:
		if a == b {
			return a
		}
		return poison{"func differs between merged paths"}
	}
	return poison{fmt.Sprintf("%T/%T", a, b)}
}

type mpath struct {
	pc      *smt.Term
	res     value
	writes  map[*value]value
	aborted string
	fresh   []*value
}

func pcTerm(pc []*smt.Term) *smt.Term {
	t := smt.True
	for _, c := range pc {
		t = smt.And(t, c)
	}
	return t
}

// mergeCall if-converts one call. ok=false means the merge was abandoned (the
// state is as before the call) and the caller should execute the call by forking.
func mergeCall(i *interpreter, caller *frame, callpos token.Pos, fn *ssa.Function, args []value, env []value) (res value, ok bool) {
	e := i.X
	outer := e.mctx
	mark := len(i.undoLog)
	savedDepth := len(i.stack)
	var paths []mpath
	var order []*value
	allocMark := len(i.allocLog)
	mapMark := len(i.mapLog)
	seenAddr := map[*value]bool{}
	work := [][]bool{{}}
	e.res.Merges++
	defer func() {
		if r := recover(); r != nil {
			i.rollback(mark)
			e.mctx = outer
			i.stack = i.stack[:savedDepth]
			if outer == nil {
				e.pendingInfeasible = nil
			}
			if ea, isEA := r.(engineAbort); isEA && ea.kind == "abort-merge" {
				// at top level the call is then executed by forking; inside an enclosing
				// merged call it is executed inline as part of the enclosing callee path
				i.mergeBad[fn]++
				e.res.MergeAborts++
				if e.res.MergeAbortWhy == nil {
					e.res.MergeAbortWhy = map[string]int{}
				}
				e.res.MergeAbortWhy[fn.String()+": "+ea.msg]++
				res, ok = nil, false
				return
			}
			panic(r)
		}
	}()
	for len(work) > 0 {
		d := work[len(work)-1]
		work = work[:len(work)-1]
		if len(paths) >= 96 {
			panic(engineAbort{"abort-merge", "too many callee paths in " + fn.String()})
		}
		m := &mergeCtx{dec: d, parent: outer}
		e.mctx = m
		p := mpath{}
		pathAllocMark := len(i.allocLog)
		func() {
			defer func() {
				if r := recover(); r != nil {
					i.stack = i.stack[:savedDepth]
					if ea, isEA := r.(engineAbort); isEA {
						if ea.kind == "dec-fallback" {
							p.aborted = ea.msg
							return
						}
						panic(r)
					}
					// a target-level panic on a callee path: keep as aborted path whose
					// condition must be infeasible in context
					p.aborted = "callee panic: " + describePanic(r)
				}
			}()
			p.res = callSSAraw(i, caller, callpos, fn, args, env)
		}()
		e.res.MergePaths++
		// capture the final values of the cells written on this path
		p.writes = map[*value]value{}
		for k := mark; k < len(i.undoLog); k++ {
			r := i.undoLog[k]
			if r.fn != nil {
				panic(engineAbort{"abort-merge", "map mutation inside merged call " + fn.String()})
			}
			if _, dup := p.writes[r.addr]; !dup {
				p.writes[r.addr] = *r.addr
				if !seenAddr[r.addr] {
					seenAddr[r.addr] = true
					order = append(order, r.addr)
				}
			}
		}
		i.rollback(mark)
		p.fresh = append([]*value(nil), i.allocLog[pathAllocMark:]...)
		p.pc = pcTerm(m.pc)
		paths = append(paths, p)
		work = append(work, m.alts...)
	}
	e.mctx = outer
	// aborted paths must be infeasible in the caller's context
	var good []mpath
	for _, p := range paths {
		if p.aborted != "" {
			if outer != nil {
				// nested merge: propagate as an aborted path of the outer callee if its
				// condition is not trivially false
				if !p.pc.IsFalse() {
					// the enclosing callee path continues under the assumption that this
					// inner path is not taken; the obligation that it is infeasible there is
					// discharged when the outermost merge completes
					full := p.pc
					for mm := outer; mm != nil; mm = mm.parent {
						full = smt.And(pcTerm(mm.pc), full)
					}
					outer.pc = append(outer.pc, smt.Not(p.pc))
					e.pendingInfeasible = append(e.pendingInfeasible, pendingCheck{cond: full, why: p.aborted + " in " + fn.String()})
				}
				continue
			}
			r, _ := e.check(p.pc, false)
			if r != smt.Unsat {
				if strings.HasPrefix(p.aborted, "callee panic") {
					// a feasible panic inside library code: fall back to forking so that it is
					// reported on a real path
					panic(engineAbort{"abort-merge", p.aborted})
				}
				unsupported("arbitrary-precision fallback of %s is reachable (%s); outside the magnitude bound", fn.String(), p.aborted)
			}
			continue
		}
		good = append(good, p)
	}
	if outer == nil {
		pend := e.pendingInfeasible
		e.pendingInfeasible = nil
		for _, pc := range pend {
			if r, _ := e.check(pc.cond, false); r != smt.Unsat {
				unsupported("fallback path is reachable (%s); outside the magnitude bound", pc.why)
			}
		}
	}
	if len(good) == 0 {
		panic(engineAbort{"infeasible", "no feasible callee path in " + fn.String()})
	}
	me := &mergeEnv{in: i, fresh: map[*value]bool{}, freshMaps: map[*hashmap]bool{}, outer: outer}
	for _, hm := range i.mapLog[mapMark:] {
		me.freshMaps[hm] = true
		hm.creator = outer // from now on the map belongs to the enclosing path (or to nobody)
	}
	if outer == nil {
		i.mapLog = i.mapLog[:mapMark]
	}
	owner := map[*value]int{}
	for k, p := range good {
		for _, a := range p.fresh {
			me.fresh[a] = true
			owner[a] = k
		}
	}
	defer func() {
		if outer == nil {
			i.allocLog = i.allocLog[:allocMark]
		}
	}()
	// first pass: a cell allocated on one callee path is reachable from that path
	// only; it gets that path's final content
	for _, a := range order {
		if k, isFresh := owner[a]; isFresh {
			if v, written := good[k].writes[a]; written {
				*a = v
			}
		}
	}
	for _, a := range order {
		if _, isFresh := owner[a]; isFresh {
			continue
		}
		final := *a
		last := true
		for k := len(good) - 1; k >= 0; k-- {
			v, written := good[k].writes[a]
			if !written {
				v = *a
			}
			if last {
				final = v
				last = false
			} else {
				final = me.mergeVal(good[k].pc, v, final)
			}
		}
		if i.logging() {
			i.logCell(a)
		}
		*a = final
	}
	res = good[len(good)-1].res
	for k := len(good) - 2; k >= 0; k-- {
		res = me.mergeVal(good[k].pc, good[k].res, res)
	}
	if p, bad := res.(poison); bad {
		// the whole result differs in shape between callee paths (e.g. a slice built by
		// conditional appends): such a call cannot be if-converted
		panic(engineAbort{"abort-merge", "result of " + fn.String() + " differs in shape between callee paths (" + p.why + ")"})
	}
	return res, true
}

type pendingCheck struct {
	cond *smt.Term
	why  string
}

// checkPoison panics if v is a poison value about to be used.
func checkPoison(v value) {
	if p, ok := v.(poison); ok {
		unsupported("use of a value that differs between merged paths (%s)", p.why)
	}
}

var _ = types.Typ

func equalsNoSym(t types.Type, x, y value) bool {
	if hasSym(x, 0) || hasSym(y, 0) {
		return false
	}
	defer func() { recover() }()
	return equals(t, x, y)
}

func isConstZero(v value) bool {
	x, ok := v.(int64)
	return ok && x == 0
}

// isQuantityShape recognises k8s resource.Quantity values:
// {i int64Amount{value int64, scale int32}, d infDecAmount{*inf.Dec}, s string, Format string}.
func isQuantityShape(s structure) bool {
	if len(s) != 4 {
		return false
	}
	i, ok := s[0].(structure)
	if !ok || len(i) != 2 {
		return false
	}
	switch v := i[0].(type) {
	case int64:
	case sym:
		if v.k != types.Int64 {
			return false
		}
	default:
		return false
	}
	switch v := i[1].(type) {
	case int32:
	case sym:
		if v.k != types.Int32 {
			return false
		}
	default:
		return false
	}
	d, ok := s[1].(structure)
	if !ok || len(d) != 1 {
		return false
	}
	if _, ok := d[0].(*value); !ok {
		return false
	}
	if _, ok := s[2].(string); !ok {
		return false
	}
	switch s[3].(type) {
	case string, poison:
		return true
	}
	return false
}
