package interp

import (
	"fmt"
	"go/token"
	"path"
	"path/filepath"
	"reflect"
	"strconv"
	"strings"
)

var natives = map[string]interface{}{
	"strings.Join": strings.Join, "strings.Split": strings.Split, "strings.SplitN": strings.SplitN,
	"strings.Trim": strings.Trim, "strings.TrimSpace": strings.TrimSpace, "strings.TrimPrefix": strings.TrimPrefix,
	"strings.TrimSuffix": strings.TrimSuffix, "strings.TrimRight": strings.TrimRight, "strings.TrimLeft": strings.TrimLeft,
	"strings.HasPrefix": strings.HasPrefix, "strings.HasSuffix": strings.HasSuffix, "strings.Contains": strings.Contains,
	"strings.Fields": strings.Fields, "strings.Repeat": strings.Repeat, "strings.ToUpper": strings.ToUpper,
	"strings.LastIndex": strings.LastIndex, "strings.ToLower": strings.ToLower, "strings.Title": strings.Title, "strings.TrimFunc": nil, "strings.Index": strings.Index, "strings.IndexByte": strings.IndexByte,
	"strings.EqualFold": strings.EqualFold, "strings.Count": strings.Count, "strings.Replace": strings.Replace, "strings.SplitAfter": strings.SplitAfter, "strings.IndexAny": strings.IndexAny, "strings.ContainsAny": strings.ContainsAny, "strings.ContainsRune": strings.ContainsRune, "strings.IndexRune": strings.IndexRune, "strings.Compare": strings.Compare, "strings.ReplaceAll": strings.ReplaceAll, "strings.Cut": strings.Cut,
	"path/filepath.Join": filepath.Join, "path/filepath.Dir": filepath.Dir, "path/filepath.Base": filepath.Base, "path/filepath.Clean": filepath.Clean,
	"path.Join": path.Join, "path.Base": path.Base, "path.Dir": path.Dir,
	"strconv.ParseInt": strconv.ParseInt, "strconv.ParseUint": strconv.ParseUint, "strconv.ParseFloat": strconv.ParseFloat,
	"strconv.ParseBool": strconv.ParseBool, "strconv.FormatInt": strconv.FormatInt, "strconv.FormatUint": strconv.FormatUint,
	"strconv.Quote": strconv.Quote, "strconv.FormatFloat": strconv.FormatFloat, "strconv.Atoi": strconv.Atoi, "strconv.Itoa": strconv.Itoa,
}

func toNative(v value, t reflect.Type) reflect.Value {
	switch t.Kind() {
	case reflect.Slice:
		if v == nil {
			return reflect.Zero(t)
		}
		s := v.([]value)
		out := reflect.MakeSlice(t, len(s), len(s))
		for i := range s {
			out.Index(i).Set(toNative(s[i], t.Elem()))
		}
		return out
	default:
		return reflect.ValueOf(v).Convert(t)
	}
}

func fromNative(fr *frame, v reflect.Value) value {
	switch v.Kind() {
	case reflect.Slice:
		if v.IsNil() {
			return []value(nil)
		}
		out := make([]value, v.Len())
		for i := range out {
			out[i] = fromNative(fr, v.Index(i))
		}
		return out
	case reflect.Interface: // error
		if v.IsNil() {
			return iface{}
		}
		newFn := fr.i.prog.ImportedPackage("errors").Func("New")
		return call(fr.i, fr, token.NoPos, newFn, []value{fmt.Sprint(v.Interface())})
	}
	return v.Interface()
}

func init() {
	for name, f := range natives {
		if f == nil {
			continue
		}
		fv := reflect.ValueOf(f)
		ft := fv.Type()
		name := name
		externals[name] = func(fr *frame, a []value) value {
			if hasSym(tuple(a), 0) {
				unsupported("symbolic argument to %s (strings are concrete in this engine)", name)
			}
			in := make([]reflect.Value, len(a))
			for i := range a {
				if ft.IsVariadic() && i == ft.NumIn()-1 {
					in[i] = toNative(a[i], ft.In(i))
					out := fv.CallSlice(in)
					return pack(fr, out)
				}
				in[i] = toNative(a[i], ft.In(i))
			}
			return pack(fr, fv.Call(in))
		}
	}
}

func pack(fr *frame, out []reflect.Value) value {
	if len(out) == 1 {
		return fromNative(fr, out[0])
	}
	tu := make(tuple, len(out))
	for i := range out {
		tu[i] = fromNative(fr, out[i])
	}
	return tu
}
