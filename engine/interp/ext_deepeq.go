package interp

import (
	"go/types"
	"reflect"

	"gosym/smt"
)

// deepEqT implements reflect.DeepEqual structurally on interpreter values; with
// symbolic leaves the result is a term.
func deepEqT(x, y value, depth int) *smt.Term {
	if depth > 64 {
		unsupported("reflect.DeepEqual recursion too deep (cyclic value?)")
	}
	if sx, ok := x.(sym); ok {
		return eqTerm(nil, sx, y)
	}
	if _, ok := y.(sym); ok {
		return eqTerm(nil, x, y)
	}
	all := func(n int, f func(i int) *smt.Term) *smt.Term {
		r := smt.True
		for i := 0; i < n; i++ {
			r = smt.And(r, f(i))
			if r.IsFalse() {
				return r
			}
		}
		return r
	}
	switch x := x.(type) {
	case iface:
		y, ok := y.(iface)
		if !ok {
			return smt.False
		}
		if x.t == nil || y.t == nil {
			return smt.BoolC(x.t == nil && y.t == nil)
		}
		if !types.Identical(x.t, y.t) {
			return smt.False
		}
		return deepEqT(x.v, y.v, depth+1)
	case structure:
		y, ok := y.(structure)
		if !ok || len(x) != len(y) {
			return smt.False
		}
		return all(len(x), func(i int) *smt.Term { return deepEqT(x[i], y[i], depth+1) })
	case array:
		y, ok := y.(array)
		if !ok || len(x) != len(y) {
			return smt.False
		}
		return all(len(x), func(i int) *smt.Term { return deepEqT(x[i], y[i], depth+1) })
	case []value:
		y, ok := y.([]value)
		if !ok || (x == nil) != (y == nil) || len(x) != len(y) {
			return smt.False
		}
		return all(len(x), func(i int) *smt.Term { return deepEqT(x[i], y[i], depth+1) })
	case *hashmap:
		y, ok := y.(*hashmap)
		if !ok || (x == nil) != (y == nil) || x.len() != y.len() {
			return smt.False
		}
		r := smt.True
		for _, e := range x.entries() {
			w, ok := y.lookup(e.key)
			if !ok {
				return smt.False
			}
			r = smt.And(r, deepEqT(e.value, w, depth+1))
		}
		return r
	case *value:
		y, ok := y.(*value)
		if !ok {
			return smt.False
		}
		if x == nil || y == nil {
			return smt.BoolC(x == y)
		}
		if x == y {
			return smt.True
		}
		return deepEqT(*x, *y, depth+1)
	case *closure:
		y, ok := y.(*closure)
		return smt.BoolC(ok && x == nil && y == nil)
	}
	return smt.BoolC(reflect.DeepEqual(x, y))
}

func init() {
	externals["reflect.DeepEqual"] = func(fr *frame, a []value) value { return mkSym(deepEqT(a[0], a[1], 0), types.Bool) }
	// apiequality.Semantic.DeepEqual: reflection-based; structural equality on interpreter values
	// (the semantic equalities registered for Quantity/Time compare by value, which the structural
	// comparison of canonical values also does for the concrete-shape values used here)
	externals["(k8s.io/apimachinery/third_party/forked/golang/reflect.Equalities).DeepEqual"] = func(fr *frame, a []value) value {
		return mkSym(deepEqT(a[1], a[2], 0), types.Bool)
	}
}
