package interp

func init() {
	// sort.Slice/SliceStable: the standard library uses insertion sort for n <= 12;
	// harness slices stay below that (checked), so the comparison sequence, and with
	// it the behaviour of inconsistent comparators, is the native one.
	ins := func(fr *frame, a []value) value {
		s := a[0].(iface).v.([]value)
		less := a[1]
		if len(s) > 12 {
			unsupported("sort.Slice on %d > 12 elements (insertion-sort model)", len(s))
		}
		for i := 1; i < len(s); i++ {
			for j := i; j > 0; j-- {
				r := callFn(fr, less, j, j-1)
				if rs, ok := r.(sym); ok {
					r = fr.i.X.decide(rs.t)
				}
				if !r.(bool) {
					break
				}
				if fr.i.logging() {
					fr.i.logCell(&s[j])
					fr.i.logCell(&s[j-1])
				}
				s[j], s[j-1] = s[j-1], s[j]
			}
		}
		return nil
	}
	externals["sort.Slice"] = ins
	externals["sort.SliceStable"] = ins
}
