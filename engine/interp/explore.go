package interp

// Path exploration: fork by re-execution with decision vectors, a model cache,
// independence slicing of the path condition, assertion checking.

import (
	"fmt"
	"go/types"
	"os"
	"sort"
	"strings"
	"time"

	"gosym/smt"
)

// Decision is one recorded nondeterministic step of a path.
type Decision struct {
	Val  uint64 // branch: 0/1; concretisation: the chosen value
	Kind uint8  // 0 = branch, 1 = value
}

// InputDecl describes a symbolic input declared by a harness.
type InputDecl struct {
	Name   string  `json:"name"`
	Kind   string  `json:"kind"` // int64, int32, bool, float64, ...
	Lo     int64   `json:"lo"`
	Hi     int64   `json:"hi"`
	FLo    float64 `json:"flo,omitempty"`
	FHi    float64 `json:"fhi,omitempty"`
	Signed bool    `json:"-"`
	term   *smt.Term
	bk     types.BasicKind
}

// Violation is a failed assertion (or a feasible panic) with a witness.
type Violation struct {
	Label     string
	Kind      string // "assert", "panic"
	Model     smt.Model
	Inputs    map[string]any // decoded input values for replay
	Decisions []Decision
	Detail    string
}

type WorkItem struct {
	Dec   []Decision
	Model smt.Model
}

type PathResult struct {
	Alts          []WorkItem
	Violations    []Violation
	Status        string // "ok", "unsupported", "unwind", "infeasible", "engine-error", "assume-false"
	Detail        string
	Branches      int
	Reached       map[string]int
	AssertsSeen   map[string]int
	AssertsProved map[string]int
	Inputs        []*InputDecl
	Witness       map[string]any // an input vector that drives this path
	PCSize        int
	Instrs        int64
	Observes      map[string]string
	Calls         map[string]int64
	Decisions     []Decision
	Merges        int
	MergePaths    int
	MergeAborts   int
	MergeAbortWhy map[string]int
	SolverUnknown int
	GatesUsed     []string
}

type mergeCtx struct {
	parent *mergeCtx
	dec    []bool
	pos    int
	alts   [][]bool
	pc     []*smt.Term
}

type Explorer struct {
	siteFr *frame // frame of the last symbolic branch (diagnostics only)
	in                *interpreter
	S                 *smt.Solver
	PC                []*smt.Term
	pcTrue            map[uint64]bool // ids of terms known true / false on this path
	pcFalse           map[uint64]bool
	Dec               []Decision
	Pos               int
	Models            []smt.Model
	evals             []*smt.Evaluator
	res               *PathResult
	inputs            map[string]*InputDecl
	order             []*InputDecl
	mctx              *mergeCtx
	varsCache         map[uint64][]string
	MaxDecisions      int
	QueryLog          *os.File
	noMerge           bool
	pendingInfeasible []pendingCheck
	ivs               *smt.Intervals
	curLabel          string
	ivInputs          int
	obs               map[string]value
	gatesUsed         map[string]bool
}

func newExplorer(in *interpreter, s *smt.Solver) *Explorer {
	return &Explorer{in: in, S: s, varsCache: map[uint64][]string{}, MaxDecisions: 4000}
}

func (e *Explorer) reset(item WorkItem) {
	e.PC = e.PC[:0]
	e.pcTrue = map[uint64]bool{}
	e.pcFalse = map[uint64]bool{}
	e.Dec = append([]Decision(nil), item.Dec...)
	e.Pos = 0
	e.Models = nil
	e.evals = nil
	if item.Model != nil {
		e.addModel(item.Model)
	}
	e.inputs = map[string]*InputDecl{}
	e.order = nil
	e.mctx = nil
	e.obs = nil
	e.ivs = nil
	e.gatesUsed = map[string]bool{}
	e.pendingInfeasible = nil
	e.res = &PathResult{Status: "ok", Reached: map[string]int{}, AssertsSeen: map[string]int{}, AssertsProved: map[string]int{}, Observes: map[string]string{}, Calls: map[string]int64{}}
}

func (e *Explorer) addModel(m smt.Model) {
	// only assignments that satisfy the whole path condition may serve as witnesses
	// for later branch decisions (a model completed from a sliced query without a
	// live model to fill in the other variables may violate conjuncts outside the slice)
	chk := smt.NewEvaluator(m)
	for _, p := range e.PC {
		if !chk.Bool(p) || chk.Failed {
			return
		}
	}
	if len(e.Models) >= 6 {
		e.Models = e.Models[1:]
		e.evals = e.evals[1:]
	}
	e.Models = append(e.Models, m)
	e.evals = append(e.evals, smt.NewEvaluator(m))
}

// completeModel extends m (which may cover only a slice of the variables) with
// values from a live model, then with each input's lower bound.
func (e *Explorer) completeModel(m smt.Model) smt.Model {
	out := smt.Model{}
	if len(e.Models) > 0 {
		for k, v := range e.Models[len(e.Models)-1] {
			out[k] = v
		}
	}
	for k, v := range m {
		out[k] = v
	}
	for _, d := range e.order {
		if _, ok := out[d.Name]; !ok {
			out[d.Name] = defaultValue(d)
		}
	}
	return out
}

func defaultValue(d *InputDecl) smt.Value {
	switch d.Kind {
	case "bool":
		return smt.Value{}
	case "float64":
		return smt.Value{Lo: smt.FPC(d.FLo).Lo}
	}
	w, _ := kindWidth(d.bk)
	return smt.Value{Lo: smt.BVS(d.Lo, w).Lo}
}

func (e *Explorer) varsOf(t *smt.Term) []string {
	if v, ok := e.varsCache[t.ID]; ok {
		return v
	}
	set := map[*smt.Term]bool{}
	smt.Vars(t, set, map[uint64]bool{})
	out := make([]string, 0, len(set))
	for v := range set {
		out = append(out, v.Name)
	}
	sort.Strings(out)
	e.varsCache[t.ID] = out
	return out
}

// slice returns the conjuncts of the path condition that (transitively) share
// variables with target. The rest is satisfiable on its own (invariant of the
// exploration) and independent, so it cannot change the verdict.
func (e *Explorer) slice(target *smt.Term) []*smt.Term {
	need := map[string]bool{}
	for _, v := range e.varsOf(target) {
		need[v] = true
	}
	used := make([]bool, len(e.PC))
	for changed := true; changed; {
		changed = false
		for i, c := range e.PC {
			if used[i] {
				continue
			}
			vs := e.varsOf(c)
			hit := false
			for _, v := range vs {
				if need[v] {
					hit = true
					break
				}
			}
			if hit {
				used[i] = true
				changed = true
				for _, v := range vs {
					need[v] = true
				}
			}
		}
	}
	var out []*smt.Term
	for i, c := range e.PC {
		if used[i] {
			out = append(out, c)
		}
	}
	return out
}

// backends picks the solver order for a query.
func backends(q *smt.Query) []string {
	switch {
	case q.HasFP:
		return []string{smt.CVC5, smt.Z3New}
	default:
		return []string{smt.CVC5Int, smt.Z3New}
	}
}

// check decides satisfiability of PC-slice ∧ target.
func (e *Explorer) check(target *smt.Term, wantModel bool) (smt.Result, smt.Model) {
	if target.IsFalse() {
		return smt.Unsat, nil
	}
	if e.QueryLog != nil {
		t0 := time.Now()
		defer func() {
			if d := time.Since(t0); d > 5*time.Second && e.siteFr != nil {
				fmt.Fprintf(e.QueryLog, "SLOW %v label=%q at %s\n", d, e.curLabel, e.siteFr.where())
			}
		}()
	}
	as := append(e.slice(target), target)
	q := smt.BuildQuery(as)
	var last smt.Result
	if q.HasFP {
		// the same abstraction on top of the wrap-free integer translation (z3)
		if iq := smt.BuildQueryInt(as, e.intervals()); iq != nil && iq.Abstracted {
			t0 := time.Now()
			r, m, err := e.S.CheckT(smt.Z3New, iq, true, e.S.Timeout)
			if e.QueryLog != nil {
				fmt.Fprintf(e.QueryLog, "z3-new(int,fp-abstract) %s %v vars=%d bytes=%d err=%v label=%q\n", r, time.Since(t0), len(iq.Vars), len(iq.Text), err, e.curLabel)
			}
			if err == nil && r == smt.Unsat {
				return smt.Unsat, nil
			}
			if err == nil && r == smt.Sat && m != nil {
				// the abstraction may have invented float results; but if the integer
				// assignment satisfies the real assertions under concrete evaluation it
				// is a genuine model
				full := e.completeModel(m)
				ev := smt.NewEvaluator(full)
				good := true
				for _, a := range as {
					if !ev.Bool(a) {
						good = false
						break
					}
				}
				if good && !ev.Failed {
					if e.QueryLog != nil {
						fmt.Fprintf(e.QueryLog, "abstract model validated concretely\n")
					}
					return smt.Sat, full
				}
			}
		}
	}
	if q.HasFP {
		// first try with the float sub-computations abstracted to uninterpreted
		// functions of their integer inputs: unsat there is unsat of the real query
		aq := smt.BuildQueryAbstractFP(as, e.intervals())
		be := smt.CVC5Int
		if aq.HasFP {
			be = smt.CVC5
		}
		t0 := time.Now()
		r, _, err := e.S.Check(be, aq, false)
		if e.QueryLog != nil {
			fmt.Fprintf(e.QueryLog, "%s(fp-abstract) %s %v vars=%d bytes=%d err=%v label=%q\n", be, r, time.Since(t0), len(aq.Vars), len(aq.Text), err, e.curLabel)
		}
		if err == nil && r == smt.Unsat {
			return smt.Unsat, nil
		}
	}
	bes := backends(q)
	// staged: a short first attempt on the primary back end, then the second
	// opinion with the full limit, then the primary again with the full limit
	type stage struct {
		be    string
		limit time.Duration
	}
	stages := []stage{{bes[0], 4 * time.Second}, {bes[1], e.S.Timeout}, {bes[0], e.S.Timeout}}
	if e.S.Timeout <= 4*time.Second {
		stages = []stage{{bes[0], e.S.Timeout}, {bes[1], e.S.Timeout}}
	}
	if q.HasFP && e.S.Timeout > 10*time.Second {
		stages = []stage{{bes[0], 10 * time.Second}, {bes[1], 10 * time.Second}}
	}
	if q.Nonlin && !q.HasFP {
		stages = []stage{{smt.CVC5Int, time.Second}, {smt.CVC5IntOnce, e.S.Timeout}, {smt.Z3New, e.S.Timeout}}
	}
	if !q.HasFP {
		// first the wrap-free integer translation on z3 (decides non-linear queries
		// in milliseconds; linear ones at least as fast as the int-blasted form)
		if e.QueryLog != nil {
			smt.DebugInt = func(w string) { fmt.Fprintf(e.QueryLog, "int-translation failed: %s\n", w) }
		}
		if iq := smt.BuildQueryInt(as, e.intervals()); iq != nil {
			t0 := time.Now()
			r, m, err := e.S.CheckT(smt.Z3New, iq, wantModel, e.S.Timeout)
			if e.QueryLog != nil {
				fmt.Fprintf(e.QueryLog, "z3-new(int) %s %v vars=%d bytes=%d err=%v\n", r, time.Since(t0), len(iq.Vars), len(iq.Text), err)
			}
			if err == nil && r != smt.Unknown {
				if r == smt.Sat && wantModel {
					m = e.completeModel(m)
				}
				return r, m
			}
		}
	}
	for _, st := range stages {
		t0 := time.Now()
		r, m, err := e.S.CheckT(st.be, q, wantModel, st.limit)
		if e.QueryLog != nil {
			fmt.Fprintf(e.QueryLog, "%s %s %v vars=%d bytes=%d err=%v\n", st.be, r, time.Since(t0), len(q.Vars), len(q.Text), err)
		}
		if err == nil && r != smt.Unknown {
			if r == smt.Sat && wantModel {
				m = e.completeModel(m)
			}
			return r, m
		}
		last = r
	}
	e.res.SolverUnknown++
	return last, nil
}

func (e *Explorer) push(c *smt.Term) {
	if c.IsTrue() {
		return
	}
	e.PC = append(e.PC, c)
	if c.Op == smt.OBNot {
		e.pcFalse[c.A[0].ID] = true
	} else {
		e.pcTrue[c.ID] = true
	}
	if e.ivs != nil && e.ivs.Learn(c) {
		e.ivs.Invalidate()
	}
	// keep only the live models consistent with the new conjunct
	var ms []smt.Model
	var es []*smt.Evaluator
	for i, ev := range e.evals {
		if ev.Bool(c) && !ev.Failed {
			ms = append(ms, e.Models[i])
			es = append(es, ev)
		}
	}
	e.Models, e.evals = ms, es
}

// decide resolves a symbolic branch condition.
func (e *Explorer) decide(c *smt.Term) bool {
	if c.IsConst() {
		return c.IsTrue()
	}
	if m := e.mctx; m != nil {
		return e.mergeDecide(m, c)
	}
	if e.pcTrue[c.ID] {
		return true
	}
	if e.pcFalse[c.ID] {
		return false
	}
	if c.Op == smt.OBNot {
		return !e.decide(c.A[0])
	}
	if v, known := e.intervals().Decide(c); known {
		return v
	}
	e.res.Branches++
	if e.Pos < len(e.Dec) {
		d := e.Dec[e.Pos]
		e.Pos++
		if d.Kind != 0 {
			panic(engineAbort{"engine-error", "decision vector out of sync (expected branch)"})
		}
		if d.Val != 0 {
			e.push(c)
			return true
		}
		e.push(smt.Not(c))
		return false
	}
	if len(e.Dec) >= e.MaxDecisions {
		panic(engineAbort{"unwind", fmt.Sprintf("more than %d symbolic decisions on one path", e.MaxDecisions)})
	}
	var mT, mF smt.Model
	for i, ev := range e.evals {
		b := ev.Bool(c)
		if ev.Failed {
			ev.Failed = false
			continue
		}
		if b {
			if mT == nil {
				mT = e.Models[i]
			}
		} else if mF == nil {
			mF = e.Models[i]
		}
	}
	okT, okF := mT != nil, mF != nil
	if !okT {
		r, m := e.check(c, true)
		switch r {
		case smt.Sat:
			okT, mT = true, m
			e.addModel(m)
		case smt.Unknown:
			okT = true // keep: may be infeasible; any finding is confirmed by replay
		}
	}
	if !okF {
		r, m := e.check(smt.Not(c), true)
		switch r {
		case smt.Sat:
			okF, mF = true, m
			e.addModel(m)
		case smt.Unknown:
			okF = true
		}
	}
	var d bool
	switch {
	case okT && okF:
		alt := append(append([]Decision(nil), e.Dec...), Decision{Val: 0})
		e.res.Alts = append(e.res.Alts, WorkItem{Dec: alt, Model: mF})
		d = true
	case okT:
		d = true
	case okF:
		d = false
	default:
		if d := os.Getenv("GOSYM_DEBUG_DIR"); d != "" {
			os.MkdirAll(d, 0755)
			as := append(e.slice(c), c)
			os.WriteFile(fmt.Sprintf("%s/infeasible_%d_bv.smt2", d, c.ID), []byte("(set-logic ALL)\n"+smt.BuildQuery(as).Text+"(check-sat)\n"), 0644)
			if iq := smt.BuildQueryInt(as, e.intervals()); iq != nil {
				os.WriteFile(fmt.Sprintf("%s/infeasible_%d_int.smt2", d, c.ID), []byte(iq.Text+"(check-sat)\n"), 0644)
			}
			if iq := smt.BuildQueryInt(e.PC, e.intervals()); iq != nil {
				os.WriteFile(fmt.Sprintf("%s/infeasible_%d_pcint.smt2", d, c.ID), []byte(iq.Text+"(check-sat)\n(get-model)\n"), 0644)
			}
			pcq := smt.BuildQuery(e.PC)
			os.WriteFile(fmt.Sprintf("%s/infeasible_%d_pc.smt2", d, c.ID), []byte("(set-logic ALL)\n"+pcq.Text+"(check-sat)\n"), 0644)
		}
		panic(engineAbort{"infeasible", "both sides of a branch are infeasible: " + c.String()})
	}
	v := uint64(0)
	if d {
		v = 1
	}
	e.Dec = append(e.Dec, Decision{Val: v})
	e.Pos++
	if d {
		e.push(c)
	} else {
		e.push(smt.Not(c))
	}
	return d
}

// concretize forks over the feasible values of a symbolic scalar (bounded).
func (e *Explorer) concretize(s sym, why string) value {
	if e.mctx != nil {
		panic(engineAbort{"abort-merge", "concretisation inside a merged call: " + why})
	}
	w, _ := kindWidth(s.k)
	if w == smt.FP64 {
		unsupported("concretisation of a float (%s)", why)
	}
	if w == smt.Bool {
		return e.decide(s.t)
	}
	e.res.Branches++
	if e.Pos < len(e.Dec) {
		d := e.Dec[e.Pos]
		e.Pos++
		if d.Kind != 1 {
			panic(engineAbort{"engine-error", "decision vector out of sync (expected value)"})
		}
		c := smt.BV(d.Val, w)
		e.push(smt.Eq(s.t, c))
		// exclusions recorded by the producer of this work item are re-applied
		return concreteOf(c, s.k)
	}
	if len(e.Dec) >= e.MaxDecisions {
		panic(engineAbort{"unwind", "too many decisions"})
	}
	// enumerate values: each found value spawns a work item; this path takes the first.
	var vals []uint64
	var models []smt.Model
	excl := smt.True
	for len(vals) < 65 {
		var m smt.Model
		found := false
		for i, ev := range e.evals {
			if ev.Bool(excl) {
				m = e.Models[i]
				found = true
				break
			}
		}
		if !found {
			r, mm := e.check(excl, true)
			if r == smt.Unknown {
				unsupported("solver unknown while enumerating values (%s)", why)
			}
			if r == smt.Unsat {
				break
			}
			m = mm
			e.addModel(m)
		}
		v := smt.NewEvaluator(m).Eval(s.t)
		vals = append(vals, v.Lo)
		models = append(models, m)
		excl = smt.And(excl, smt.Not(smt.Eq(s.t, smt.BV(v.Lo, w))))
	}
	if len(vals) == 0 {
		panic(engineAbort{"infeasible", "no value for " + why})
	}
	if len(vals) > 64 {
		unsupported("more than 64 feasible values for a symbolic value that must be concrete (%s)", why)
	}
	for i := 1; i < len(vals); i++ {
		alt := append(append([]Decision(nil), e.Dec...), Decision{Val: vals[i], Kind: 1})
		e.res.Alts = append(e.res.Alts, WorkItem{Dec: alt, Model: models[i]})
	}
	e.Dec = append(e.Dec, Decision{Val: vals[0], Kind: 1})
	e.Pos++
	c := smt.BV(vals[0], w)
	e.push(smt.Eq(s.t, c))
	return concreteOf(c, s.k)
}

// concretizeVal returns v unchanged when concrete.
func (e *Explorer) concretizeVal(v value, why string) value {
	if s, ok := v.(sym); ok {
		return e.concretize(s, why)
	}
	return v
}

func (e *Explorer) assume(c *smt.Term) {
	if c.IsTrue() {
		return
	}
	if e.mctx != nil {
		panic(engineAbort{"abort-merge", "assume inside merged call"})
	}
	if c.IsFalse() {
		panic(engineAbort{"assume-false", ""})
	}
	ok := false
	for _, ev := range e.evals {
		if ev.Bool(c) {
			ok = true
			break
		}
	}
	if !ok {
		r, m := e.check(c, true)
		switch r {
		case smt.Unsat:
			panic(engineAbort{"assume-false", ""})
		case smt.Sat:
			e.addModel(m)
		}
	}
	e.push(c)
}

func (e *Explorer) decodeInputs(m smt.Model) map[string]any {
	out := map[string]any{}
	for _, d := range e.order {
		v, ok := m[d.Name]
		if !ok {
			v = defaultValue(d)
		}
		switch d.Kind {
		case "bool":
			out[d.Name] = v.Lo != 0
		case "float64":
			out[d.Name] = fmt.Sprintf("0x%016x", v.Lo) // bit pattern, exact
		default:
			w, signed := kindWidth(d.bk)
			c := smt.BV(v.Lo, w)
			if signed {
				out[d.Name] = c.SInt()
			} else {
				out[d.Name] = c.Lo
			}
		}
	}
	return out
}

// assert checks c on the current path; on a counterexample the violation is
// recorded and the path continues under c.
func (e *Explorer) assert(c *smt.Term, label string) {
	if e.mctx != nil {
		panic(engineAbort{"abort-merge", "assert inside merged call"})
	}
	e.res.AssertsSeen[label]++
	e.curLabel = label
	defer func() { e.curLabel = "" }()
	if c.IsTrue() {
		e.res.AssertsProved[label]++
		return
	}
	nc := smt.Not(c)
	var m smt.Model
	src := "solver"
	for i, ev := range e.evals {
		if ev.Bool(nc) {
			m = e.completeModel(e.Models[i])
			src = fmt.Sprintf("cache[%d/%d] raw=%v", i, len(e.evals), e.Models[i])
			break
		}
	}
	if m == nil {
		r, mm := e.check(nc, true)
		switch r {
		case smt.Unsat:
			// proved: implied by the path condition, so adding it would only grow
			// later queries (and drag float terms into integer ones)
			e.res.AssertsProved[label]++
			return
		case smt.Unknown:
			e.res.Status = "solver-unknown"
			e.res.Detail = "assertion " + label + ": solver returned unknown"
			e.push(c)
			return
		}
		m = mm
	}
	// the model must satisfy the whole path condition; one completed from a sliced query with no live
	// model at hand may not: ask for an assignment of the whole path condition then
	ev := smt.NewEvaluator(m)
	okAll := ev.Bool(nc)
	for _, p := range e.PC {
		if !ev.Bool(p) {
			okAll = false
			break
		}
	}
	if !okAll {
		e.PC = append(e.PC, nc)
		r, mm := e.checkAll()
		e.PC = e.PC[:len(e.PC)-1]
		switch r {
		case smt.Sat:
			m = mm
			ev = smt.NewEvaluator(m)
		case smt.Unsat:
			e.res.Status = "engine-error"
			e.res.Detail = "assertion " + label + ": sliced query satisfiable but the whole path condition is not"
			return
		default:
			e.res.Status = "solver-unknown"
			e.res.Detail = "assertion " + label + ": solver returned unknown for the whole path condition"
			e.push(c)
			return
		}
	}
	for _, p := range e.PC {
		if !ev.Bool(p) {
			e.res.Status = "engine-error"
			ps := p.String()
			if len(ps) > 300 {
				ps = ps[:300]
			}
			e.res.Detail = "model for violated assertion " + label + " does not satisfy the path condition conjunct " + ps + " src=" + src + fmt.Sprintf(" model=%v", m)
			return
		}
	}
	e.res.Violations = append(e.res.Violations, Violation{Label: label, Kind: "assert", Model: m, Inputs: e.decodeInputs(m), Decisions: append([]Decision(nil), e.Dec...)})
	// continue under the assertion if that is still feasible, else end the path
	r, m2 := e.check(c, true)
	if r == smt.Unsat {
		panic(engineAbort{"stop", "assertion fails on every input of this path"})
	}
	if r == smt.Sat {
		e.addModel(m2)
	}
	e.push(c)
}

// witness returns an input vector that drives the current path.
func (e *Explorer) witness() map[string]any {
	if len(e.Models) > 0 {
		return e.decodeInputs(e.completeModel(e.Models[len(e.Models)-1]))
	}
	if len(e.PC) == 0 {
		return e.decodeInputs(e.completeModel(smt.Model{}))
	}
	// ask for one
	r, m := e.checkAll()
	if r == smt.Sat {
		return e.decodeInputs(m)
	}
	return nil
}

func (e *Explorer) checkAll() (smt.Result, smt.Model) {
	if iq := smt.BuildQueryInt(e.PC, e.intervals()); iq != nil && !iq.Abstracted {
		if r, m, err := e.S.Check(smt.Z3New, iq, true); err == nil && r != smt.Unknown {
			if r == smt.Sat {
				m = e.completeModel(m)
			}
			return r, m
		}
	}
	q := smt.BuildQuery(e.PC)
	for _, be := range backends(q) {
		r, m, err := e.S.Check(be, q, true)
		if err == nil && r != smt.Unknown {
			if r == smt.Sat {
				m = e.completeModel(m)
			}
			return r, m
		}
	}
	return smt.Unknown, nil
}

func (e *Explorer) declare(name, kind string, bk types.BasicKind, lo, hi int64) *InputDecl {
	if d, ok := e.inputs[name]; ok {
		if d.Kind != kind {
			panic(engineAbort{"engine-error", "input " + name + " redeclared with another kind"})
		}
		return d
	}
	w, signed := kindWidth(bk)
	d := &InputDecl{Name: name, Kind: kind, Lo: lo, Hi: hi, Signed: signed, bk: bk, term: smt.Var(name, w)}
	e.inputs[name] = d
	e.order = append(e.order, d)
	return d
}

func describePanic(r any) string {
	switch p := r.(type) {
	case targetPanic:
		return "panic: " + toString(p.v)
	case error:
		return "runtime error: " + strings.TrimPrefix(p.Error(), "runtime error: ")
	default:
		return fmt.Sprint(r)
	}
}

// intervals returns the interval analyser over the declared input ranges.
func (e *Explorer) intervals() *smt.Intervals {
	if e.ivs != nil && e.ivInputs != len(e.order) {
		e.ivInputs = len(e.order)
		e.ivs.Invalidate()
	}
	if e.ivs == nil {
		e.ivInputs = len(e.order)
		defer func() {
			for _, c := range e.PC {
				e.ivs.Learn(c)
			}
		}()
		e.ivs = smt.NewIntervals(func(name string) (float64, float64, bool) {
			d, ok := e.inputs[name]
			if !ok {
				return 0, 0, false
			}
			switch d.Kind {
			case "bool":
				return 0, 0, false
			case "float64":
				return d.FLo, d.FHi, true
			}
			return float64(d.Lo), float64(d.Hi), true
		})
	}
	return e.ivs
}
