package interp

// Engine glue: environment configuration, stubs for the environment (logging,
// metrics, feature gates, locks), helpers used by visitInstr, and the exported
// API used by the driver.

import (
	"fmt"
	"go/token"
	"go/types"
	"math"
	"runtime"
	"strings"

	"golang.org/x/tools/go/ssa"

	"gosym/smt"
)

// Env configures one harness run.
type Env struct {
	Params       map[string]int64  // concrete harness parameters (tier dependent)
	Gates        map[string]string // feature gate -> "true" | "false" | "sym"
	InitPkgs     []string          // package path prefixes whose initialisers are run
	Files        map[string]string // initial in-memory file system
	Verbose      bool
	NoMerge      bool
	Redirect     map[string]string // function full name -> full name of the harness function that replaces it (contract stubs)
	Merge        []string          // further functions (full names) or package paths (trailing /) to if-convert
	Budget       int64
	MaxDecisions int
}

type runtimeError string

func (e runtimeError) Error() string { return "runtime error: " + string(e) }
func (e runtimeError) RuntimeError() {}

var _ runtime.Error = runtimeError("")

func isEngineTypeError(re runtime.Error) bool {
	s := re.Error()
	return strings.Contains(s, "interp.sym") || strings.Contains(s, "interp.poison") || strings.Contains(s, "interp.bad")
}

func (fr *frame) where() string {
	if fr == nil || fr.fn == nil {
		return "?"
	}
	return fr.fn.String()
}

func (i *interpreter) stackString(n int) string {
	var sb strings.Builder
	for k := len(i.stack) - 1; k >= 0 && k > len(i.stack)-1-n; k-- {
		sb.WriteString("\n    at ")
		sb.WriteString(i.stack[k].String())
	}
	return sb.String()
}

// conc makes a scalar concrete, forking over its feasible values if symbolic.
func (fr *frame) conc(v value, why string) value {
	if s, ok := v.(sym); ok {
		return fr.i.X.concretize(s, why+" in "+fr.where())
	}
	return v
}

// symIndex bounds-checks and concretises an index.
func (fr *frame) symIndex(idx value, n int) value {
	s, ok := idx.(sym)
	if !ok {
		return idx
	}
	w, signed := kindWidth(s.k)
	var inb *smt.Term
	if signed {
		inb = smt.And(smt.Sle(smt.BV(0, w), s.t), smt.Slt(s.t, smt.BV(uint64(n), w)))
	} else {
		inb = smt.Ult(s.t, smt.BV(uint64(n), w))
	}
	if !fr.i.X.decide(inb) {
		panic(runtimeError(fmt.Sprintf("index out of range [symbolic] with length %d", n)))
	}
	return fr.i.X.concretize(s, "index in "+fr.where())
}

// convGuard requires a symbolic float to be inside the integer target range.
func convGuard(fr *frame, sx sym, dk types.BasicKind) {
	w, signed := kindWidth(dk)
	var lo, hi float64
	if signed {
		lo, hi = -float64(uint64(1)<<(uint(w)-1)), float64(uint64(1)<<(uint(w)-1))
	} else {
		lo, hi = 0, float64(uint64(1)<<(uint(w)-1))*2
	}
	// cheap interval reasoning first: inputs are range-bounded, so most conversions
	// are provably in range without a (hard, floating-point) solver query
	iv := fr.i.X.intervals().Of(sx.t)
	if iv.OK {
		if signed && iv.Lo > lo-1 && iv.Hi < hi {
			return
		}
		if !signed && iv.Lo > -1 && iv.Hi < hi {
			return
		}
	}
	var in *smt.Term
	if signed {
		in = smt.And(smt.FLt(smt.FPC(lo-1), sx.t), smt.FLt(sx.t, smt.FPC(hi)))
	} else {
		in = smt.And(smt.FLt(smt.FPC(-1), sx.t), smt.FLt(sx.t, smt.FPC(hi)))
	}
	if !fr.i.X.decide(in) {
		unsupported("float to integer conversion out of range (or NaN) is feasible in %s", fr.where())
	}
}

// exactIntQuotient rewrites int(round(float64(x)/c)) — round being nothing (truncation), math.Ceil,
// math.Floor or math.Trunc, x a signed 64-bit integer term whose interval lies inside +-2^51 and c a
// positive integer constant below 2^51 — into the integer quotient it denotes. The rewrite is exact:
// float64(x) and c are exact; x = n*c + r with 0 < r < c puts the real quotient at distance >= 1/c from
// the integers n and n+1 while the correctly rounded quotient is within |x/c|*2^-53 < 1/c of it, so the
// rounded quotient lies strictly between the same two integers (and is exact when r = 0).
func exactIntQuotient(fr *frame, sx sym, dk types.BasicKind) (value, bool) {
	t := sx.t
	mode := smt.RTZ
	if t.Op == smt.OFRound {
		mode = t.Aux
		t = t.A[0]
	}
	if mode != smt.RTZ && mode != smt.RTP && mode != smt.RTN {
		return nil, false
	}
	if t.Op != smt.OFDiv || t.A[0].Op != smt.OFFromS || !t.A[1].IsConst() || t.A[0].A[0].W != 64 {
		return nil, false
	}
	c := t.A[1].Float()
	const lim = float64(1 << 51)
	if !(c >= 1 && c < lim) || c != math.Trunc(c) {
		return nil, false
	}
	x := t.A[0].A[0]
	iv := fr.i.X.intervals().Of(x)
	if !iv.OK || iv.Lo <= -lim || iv.Hi >= lim {
		return nil, false
	}
	ci := smt.BVS(int64(c), 64)
	zero := smt.BVS(0, 64)
	var q *smt.Term
	switch mode {
	case smt.RTZ:
		q = smt.SDiv(x, ci)
	case smt.RTP:
		q = smt.Ite(smt.Slt(zero, x), smt.SDiv(smt.Add(x, smt.BVS(int64(c)-1, 64)), ci), smt.SDiv(x, ci))
	default:
		q = smt.Ite(smt.Slt(x, zero), smt.SDiv(smt.Sub(x, smt.BVS(int64(c)-1, 64)), ci), smt.SDiv(x, ci))
	}
	w, _ := kindWidth(dk)
	if w < 64 {
		q = smt.Extract(q, w-1, 0)
	}
	return mkSym(q, dk), true
}

// exactFPBool replaces a float comparison (possibly negated) whose operands are exact dyadic
// computations by the integer comparison it denotes (smt.ExactFP).
func exactFPBool(fr *frame, rs sym) value {
	t, neg := rs.t, false
	if t.Op == smt.OBNot {
		t, neg = t.A[0], true
	}
	switch t.Op {
	case smt.OFLt, smt.OFLe, smt.OFEq:
	default:
		return rs
	}
	if fr.i.X == nil {
		return rs
	}
	q := fr.i.X.intervals().ExactFP(t)
	if q == nil {
		return rs
	}
	if neg {
		q = smt.Not(q)
	}
	return mkSym(q, types.Bool)
}

func (i *interpreter) initAllowed(p string) bool {
	if i.env == nil {
		return false
	}
	for _, q := range i.env.InitPkgs {
		if p == q || (strings.HasSuffix(q, "/") && strings.HasPrefix(p, q)) {
			return true
		}
	}
	return false
}

func zeroResults(sig *types.Signature) value {
	res := sig.Results()
	switch res.Len() {
	case 0:
		return nil
	case 1:
		return zero(res.At(0).Type())
	}
	tu := make(tuple, res.Len())
	for k := 0; k < res.Len(); k++ {
		tu[k] = zero(res.At(k).Type())
	}
	return tu
}

// nullPkgs: every function of these packages returns zero values (logging and
// metrics are not the subject of any property).
func nullPkg(p string) bool {
	return p == "k8s.io/klog/v2" || p == "k8s.io/component-base/metrics" || p == "k8s.io/component-base/metrics/legacyregistry" ||
		strings.HasPrefix(p, "github.com/prometheus/client_golang") || p == "k8s.io/client-go/tools/record" ||
		p == "github.com/go-logr/logr" || p == "k8s.io/klog/v2/internal/serialize"
}

// stubFor returns the environment stub for fn, or nil.
func (i *interpreter) stubFor(fn *ssa.Function) externalFn {
	if ext, ok := i.stubCache[fn]; ok {
		return ext
	}
	if i.noStub[fn] {
		return nil
	}
	var ext externalFn
	name := fn.String()
	if to, ok := i.env.Redirect[name]; ok && i.env != nil {
		target := i.lookupFunc(to)
		if target == nil {
			panic(engineAbort{"engine-error", "redirect target not found: " + to})
		}
		ext = func(fr *frame, a []value) value {
			if fr.i.initMode {
				fr.i.bypass = fn
				return callSSAraw(fr.i, fr.caller, token.NoPos, fn, a, nil)
			}
			return call(fr.i, fr.caller, token.NoPos, target, a)
		}
	} else if e := externals[name]; e != nil {
		ext = e
	} else if fn.Pkg != nil && fn.Name() != "init" {
		p := fn.Pkg.Pkg.Path()
		switch {
		case nullPkg(p):
			sig := fn.Signature
			ext = func(fr *frame, a []value) value { return zeroResults(sig) }
		case strings.HasSuffix(p, "/metrics") && strings.HasPrefix(p, "github.com/koordinator-sh/koordinator/") && fn.Signature.Recv() == nil &&
			(strings.HasPrefix(fn.Name(), "Record") || strings.HasPrefix(fn.Name(), "Reset") || strings.HasPrefix(fn.Name(), "Register")):
			sig := fn.Signature
			ext = func(fr *frame, a []value) value { return zeroResults(sig) }
		}
	}
	if ext == nil {
		i.noStub[fn] = true
		return nil
	}
	i.stubCache[fn] = ext
	return ext
}

// ifaceStub intercepts interface method calls that belong to the environment:
// feature gates (answered by the harness configuration) and metric objects.
func ifaceStub(fr *frame, call *ssa.CallCommon, recv iface) externalFn {
	m := call.Method
	mp := m.Pkg()
	if mp == nil {
		return nil
	}
	if m.Name() == "Enabled" && (mp.Path() == "k8s.io/component-base/featuregate") {
		return func(fr *frame, a []value) value {
			f, _ := a[1].(string)
			return fr.i.gate(f)
		}
	}
	if recv.t == nil {
		if nullPkg(mp.Path()) || mp.Path() == "k8s.io/client-go/tools/events" {
			sig := call.Signature()
			return func(fr *frame, a []value) value { return zeroResults(sig) }
		}
	}
	return nil
}

func (i *interpreter) gate(f string) value {
	mode, ok := "", false
	if i.env != nil {
		mode, ok = i.env.Gates[f]
	}
	if !ok {
		if i.initMode || i.X == nil {
			return false
		}
		unsupported("feature gate %q consulted but not declared by the harness spec", f)
	}
	if i.X != nil {
		i.X.gatesUsed[f] = true
	}
	switch mode {
	case "true":
		return true
	case "false":
		return false
	case "sym":
		d := i.X.declare("gate."+f, "bool", types.Bool, 0, 1)
		return sym{d.term, types.Bool}
	}
	unsupported("bad gate mode %q", mode)
	return nil
}

// callFn calls a target function value from an intrinsic.
func callFn(fr *frame, fn value, args ...value) value {
	return call(fr.i, fr, token.NoPos, fn, args)
}

func mkErr(fr *frame, msg string) value {
	newFn := fr.i.prog.ImportedPackage("errors").Func("New")
	return call(fr.i, fr, token.NoPos, newFn, []value{msg})
}

func mustDeref(t types.Type) types.Type {
	if p, ok := t.Underlying().(*types.Pointer); ok {
		return p.Elem()
	}
	panic(fmt.Sprintf("not a pointer: %v", t))
}

// lookupFunc resolves "pkgpath.Func" to an SSA function (package-level functions only).
func (i *interpreter) lookupFunc(full string) *ssa.Function {
	k := strings.LastIndex(full, ".")
	if k < 0 || strings.HasPrefix(full, "(") {
		return nil
	}
	p := i.prog.ImportedPackage(full[:k])
	if p == nil {
		return nil
	}
	return p.Func(full[k+1:])
}

// lookupMethod finds the pointer-receiver method T.name of a named type in a package.
func (i *interpreter) lookupMethod(pkgPath, typeName, method string) *ssa.Function {
	p := i.prog.ImportedPackage(pkgPath)
	if p == nil {
		return nil
	}
	t := p.Type(typeName)
	if t == nil {
		return nil
	}
	ptr := types.NewPointer(t.Type())
	sel := i.prog.MethodSets.MethodSet(ptr).Lookup(p.Pkg, method)
	if sel == nil {
		return nil
	}
	return i.prog.MethodValue(sel)
}

// lookupValueMethod finds the value-receiver method T.name.
func (i *interpreter) lookupValueMethod(pkgPath, typeName, method string) *ssa.Function {
	p := i.prog.ImportedPackage(pkgPath)
	if p == nil {
		return nil
	}
	t := p.Type(typeName)
	if t == nil {
		return nil
	}
	sel := i.prog.MethodSets.MethodSet(t.Type()).Lookup(p.Pkg, method)
	if sel == nil {
		return nil
	}
	return i.prog.MethodValue(sel)
}
