package interp

// errors.Is / errors.As over the interpreter's interface values. The library bodies go through
// internal/reflectlite (type descriptors the interpreter does not have); the meaning — walk the Unwrap
// chain, compare or assign by dynamic type, honour Is/As methods — is implemented directly on go/types.

import (
	"go/token"
	"go/types"

	"golang.org/x/tools/go/ssa"
)

func (i *interpreter) dynMethod(t types.Type, name string) *ssa.Function {
	if t == nil || t == errorType || t == rtypeType {
		return nil
	}
	sel := i.prog.MethodSets.MethodSet(t).Lookup(nil, name)
	if sel == nil {
		return nil
	}
	return i.prog.MethodValue(sel)
}

func isErrorResult(sig *types.Signature) bool {
	return sig.Params().Len() == 0 && sig.Results().Len() == 1 && types.Identical(sig.Results().At(0).Type(), types.Universe.Lookup("error").Type())
}

// unwrapErr returns the errors wrapped by e (nil when it wraps nothing).
func unwrapErr(fr *frame, e iface) ([]iface, bool) {
	fn := fr.i.dynMethod(e.t, "Unwrap")
	if fn == nil {
		return nil, false
	}
	sig := fn.Signature
	if isErrorResult(sig) {
		r := call(fr.i, fr, token.NoPos, fn, []value{e.v})
		ri, _ := r.(iface)
		if ri.t == nil {
			return nil, true
		}
		return []iface{ri}, true
	}
	if sig.Params().Len() == 0 && sig.Results().Len() == 1 {
		if sl, ok := sig.Results().At(0).Type().Underlying().(*types.Slice); ok && types.Identical(sl.Elem(), types.Universe.Lookup("error").Type()) {
			r := call(fr.i, fr, token.NoPos, fn, []value{e.v})
			var out []iface
			if vs, ok := r.([]value); ok {
				for _, v := range vs {
					if ri, _ := v.(iface); ri.t != nil {
						out = append(out, ri)
					}
				}
			}
			return out, true
		}
	}
	return nil, false
}

func errorsAs(fr *frame, e iface, target iface, elem types.Type, cell *value) bool {
	for {
		match := false
		if it, ok := elem.Underlying().(*types.Interface); ok {
			match = e.t != errorType && types.Implements(e.t, it)
		} else {
			match = types.Identical(e.t, elem)
		}
		if match {
			if fr.i.logging() {
				fr.i.logCell(cell)
			}
			if _, ok := elem.Underlying().(*types.Interface); ok {
				*cell = e
			} else {
				*cell = e.v
			}
			return true
		}
		if fn := fr.i.dynMethod(e.t, "As"); fn != nil && fn.Signature.Params().Len() == 1 && fn.Signature.Results().Len() == 1 {
			if r, ok := call(fr.i, fr, token.NoPos, fn, []value{e.v, target}).(bool); ok && r {
				return true
			}
		}
		next, ok := unwrapErr(fr, e)
		if !ok || len(next) == 0 {
			return false
		}
		if len(next) == 1 {
			e = next[0]
			continue
		}
		for _, n := range next {
			if errorsAs(fr, n, target, elem, cell) {
				return true
			}
		}
		return false
	}
}

func errorsIs(fr *frame, e, target iface) bool {
	errT := types.Universe.Lookup("error").Type()
	for {
		if types.Comparable(target.t) && e.t != nil && types.Identical(e.t, target.t) && equals(errT, e, target) {
			return true
		}
		if fn := fr.i.dynMethod(e.t, "Is"); fn != nil && fn.Signature.Params().Len() == 1 && fn.Signature.Results().Len() == 1 {
			if r, ok := call(fr.i, fr, token.NoPos, fn, []value{e.v, target}).(bool); ok && r {
				return true
			}
		}
		next, ok := unwrapErr(fr, e)
		if !ok || len(next) == 0 {
			return false
		}
		if len(next) == 1 {
			e = next[0]
			continue
		}
		for _, n := range next {
			if errorsIs(fr, n, target) {
				return true
			}
		}
		return false
	}
}

func init() {
	externals["errors.As"] = func(fr *frame, args []value) value {
		e, _ := args[0].(iface)
		if e.t == nil {
			return false
		}
		target, _ := args[1].(iface)
		if target.t == nil {
			panic("errors: target cannot be nil")
		}
		pt, ok := target.t.Underlying().(*types.Pointer)
		cell, ok2 := target.v.(*value)
		if !ok || !ok2 || cell == nil {
			panic("errors: target must be a non-nil pointer")
		}
		return errorsAs(fr, e, target, pt.Elem(), cell)
	}
	externals["errors.Is"] = func(fr *frame, args []value) value {
		e, _ := args[0].(iface)
		target, _ := args[1].(iface)
		if e.t == nil || target.t == nil {
			return e.t == nil && target.t == nil
		}
		return errorsIs(fr, e, target)
	}
}
