// Copyright 2013 The Go Authors. All rights reserved.
// Use of this source code is governed by a BSD-style
// license that can be found in the LICENSE file.

package interp

// All target maps are insertion-ordered hash tables. Iteration visits entries in
// insertion order, which is a legal Go behaviour and — unlike Go's randomised
// order — makes re-execution of a path deterministic.

import (
	"go/types"
)

type hashable interface {
	hash(t types.Type) int
	eq(t types.Type, x any) bool
}

type entry struct {
	key     value
	value   value
	deleted bool
}

type hashmap struct {
	keyType types.Type
	table   map[int][]*entry
	order   []*entry
	length  int
	// creator is the merged-call path that allocated the map (nil outside merged
	// calls). While that path is the innermost one running, mutations need no undo
	// record: nothing outside the path can reach the map.
	creator *mergeCtx
}

func (m *hashmap) freshIn(i *interpreter) bool {
	return m.creator != nil && i != nil && i.X != nil && i.X.mctx == m.creator
}

// makeMap returns an empty initialized map of key type kt.
func makeMap(kt types.Type, reserve int64) value {
	return &hashmap{keyType: kt, table: make(map[int][]*entry)}
}

func checkKey(k value) {
	if hasSym(k, 0) {
		unsupported("symbolic value used as map key")
	}
}

func (m *hashmap) find(k value) (*entry, int) {
	h := hash(m.keyType, m.keyType, k)
	for _, e := range m.table[h] {
		if equals(m.keyType, k, e.key) {
			return e, h
		}
	}
	return nil, h
}

// delete removes the association for key k, if any.
func (m *hashmap) delete(i *interpreter, k value) {
	if m == nil {
		return
	}
	checkKey(k)
	e, h := m.find(k)
	if e == nil {
		return
	}
	b := m.table[h]
	for j := range b {
		if b[j] == e {
			nb := make([]*entry, 0, len(b)-1)
			nb = append(nb, b[:j]...)
			nb = append(nb, b[j+1:]...)
			m.table[h] = nb
			break
		}
	}
	e.deleted = true
	m.length--
	if i != nil && i.logging() && !m.freshIn(i) {
		i.logUndo(func() {
			e.deleted = false
			m.table[h] = append(m.table[h], e)
			m.length++
		})
	}
}

// lookup returns the value associated with key k.
func (m *hashmap) lookup(k value) (value, bool) {
	if m == nil {
		return nil, false
	}
	checkKey(k)
	if e, _ := m.find(k); e != nil {
		return e.value, true
	}
	return nil, false
}

// insert updates the map to associate key k with value v.
func (m *hashmap) insert(i *interpreter, k value, v value) {
	checkKey(k)
	e, h := m.find(k)
	if e != nil {
		if i != nil && i.logging() && !m.freshIn(i) {
			old := e.value
			i.logUndo(func() { e.value = old })
		}
		e.value = v
		return
	}
	e = &entry{key: k, value: v}
	m.table[h] = append(m.table[h], e)
	m.order = append(m.order, e)
	m.length++
	if i != nil && i.logging() && !m.freshIn(i) {
		i.logUndo(func() {
			b := m.table[h]
			for j := range b {
				if b[j] == e {
					m.table[h] = append(append([]*entry{}, b[:j]...), b[j+1:]...)
					break
				}
			}
			for j := len(m.order) - 1; j >= 0; j-- {
				if m.order[j] == e {
					m.order = append(m.order[:j:j], m.order[j+1:]...)
					break
				}
			}
			m.length--
		})
	}
}

// len returns the number of key/value associations in the map.
func (m *hashmap) len() int {
	if m != nil {
		return m.length
	}
	return 0
}

// entries returns the live entries in insertion order.
func (m *hashmap) entries() []*entry {
	if m == nil {
		return nil
	}
	out := make([]*entry, 0, m.length)
	for _, e := range m.order {
		if !e.deleted {
			out = append(out, e)
		}
	}
	return out
}

type hashmapIter struct {
	m   *hashmap
	pos int
}

func (it *hashmapIter) next() tuple {
	if it.m != nil {
		for it.pos < len(it.m.order) {
			e := it.m.order[it.pos]
			it.pos++
			if !e.deleted {
				return []value{true, e.key, e.value}
			}
		}
	}
	return []value{false, nil, nil}
}
