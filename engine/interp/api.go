package interp

// Exported API used by the driver.

import (
	"fmt"
	"go/token"
	"go/types"
	"os"
	"runtime"
	"sort"
	"strings"
	"time"

	"golang.org/x/tools/go/ssa"

	"gosym/smt"
)

// Worker owns one interpreter instance and one set of solver processes.
type Worker struct {
	i          *interpreter
	S          *smt.Solver
	InitPoison int
	InitTime   time.Duration
}

func NewWorker(prog *ssa.Program, env *Env, solverTimeout time.Duration, dumpDir string) *Worker {
	i := &interpreter{
		prog:       prog,
		globals:    make(map[*ssa.Global]*value),
		sizes:      types.SizesFor("gc", "amd64"),
		goroutines: 1,
		mergeBad:   map[*ssa.Function]int{},
		mergeSel:   map[*ssa.Function]bool{},
		calls:      map[*ssa.Function]int64{},
		env:        env,
		goDropped:  map[string]int{},
		stubCache:  map[*ssa.Function]externalFn{},
		noStub:     map[*ssa.Function]bool{},
		smaps:      map[*value]*smap{},
		memFS:      map[string]value{},
		clock:      int64(1790000000),
	}
	if rp := prog.ImportedPackage("runtime"); rp != nil {
		i.runtimeErrorString = rp.Type("errorString").Object().Type()
	}
	initReflect(i)
	w := &Worker{i: i, S: smt.NewSolver(solverTimeout)}
	w.S.DumpDir = dumpDir
	t0 := time.Now()
	i.initMode = true
	// run the allow-listed package initialisers in dependency order
	done := map[*ssa.Package]bool{}
	var visit func(p *ssa.Package)
	visit = func(p *ssa.Package) {
		if done[p] {
			return
		}
		done[p] = true
		for _, imp := range p.Pkg.Imports() {
			if sp := prog.Package(imp); sp != nil {
				visit(sp)
			}
		}
		if !i.initAllowed(p.Pkg.Path()) {
			return
		}
		initFn := p.Func("init")
		if initFn == nil {
			return
		}
		func() {
			defer func() {
				if r := recover(); r != nil {
					i.stack = i.stack[:0]
					i.nPoison++
					if env.Verbose {
						fmt.Printf("init of %s failed: %v\n", p.Pkg.Path(), r)
					}
				}
			}()
			// run the body of the synthetic init without re-running dependencies:
			// imported packages' init calls inside are filtered by initAllowed and by
			// the init guard variable.
			call(i, nil, token.NoPos, initFn, nil)
		}()
	}
	pkgs := prog.AllPackages()
	sort.Slice(pkgs, func(a, b int) bool { return pkgs[a].Pkg.Path() < pkgs[b].Pkg.Path() })
	for _, p := range pkgs {
		visit(p)
	}
	i.initMode = false
	w.InitPoison = i.nPoison
	w.InitTime = time.Since(t0)
	i.X = newExplorer(i, w.S)
	i.X.noMerge = env.NoMerge
	if env.MaxDecisions > 0 {
		i.X.MaxDecisions = env.MaxDecisions
	}
	for k, v := range env.Files {
		i.memFS[k] = v
	}
	return w
}

func (w *Worker) Close() { w.S.Close() }

func (w *Worker) SetQueryLog(f *os.File) { w.i.X.QueryLog = f }

func (w *Worker) SolverStats() map[string]*smt.Stats { return w.S.Stats }

func (w *Worker) GoDropped() map[string]int { return w.i.goDropped }

// RunPath executes fn along the given decision prefix and returns what was found.
func (w *Worker) RunPath(fn *ssa.Function, item WorkItem) (res *PathResult) {
	i := w.i
	e := i.X
	e.reset(item)
	res = e.res
	i.undoLog = i.undoLog[:0]
	i.logOn = true
	i.nInstr = 0
	i.budget = i.env.Budget
	if i.budget == 0 {
		i.budget = 200_000_000
	}
	i.stack = i.stack[:0]
	for k := range i.calls {
		delete(i.calls, k)
	}
	savedClock := i.clock
	savedHook := i.fsHook
	defer func() {
		i.clock = savedClock
		i.fsHook = savedHook
	}()
	func() {
		defer func() {
			r := recover()
			if r == nil {
				return
			}
			stack := i.stackString(12)
			switch p := r.(type) {
			case engineAbort:
				switch p.kind {
				case "assume-false":
					res.Status = "assume-false"
				case "stop":
					// path ended after a definite violation
				default:
					res.Status = p.kind
					res.Detail = p.msg + stack
				}
			case targetPanic, runtime.Error:
				if re, ok := r.(runtime.Error); ok && isEngineTypeError(re) {
					res.Status = "unsupported"
					res.Detail = re.Error() + stack
					return
				}
				msg := describePanic(r)
				if strings.Contains(msg, taintedStr) {
					msg = strings.ReplaceAll(msg, taintedStr, "<symbolic>")
				}
				var m smt.Model
				if len(e.Models) > 0 {
					m = e.completeModel(e.Models[len(e.Models)-1])
				} else if rr, mm := e.checkAll(); rr == smt.Sat {
					m = mm
				} else if len(e.PC) == 0 {
					m = e.completeModel(smt.Model{})
				}
				if m == nil {
					res.Status = "solver-unknown"
					res.Detail = "panic path without a model: " + msg
					return
				}
				res.Violations = append(res.Violations, Violation{Label: msg, Kind: "panic", Model: m, Inputs: e.decodeInputs(m), Decisions: append([]Decision(nil), e.Dec...), Detail: stack})
			default:
				res.Status = "engine-error"
				res.Detail = fmt.Sprint(r) + stack
			}
		}()
		call(i, nil, token.NoPos, fn, nil)
	}()
	if res.Status == "ok" {
		// one assignment of the whole path condition drives both the recorded inputs and the observed values
		var m smt.Model
		switch {
		case len(e.Models) > 0:
			m = e.completeModel(e.Models[len(e.Models)-1])
		case len(e.PC) == 0:
			m = e.completeModel(smt.Model{})
		default:
			if r, mm := e.checkAll(); r == smt.Sat {
				m = mm
			}
		}
		if m != nil {
			res.Witness = e.decodeInputs(m)
			ev := smt.NewEvaluator(m)
			for name, ob := range e.obs {
				if s, ok := ob.(sym); ok {
					v := ev.Eval(s.t)
					w, signed := kindWidth(s.k)
					switch {
					case w == smt.Bool:
						res.Observes[name] = fmt.Sprint(v.Lo != 0)
					case signed:
						res.Observes[name] = fmt.Sprint(smt.BV(v.Lo, w).SInt())
					default:
						res.Observes[name] = fmt.Sprint(v.Lo)
					}
				} else {
					res.Observes[name] = fmt.Sprint(ob)
				}
			}
		}
	}
	res.Inputs = e.order
	res.PCSize = len(e.PC)
	res.Instrs = i.nInstr
	res.Decisions = append([]Decision(nil), e.Dec...)
	for f, n := range i.calls {
		if f.Pkg != nil && strings.HasPrefix(f.Pkg.Pkg.Path(), "github.com/koordinator-sh/koordinator/") && !strings.HasSuffix(f.Pkg.Pkg.Path(), "/zzverif") && !strings.HasPrefix(f.Name(), "Zzv") && !strings.HasPrefix(f.Name(), "zzv") {
			res.Calls[f.String()] += n
		}
	}
	for g := range e.gatesUsed {
		res.GatesUsed = append(res.GatesUsed, g)
	}
	sort.Strings(res.GatesUsed)
	i.logOn = false
	i.rollback(0)
	return res
}

// FuncInstrCount returns the number of SSA instructions of the named function.
func FuncInstrCount(prog *ssa.Program, fullName string) int {
	return 0
}
