package interp

// Symbolic scalars: SMT terms tagged with the Go basic kind they stand for.

import (
	"fmt"
	"go/token"
	"go/types"
	"math"

	"gosym/smt"
)

type sym struct {
	t *smt.Term
	k types.BasicKind
}

func (s sym) String() string { return "sym(" + s.t.String() + ")" }

// engineAbort is the panic value used for engine-level control flow. It is never
// visible to the target program's recover().
type engineAbort struct {
	kind string // "unsupported", "infeasible", "abort-merge", "unwind", "assume-false", "stop"
	msg  string
}

func (e engineAbort) Error() string { return e.kind + ": " + e.msg }

func unsupported(format string, a ...any) {
	panic(engineAbort{"unsupported", fmt.Sprintf(format, a...)})
}

func kindOf(t types.Type) types.BasicKind {
	b, ok := t.Underlying().(*types.Basic)
	if !ok {
		unsupported("symbolic value of non-basic type %v", t)
	}
	k := b.Kind()
	switch k {
	case types.UntypedBool:
		return types.Bool
	case types.UntypedInt:
		return types.Int
	case types.UntypedFloat:
		return types.Float64
	case types.UntypedRune:
		return types.Int32
	}
	return k
}

func kindWidth(k types.BasicKind) (w int, signed bool) {
	switch k {
	case types.Bool:
		return smt.Bool, false
	case types.Int, types.Int64:
		return 64, true
	case types.Uint, types.Uint64, types.Uintptr:
		return 64, false
	case types.Int32:
		return 32, true
	case types.Uint32:
		return 32, false
	case types.Int16:
		return 16, true
	case types.Uint16:
		return 16, false
	case types.Int8:
		return 8, true
	case types.Uint8:
		return 8, false
	case types.Float64:
		return smt.FP64, true
	}
	unsupported("symbolic value of kind %v", k)
	return 0, false
}

func kindOfVal(v value) types.BasicKind {
	switch v.(type) {
	case bool:
		return types.Bool
	case int:
		return types.Int
	case int8:
		return types.Int8
	case int16:
		return types.Int16
	case int32:
		return types.Int32
	case int64:
		return types.Int64
	case uint:
		return types.Uint
	case uint8:
		return types.Uint8
	case uint16:
		return types.Uint16
	case uint32:
		return types.Uint32
	case uint64:
		return types.Uint64
	case uintptr:
		return types.Uintptr
	case float64:
		return types.Float64
	case sym:
		return v.(sym).k
	}
	unsupported("kindOfVal %T", v)
	return 0
}

func isSym(v value) bool { _, ok := v.(sym); return ok }

// termOf lifts a concrete scalar (or passes a symbolic one) to a term of kind k.
func termOf(v value, k types.BasicKind) *smt.Term {
	if s, ok := v.(sym); ok {
		return s.t
	}
	w, _ := kindWidth(k)
	switch w {
	case smt.Bool:
		return smt.BoolC(v.(bool))
	case smt.FP64:
		switch f := v.(type) {
		case float64:
			return smt.FPC(f)
		case float32:
			return smt.FPC(float64(f))
		}
		unsupported("termOf float from %T", v)
	}
	switch x := v.(type) {
	case int:
		return smt.BVS(int64(x), w)
	case int8:
		return smt.BVS(int64(x), w)
	case int16:
		return smt.BVS(int64(x), w)
	case int32:
		return smt.BVS(int64(x), w)
	case int64:
		return smt.BVS(x, w)
	case uint:
		return smt.BV(uint64(x), w)
	case uint8:
		return smt.BV(uint64(x), w)
	case uint16:
		return smt.BV(uint64(x), w)
	case uint32:
		return smt.BV(uint64(x), w)
	case uint64:
		return smt.BV(x, w)
	case uintptr:
		return smt.BV(uint64(x), w)
	}
	unsupported("termOf: %T as kind %v", v, k)
	return nil
}

// concreteOf turns a constant term back into the Go value of kind k.
func concreteOf(t *smt.Term, k types.BasicKind) value {
	switch k {
	case types.Bool:
		return t.Lo != 0
	case types.Int:
		return int(t.SInt())
	case types.Int8:
		return int8(t.SInt())
	case types.Int16:
		return int16(t.SInt())
	case types.Int32:
		return int32(t.SInt())
	case types.Int64:
		return t.SInt()
	case types.Uint:
		return uint(t.Lo)
	case types.Uint8:
		return uint8(t.Lo)
	case types.Uint16:
		return uint16(t.Lo)
	case types.Uint32:
		return uint32(t.Lo)
	case types.Uint64:
		return t.Lo
	case types.Uintptr:
		return uintptr(t.Lo)
	case types.Float64:
		return math.Float64frombits(t.Lo)
	}
	unsupported("concreteOf kind %v", k)
	return nil
}

// mkSym wraps a term; constant terms become concrete Go values again so that
// concrete execution continues at full speed.
func mkSym(t *smt.Term, k types.BasicKind) value {
	if t.IsConst() {
		return concreteOf(t, k)
	}
	return sym{t, k}
}

func symBinop(op token.Token, t types.Type, x, y value) value {
	var k types.BasicKind
	if t != nil {
		k = kindOf(t)
	} else if sx, ok := x.(sym); ok {
		k = sx.k
	} else {
		k = y.(sym).k
	}
	w, signed := kindWidth(k)
	a := termOf(x, k)
	if w == smt.FP64 {
		b := termOf(y, k)
		switch op {
		case token.ADD:
			return mkSym(smt.FAdd(a, b), k)
		case token.SUB:
			return mkSym(smt.FSub(a, b), k)
		case token.MUL:
			return mkSym(smt.FMul(a, b), k)
		case token.QUO:
			return mkSym(smt.FDiv(a, b), k)
		case token.EQL:
			return mkSym(smt.FEq(a, b), types.Bool)
		case token.NEQ:
			return mkSym(smt.Not(smt.FEq(a, b)), types.Bool)
		case token.LSS:
			return mkSym(smt.FLt(a, b), types.Bool)
		case token.LEQ:
			return mkSym(smt.FLe(a, b), types.Bool)
		case token.GTR:
			return mkSym(smt.FLt(b, a), types.Bool)
		case token.GEQ:
			return mkSym(smt.FLe(b, a), types.Bool)
		}
		unsupported("float binop %v", op)
	}
	if op == token.SHL || op == token.SHR {
		// the shift count has its own type
		var b *smt.Term
		if ys, ok := y.(sym); ok {
			yw, ysigned := kindWidth(ys.k)
			b = ys.t
			switch {
			case yw < w:
				if ysigned {
					b = smt.Sext(b, w) // negative counts are excluded by the caller
				} else {
					b = smt.Zext(b, w)
				}
			case yw > w:
				big := smt.Ule(smt.BV(uint64(w), yw), b)
				b = smt.Ite(big, smt.BV(uint64(w), w), smt.Extract(b, w-1, 0))
			}
		} else {
			c := asUint64OrNeg(y)
			if c > uint64(w) {
				c = uint64(w)
			}
			b = smt.BV(c, w)
		}
		switch {
		case op == token.SHL:
			return mkSym(smt.Shl(a, b), k)
		case signed:
			return mkSym(smt.AShr(a, b), k)
		default:
			return mkSym(smt.LShr(a, b), k)
		}
	}
	b := termOf(y, k)
	sel := func(s, u func(a, b *smt.Term) *smt.Term) *smt.Term {
		if signed {
			return s(a, b)
		}
		return u(a, b)
	}
	switch op {
	case token.ADD:
		return mkSym(smt.Add(a, b), k)
	case token.SUB:
		return mkSym(smt.Sub(a, b), k)
	case token.MUL:
		return mkSym(smt.Mul(a, b), k)
	case token.QUO:
		return mkSym(sel(smt.SDiv, smt.UDiv), k)
	case token.REM:
		return mkSym(sel(smt.SRem, smt.URem), k)
	case token.AND:
		if w == smt.Bool {
			return mkSym(smt.And(a, b), k)
		}
		return mkSym(smt.BvAnd(a, b), k)
	case token.OR:
		if w == smt.Bool {
			return mkSym(smt.Or(a, b), k)
		}
		return mkSym(smt.BvOr(a, b), k)
	case token.XOR:
		return mkSym(smt.BvXor(a, b), k)
	case token.AND_NOT:
		return mkSym(smt.BvAnd(a, smt.BvNot(b)), k)
	case token.EQL:
		return mkSym(smt.Eq(a, b), types.Bool)
	case token.NEQ:
		return mkSym(smt.Not(smt.Eq(a, b)), types.Bool)
	case token.LSS:
		return mkSym(sel(smt.Slt, smt.Ult), types.Bool)
	case token.LEQ:
		return mkSym(sel(smt.Sle, smt.Ule), types.Bool)
	case token.GTR:
		a, b = b, a
		return mkSym(sel(smt.Slt, smt.Ult), types.Bool)
	case token.GEQ:
		a, b = b, a
		return mkSym(sel(smt.Sle, smt.Ule), types.Bool)
	}
	unsupported("symBinop %v", op)
	return nil
}

func asUint64OrNeg(v value) uint64 {
	switch x := v.(type) {
	case int, int8, int16, int32, int64:
		n := asInt64(x)
		if n < 0 {
			panic("runtime error: negative shift amount")
		}
		return uint64(n)
	}
	return asUint64(v)
}

func symUnop(op token.Token, sx sym) value {
	switch op {
	case token.SUB:
		if sx.k == types.Float64 {
			return mkSym(smt.FNeg(sx.t), sx.k)
		}
		return mkSym(smt.Neg(sx.t), sx.k)
	case token.NOT:
		return mkSym(smt.Not(sx.t), types.Bool)
	case token.XOR:
		return mkSym(smt.BvNot(sx.t), sx.k)
	}
	unsupported("symUnop %v", op)
	return nil
}

// symConv converts a symbolic scalar to the basic type dst. The caller checks
// float->int range conditions (see convGuard).
func symConv(dst types.Type, x sym) value {
	dk := kindOf(dst)
	dw, _ := kindWidth(dk)
	sw, ssigned := kindWidth(x.k)
	switch {
	case dw == smt.Bool || sw == smt.Bool:
		if dw == sw {
			return sym{x.t, dk}
		}
		unsupported("bool conversion")
	case dw == smt.FP64 && sw == smt.FP64:
		return sym{x.t, dk}
	case dw == smt.FP64:
		if ssigned {
			return mkSym(smt.FFromS(x.t), dk)
		}
		return mkSym(smt.FFromU(x.t), dk)
	case sw == smt.FP64:
		_, dsigned := kindWidth(dk)
		if dsigned {
			return mkSym(smt.FToS(x.t, dw), dk)
		}
		return mkSym(smt.FToU(x.t, dw), dk)
	case dw == sw:
		return sym{x.t, dk}
	case dw < sw:
		return mkSym(smt.Extract(x.t, dw-1, 0), dk)
	case ssigned:
		return mkSym(smt.Sext(x.t, dw), dk)
	}
	return mkSym(smt.Zext(x.t, dw), dk)
}

// hasSym reports whether v contains a symbolic leaf (bounded depth).
func hasSym(v value, depth int) bool {
	if depth > 8 {
		return false
	}
	switch v := v.(type) {
	case sym:
		return true
	case poison:
		return true // path-dependent don't-care value: may only flow into formatting/logging
	case iface:
		return hasSym(v.v, depth+1)
	case structure:
		for _, f := range v {
			if hasSym(f, depth+1) {
				return true
			}
		}
	case array:
		for _, f := range v {
			if hasSym(f, depth+1) {
				return true
			}
		}
	case tuple:
		for _, f := range v {
			if hasSym(f, depth+1) {
				return true
			}
		}
	case []value:
		for _, f := range v {
			if hasSym(f, depth+1) {
				return true
			}
		}
	case *value:
		if v != nil {
			return hasSym(*v, depth+1)
		}
	case *hashmap:
		if v != nil {
			for _, e := range v.order {
				if !e.deleted && (hasSym(e.value, depth+1) || hasSym(e.key, depth+1)) {
					return true
				}
			}
		}
	case *closure:
		if v != nil {
			for _, b := range v.Env {
				if hasSym(b, depth+2) {
					return true
				}
			}
		}
	}
	return false
}
