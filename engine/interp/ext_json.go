package interp

import (
	"bytes"
	"encoding/json"
	"fmt"
	"go/token"
	"go/types"
	"reflect"
	"sort"
	"strings"
)

func bytesOf(v value) []byte {
	s := v.([]value)
	b := make([]byte, len(s))
	for i := range s {
		b[i] = s[i].(byte)
	}
	return b
}

func valOfBytes(b []byte) value {
	s := make([]value, len(b))
	for i := range b {
		s[i] = b[i]
	}
	return s
}

func jsonField(st *types.Struct, i int) (name string, skip bool) {
	f := st.Field(i)
	tag := reflect.StructTag(st.Tag(i)).Get("json")
	if tag == "-" {
		return "", true
	}
	name = strings.Split(tag, ",")[0]
	if name == "" {
		name = f.Name()
	}
	return name, !f.Exported()
}

func decodeInto(fr *frame, t types.Type, node interface{}) value {
	// custom unmarshaler?
	if n, ok := t.(*types.Named); ok {
		pt := types.NewPointer(n)
		if sel := fr.i.prog.MethodSets.MethodSet(pt).Lookup(n.Obj().Pkg(), "UnmarshalJSON"); sel != nil && n.Obj().Pkg() != nil {
			m := fr.i.prog.MethodValue(sel)
			cell := zero(t)
			raw, _ := json.Marshal(node)
			r := call(fr.i, fr, token.NoPos, m, []value{&cell, valOfBytes(raw)})
			if e, ok := r.(iface); ok && e.t != nil {
				panic("UnmarshalJSON failed for " + n.String())
			}
			return cell
		}
	}
	switch u := t.Underlying().(type) {
	case *types.Struct:
		out := zero(t).(structure)
		obj, ok := node.(map[string]interface{})
		if !ok {
			if node == nil {
				return out
			}
			panic(fmt.Sprintf("json: cannot decode %T into struct %v", node, t))
		}
		for i := 0; i < u.NumFields(); i++ {
			f := u.Field(i)
			name, skip := jsonField(u, i)
			if skip {
				continue
			}
			if f.Embedded() && reflect.StructTag(u.Tag(i)).Get("json") == "" {
				out[i] = decodeInto(fr, f.Type(), node)
				continue
			}
			for k, v := range obj {
				if strings.EqualFold(k, name) {
					out[i] = decodeInto(fr, f.Type(), v)
				}
			}
		}
		return out
	case *types.Pointer:
		if node == nil {
			return zero(t)
		}
		cell := decodeInto(fr, u.Elem(), node)
		return &cell
	case *types.Slice:
		if node == nil {
			return zero(t)
		}
		arr := node.([]interface{})
		out := make([]value, len(arr))
		for i := range arr {
			out[i] = decodeInto(fr, u.Elem(), arr[i])
		}
		return out
	case *types.Map:
		if node == nil {
			return zero(t)
		}
		m := makeMap(u.Key(), 0)
		obj := node.(map[string]interface{})
		names := make([]string, 0, len(obj))
		for k := range obj {
			names = append(names, k)
		}
		sort.Strings(names)
		for _, k := range names {
			v := obj[k]
			m.(*hashmap).insert(fr.i, conv(u.Key(), types.Typ[types.String], k), decodeInto(fr, u.Elem(), v))
		}
		return m
	case *types.Basic:
		if node == nil {
			return zero(t)
		}
		switch {
		case u.Info()&types.IsString != 0:
			return node.(string)
		case u.Info()&types.IsBoolean != 0:
			return node.(bool)
		case u.Info()&types.IsInteger != 0:
			n, err := node.(json.Number).Int64()
			if err != nil {
				panic(err)
			}
			return conv(t, types.Typ[types.Int64], n)
		case u.Info()&types.IsFloat != 0:
			f, _ := node.(json.Number).Float64()
			return conv(t, types.Typ[types.Float64], f)
		}
	}
	panic(fmt.Sprintf("json: unsupported target type %v", t))
}

func init() {
	externals["encoding/json.Unmarshal"] = func(fr *frame, a []value) (res value) {
		data := bytesOf(a[0])
		target := a[1].(iface)
		dec := json.NewDecoder(bytes.NewReader(data))
		dec.UseNumber()
		var node interface{}
		if err := dec.Decode(&node); err != nil {
			return mkErr(fr, err.Error())
		}
		defer func() {
			if r := recover(); r != nil {
				if ea, ok := r.(engineAbort); ok {
					panic(ea)
				}
				res = mkErr(fr, fmt.Sprint(r))
			}
		}()
		pt := target.t.Underlying().(*types.Pointer)
		v := decodeInto(fr, pt.Elem(), node)
		store(fr.i, pt.Elem(), target.v.(*value), v)
		return iface{}
	}
}
