package interp

// A model of encoding/json's Marshal, MarshalIndent and Unmarshal over engine values.
//
// encoding/json itself is reflection, unsafe and sync.Map caches from end to end and cannot be interpreted,
// so it is environment, modelled after its documented behaviour and its source:
//
//   - the field set of a struct is computed with the library's own rules (typeFields: embedded structs are
//     flattened breadth first, `json:"-"`, tag names, shallower fields hide deeper ones, a tagged field wins
//     a tie, an unresolved tie hides every candidate);
//   - Marshal honours omitempty, nil pointers/maps/slices, Marshaler and TextMarshaler methods (run through
//     the interpreter), sorted map keys, base64 for []byte, HTML-escaped strings;
//   - Unmarshal *overlays* the document on the value that is already there, exactly like the library:
//     fields the document does not mention keep their values, a nil pointer is allocated and a non-nil one
//     is decoded into, null clears pointers/maps/slices/interfaces and is a no-op elsewhere, an interface
//     holding a non-nil pointer is decoded through, slice elements below the old length are decoded in
//     place, map elements are decoded into fresh zero values, the document is validated as a whole before
//     anything is stored, and a type mismatch skips that value, keeps going and is reported at the end.
//
// Text is concrete with one exception: a symbolic integer is written as the symbolic-decimal marker of
// ext_strdec.go and read back as the same term, so amounts stay symbolic across a Marshal/Unmarshal round
// trip. A symbolic bool or an omitempty test on a symbolic number forks the path.
//
// Not modelled (the path ends as unsupported): the `string` and `omitzero` tag options, json.Number and
// json.RawMessage targets of symbolic text, symbolic floats, symbolic text inside JSON strings, decoding
// into a slice whose capacity exceeds its length (stale backing-array elements would show through),
// channel/func/complex values, Decoder/Encoder streams.

import (
	"bytes"
	"encoding/base64"
	"encoding/json"
	"fmt"
	"go/token"
	"go/types"
	"os"
	"reflect"
	"runtime"
	"runtime/debug"
	"sort"
	"strconv"
	"strings"
	"sync"
	"unicode"

	"gosym/smt"

	"golang.org/x/tools/go/ssa"
)

func bytesOf(v value) []byte {
	s := v.([]value)
	b := make([]byte, len(s))
	for i := range s {
		c, ok := s[i].(byte)
		if !ok {
			unsupported("symbolic byte in a byte slice handed to a library model")
		}
		b[i] = c
	}
	return b
}

func valOfBytes(b []byte) value {
	s := make([]value, len(b))
	for i := range b {
		s[i] = b[i]
	}
	return s
}

// ---- field sets -------------------------------------------------------------------------------------

type jfield struct {
	name      string
	tagged    bool
	index     []int
	typ       types.Type // the field's type, a leading unnamed pointer removed
	omitEmpty bool
}

var jfieldCache sync.Map // types.Type -> []jfield

func junder(t types.Type) types.Type { return types.Unalias(t).Underlying() }

func jisStruct(t types.Type) bool { _, ok := junder(t).(*types.Struct); return ok }

func jtypeName(t types.Type) string {
	switch t := types.Unalias(t).(type) {
	case *types.Named:
		return t.Obj().Name()
	case *types.Basic:
		return t.Name()
	}
	return ""
}

func jvalidTag(s string) bool {
	if s == "" {
		return false
	}
	for _, c := range s {
		switch {
		case strings.ContainsRune("!#$%&()*+-./:;<=>?@[]^_{|}~ ", c):
		case !unicode.IsLetter(c) && !unicode.IsDigit(c):
			return false
		}
	}
	return true
}

// jsonFields mirrors encoding/json.typeFields.
func jsonFields(t types.Type) []jfield {
	if c, ok := jfieldCache.Load(t); ok {
		return c.([]jfield)
	}
	type cand struct {
		typ   types.Type
		index []int
	}
	var fields []jfield
	current, next := []cand{}, []cand{{typ: t}}
	var count, nextCount map[string]int
	visited := map[string]bool{}
	key := func(t types.Type) string { return types.TypeString(t, nil) }
	for len(next) > 0 {
		current, next = next, current[:0]
		count, nextCount = nextCount, map[string]int{}
		for _, f := range current {
			if visited[key(f.typ)] {
				continue
			}
			visited[key(f.typ)] = true
			st := junder(f.typ).(*types.Struct)
			for i := 0; i < st.NumFields(); i++ {
				sf := st.Field(i)
				if sf.Embedded() {
					et := types.Unalias(sf.Type())
					if p, ok := et.(*types.Pointer); ok {
						et = p.Elem()
					}
					if !sf.Exported() && !jisStruct(et) {
						continue
					}
				} else if !sf.Exported() {
					continue
				}
				tag := reflect.StructTag(st.Tag(i)).Get("json")
				if tag == "-" {
					continue
				}
				name, opts, _ := strings.Cut(tag, ",")
				if !jvalidTag(name) {
					name = ""
				}
				omit := false
				for _, o := range strings.Split(opts, ",") {
					switch o {
					case "omitempty":
						omit = true
					case "string", "omitzero":
						unsupported("encoding/json model: tag option %q on %v.%s", o, f.typ, sf.Name())
					}
				}
				index := append(append([]int{}, f.index...), i)
				ft := types.Unalias(sf.Type())
				if p, ok := ft.(*types.Pointer); ok {
					ft = p.Elem()
				}
				if name != "" || !sf.Embedded() || !jisStruct(ft) {
					tagged := name != ""
					if name == "" {
						name = sf.Name()
					}
					jf := jfield{name: name, tagged: tagged, index: index, typ: ft, omitEmpty: omit}
					fields = append(fields, jf)
					if count[key(f.typ)] > 1 {
						fields = append(fields, jf)
					}
					continue
				}
				nextCount[key(ft)]++
				if nextCount[key(ft)] == 1 {
					next = append(next, cand{typ: ft, index: index})
				}
			}
		}
	}
	idxLess := func(a, b []int) bool {
		for k := range a {
			if k >= len(b) {
				return false
			}
			if a[k] != b[k] {
				return a[k] < b[k]
			}
		}
		return len(a) < len(b)
	}
	sort.SliceStable(fields, func(i, j int) bool {
		a, b := fields[i], fields[j]
		if a.name != b.name {
			return a.name < b.name
		}
		if len(a.index) != len(b.index) {
			return len(a.index) < len(b.index)
		}
		if a.tagged != b.tagged {
			return a.tagged
		}
		return idxLess(a.index, b.index)
	})
	out := fields[:0]
	for adv, i := 0, 0; i < len(fields); i += adv {
		fi := fields[i]
		for adv = 1; i+adv < len(fields) && fields[i+adv].name == fi.name; adv++ {
		}
		if adv == 1 {
			out = append(out, fi)
			continue
		}
		grp := fields[i : i+adv]
		if len(grp[0].index) == len(grp[1].index) && grp[0].tagged == grp[1].tagged {
			continue // ambiguous: hidden
		}
		out = append(out, grp[0])
	}
	res := append([]jfield{}, out...)
	sort.SliceStable(res, func(i, j int) bool { return idxLess(res[i].index, res[j].index) })
	jfieldCache.Store(t, res)
	return res
}

// jmethod finds a method by name in the method set of t.
func jmethod(fr *frame, t types.Type, name string) *ssa.Function {
	t = types.Unalias(t)
	var n *types.Named
	switch x := t.(type) {
	case *types.Named:
		n = x
	case *types.Pointer:
		n, _ = types.Unalias(x.Elem()).(*types.Named)
	}
	if n == nil || n.Obj().Pkg() == nil {
		return nil
	}
	if _, isIface := n.Underlying().(*types.Interface); isIface {
		return nil
	}
	sel := fr.i.prog.MethodSets.MethodSet(t).Lookup(n.Obj().Pkg(), name)
	if sel == nil {
		return nil
	}
	return fr.i.prog.MethodValue(sel)
}

// ---- Marshal ----------------------------------------------------------------------------------------

type jenc struct {
	fr  *frame
	buf bytes.Buffer
}

func jquote(s string) []byte {
	if hasDec(s) {
		unsupported("encoding/json model: symbolic decimal inside a JSON string")
	}
	b, err := json.Marshal(s)
	if err != nil {
		unsupported("encoding/json model: %v", err)
	}
	return b
}

// callMarshaler runs a MarshalJSON / MarshalText method; recv is the receiver (value or address).
func (e *jenc) callMarshaler(m *ssa.Function, recv value, text bool) {
	r := call(e.fr.i, e.fr, token.NoPos, m, []value{recv}).(tuple)
	if er, ok := r[1].(iface); ok && er.t != nil {
		unsupported("encoding/json model: %s returned an error", m)
	}
	raw := r[0].([]value)
	b := make([]byte, len(raw))
	for i := range raw {
		c, ok := raw[i].(byte)
		if !ok {
			unsupported("encoding/json model: %s produced symbolic bytes", m)
		}
		b[i] = c
	}
	if text {
		e.buf.Write(jquote(string(b)))
		return
	}
	if hasDec(string(b)) {
		e.buf.Write(b) // a model's marker; not valid JSON text until placeholders are substituted
		return
	}
	var c bytes.Buffer
	if err := json.Compact(&c, b); err != nil {
		unsupported("encoding/json model: %s produced invalid JSON", m)
	}
	e.buf.Write(c.Bytes())
}

// isEmpty mirrors isEmptyValue; a symbolic number or bool forks.
func (e *jenc) isEmpty(t types.Type, v value) bool {
	switch u := junder(t).(type) {
	case *types.Array:
		return u.Len() == 0
	case *types.Map:
		return v.(*hashmap).len() == 0
	case *types.Slice:
		return len(v.([]value)) == 0
	case *types.Pointer:
		return v.(*value) == nil
	case *types.Interface:
		return v.(iface).t == nil
	case *types.Basic:
		if s, ok := v.(sym); ok {
			w, _ := kindWidth(s.k)
			switch {
			case w == smt.Bool:
				return !e.fr.i.X.decide(s.t)
			case w == smt.FP64:
				unsupported("encoding/json model: omitempty on a symbolic float")
			}
			return e.fr.i.X.decide(smt.Eq(s.t, smt.BV(0, w)))
		}
		switch {
		case u.Info()&types.IsString != 0:
			return v.(string) == ""
		case u.Info()&types.IsBoolean != 0:
			return !v.(bool)
		}
		return reflect.ValueOf(v).IsZero()
	}
	return false
}

func (e *jenc) encode(t types.Type, v value, addr *value) {
	t = types.Unalias(t)
	if _, ok := v.(poison); ok {
		unsupported("encoding/json model: path-dependent don't-care value")
	}
	_, isPtr := junder(t).(*types.Pointer)
	_, isIface := junder(t).(*types.Interface)
	if !isIface {
		// Marshaler / TextMarshaler, pointer methods when the value is addressable
		for _, mt := range []struct {
			name string
			text bool
		}{{"MarshalJSON", false}, {"MarshalText", true}} {
			if !isPtr && addr != nil {
				if m := jmethod(e.fr, types.NewPointer(t), mt.name); m != nil {
					e.callMarshaler(m, addr, mt.text)
					return
				}
			}
			if m := jmethod(e.fr, t, mt.name); m != nil {
				if isPtr && v.(*value) == nil {
					e.buf.WriteString("null")
					return
				}
				e.callMarshaler(m, v, mt.text)
				return
			}
		}
	}
	switch u := junder(t).(type) {
	case *types.Basic:
		if s, ok := v.(sym); ok {
			w, _ := kindWidth(s.k)
			switch {
			case w == smt.Bool:
				if e.fr.i.X.decide(s.t) {
					e.buf.WriteString("true")
				} else {
					e.buf.WriteString("false")
				}
			case w == smt.FP64:
				unsupported("encoding/json model: symbolic float")
			default:
				e.buf.WriteString(decMarker(s))
			}
			return
		}
		switch {
		case u.Info()&types.IsString != 0:
			e.buf.Write(jquote(v.(string)))
		case u.Info()&(types.IsBoolean|types.IsInteger|types.IsFloat) != 0:
			b, err := json.Marshal(v)
			if err != nil {
				unsupported("encoding/json model: %v", err)
			}
			e.buf.Write(b)
		default:
			unsupported("encoding/json model: cannot encode %v", t)
		}
	case *types.Struct:
		s := v.(structure)
		var sp *structure
		if addr != nil {
			a := (*addr).(structure)
			sp = &a
		}
		e.buf.WriteByte('{')
		first := true
	fields:
		for _, f := range jsonFields(t) {
			ct := types.Type(t)
			cv := value(s)
			var ca *value
			if sp != nil {
				ca = addr
			}
			for _, ix := range f.index {
				if p, ok := junder(ct).(*types.Pointer); ok {
					pv := cv.(*value)
					if pv == nil {
						continue fields
					}
					ct, ca, cv = p.Elem(), pv, *pv
				}
				st := junder(ct).(*types.Struct)
				if ca != nil {
					ca = &(*ca).(structure)[ix]
					cv = *ca
				} else {
					cv = cv.(structure)[ix]
				}
				ct = st.Field(ix).Type()
			}
			if f.omitEmpty && e.isEmpty(ct, cv) {
				continue
			}
			if !first {
				e.buf.WriteByte(',')
			}
			first = false
			e.buf.Write(jquote(f.name))
			e.buf.WriteByte(':')
			e.encode(ct, cv, ca)
		}
		e.buf.WriteByte('}')
	case *types.Pointer:
		p := v.(*value)
		if p == nil {
			e.buf.WriteString("null")
			return
		}
		e.encode(u.Elem(), *p, p)
	case *types.Interface:
		iv := v.(iface)
		if iv.t == nil {
			e.buf.WriteString("null")
			return
		}
		e.encode(iv.t, iv.v, nil)
	case *types.Slice:
		s := v.([]value)
		if s == nil {
			e.buf.WriteString("null")
			return
		}
		if b, ok := junder(u.Elem()).(*types.Basic); ok && b.Kind() == types.Uint8 &&
			jmethod(e.fr, types.NewPointer(u.Elem()), "MarshalJSON") == nil && jmethod(e.fr, types.NewPointer(u.Elem()), "MarshalText") == nil {
			e.buf.Write(jquote(base64.StdEncoding.EncodeToString(bytesOf(v))))
			return
		}
		e.buf.WriteByte('[')
		for i := range s {
			if i > 0 {
				e.buf.WriteByte(',')
			}
			e.encode(u.Elem(), s[i], &s[i])
		}
		e.buf.WriteByte(']')
	case *types.Array:
		s := v.(array)
		e.buf.WriteByte('[')
		for i := range s {
			if i > 0 {
				e.buf.WriteByte(',')
			}
			var ea *value
			if addr != nil {
				ea = &(*addr).(array)[i]
			}
			e.encode(u.Elem(), s[i], ea)
		}
		e.buf.WriteByte(']')
	case *types.Map:
		m := v.(*hashmap)
		if m == nil {
			e.buf.WriteString("null")
			return
		}
		kb, ok := junder(u.Key()).(*types.Basic)
		if !ok || jmethod(e.fr, u.Key(), "MarshalText") != nil {
			unsupported("encoding/json model: map key type %v", u.Key())
		}
		type kv struct {
			k string
			v value
		}
		var kvs []kv
		for _, en := range m.entries() {
			var ks string
			switch {
			case kb.Info()&types.IsString != 0:
				ks = en.key.(string)
			case kb.Info()&types.IsInteger != 0:
				ks = fmt.Sprint(en.key)
			default:
				unsupported("encoding/json model: map key type %v", u.Key())
			}
			kvs = append(kvs, kv{ks, en.value})
		}
		sort.Slice(kvs, func(i, j int) bool { return kvs[i].k < kvs[j].k })
		e.buf.WriteByte('{')
		for i, x := range kvs {
			if i > 0 {
				e.buf.WriteByte(',')
			}
			e.buf.Write(jquote(x.k))
			e.buf.WriteByte(':')
			e.encode(u.Elem(), x.v, nil)
		}
		e.buf.WriteByte('}')
	default:
		unsupported("encoding/json model: cannot encode %v", t)
	}
}

func jsonMarshal(fr *frame, x value) []byte {
	iv := x.(iface)
	e := &jenc{fr: fr}
	if iv.t == nil {
		e.buf.WriteString("null")
	} else {
		e.encode(iv.t, iv.v, nil)
	}
	return e.buf.Bytes()
}

// ---- symbolic decimals inside a document ------------------------------------------------------------

// A marker is not a JSON token. Before a document is parsed every marker is replaced by a number literal
// that is valid JSON, that no canonical encoder emits, and that names the term: 0e-77<id>.
const jphPrefix = "0e-77"

// A symbolic resource.Quantity is written by its MarshalJSON model (below) as the string "\x00<dec:qKEY>";
// inside a document it is replaced by the placeholder string content zzvqKEYzzv.
const jqtyPrefix = "zzvq"

var qtyValues sync.Map // key -> structure (a resource.Quantity)

func qtyMarker(fr *frame, q structure) string {
	// q.i.value, q.i.scale, q.d.Dec, q.s, q.Format
	amt := q[0].(structure)
	if p, _ := q[1].(structure)[0].(*value); p != nil {
		unsupported("resource.Quantity JSON model: inf.Dec-backed symbolic quantity")
	}
	v, ok := amt[0].(sym)
	if !ok {
		unsupported("resource.Quantity JSON model: unexpected symbolic part")
	}
	if isSym(amt[1]) || isSym(q[3]) {
		unsupported("resource.Quantity JSON model: symbolic scale or format")
	}
	if cached, _ := q[2].(string); cached != "" && !hasDec(cached) {
		unsupported("resource.Quantity JSON model: symbolic amount with a cached concrete text")
	}
	key := fmt.Sprintf("%d_%v_%v", v.t.ID, amt[1], strings.NewReplacer(" ", "", "-", "n").Replace(fmt.Sprint(q[3])))
	cp := make(structure, len(q))
	copy(cp, q)
	cp[0] = structure{amt[0], amt[1]}
	cp[1] = structure{(*value)(nil)}
	cp[2] = ""
	qtyValues.Store(key, cp)
	return decPrefix + "q" + key + ">"
}

func jplaceholders(data []byte) ([]byte, map[string]sym) {
	s := string(data)
	if !hasDec(s) {
		return data, nil
	}
	terms := map[string]sym{}
	var out strings.Builder
	for {
		i := strings.Index(s, decPrefix)
		if i < 0 {
			out.WriteString(s)
			break
		}
		j := strings.IndexByte(s[i:], '>')
		if j < 0 {
			unsupported("encoding/json model: truncated symbolic decimal in a document")
		}
		id := s[i+len(decPrefix) : i+j]
		if strings.HasPrefix(id, "q") {
			if _, ok := qtyValues.Load(id[1:]); !ok {
				unsupported("encoding/json model: damaged symbolic quantity in a document")
			}
			terms[jqtyPrefix+id[1:]+"zzv"] = sym{}
			out.WriteString(s[:i])
			out.WriteString(jqtyPrefix + id[1:] + "zzv")
			s = s[i+j+1:]
			continue
		}
		v, ok := decOf(s[i : i+j+1])
		if !ok {
			unsupported("encoding/json model: damaged symbolic decimal in a document")
		}
		ph := jphPrefix + id
		terms[ph] = v
		out.WriteString(s[:i])
		out.WriteString(ph)
		s = s[i+j+1:]
	}
	return []byte(out.String()), terms
}

func junplaceholders(b []byte, terms map[string]sym) []byte {
	if len(terms) == 0 {
		return b
	}
	s := string(b)
	// longest placeholders first so that one is never a prefix of another being replaced
	phs := make([]string, 0, len(terms))
	for ph := range terms {
		phs = append(phs, ph)
	}
	sort.Slice(phs, func(i, j int) bool { return len(phs[i]) > len(phs[j]) })
	for _, ph := range phs {
		if strings.HasPrefix(ph, jqtyPrefix) {
			s = strings.ReplaceAll(s, ph, decPrefix+"q"+strings.TrimSuffix(ph[len(jqtyPrefix):], "zzv")+">")
			continue
		}
		s = strings.ReplaceAll(s, ph, decPrefix+ph[len(jphPrefix):]+">")
	}
	return []byte(s)
}

// ---- Unmarshal --------------------------------------------------------------------------------------

type jobject struct {
	keys []string
	vals []any
}

func jparse(dec *json.Decoder) (any, error) {
	tok, err := dec.Token()
	if err != nil {
		return nil, err
	}
	switch tok := tok.(type) {
	case json.Delim:
		switch tok {
		case '{':
			o := &jobject{}
			for dec.More() {
				k, err := dec.Token()
				if err != nil {
					return nil, err
				}
				v, err := jparse(dec)
				if err != nil {
					return nil, err
				}
				o.keys = append(o.keys, k.(string))
				o.vals = append(o.vals, v)
			}
			if _, err := dec.Token(); err != nil {
				return nil, err
			}
			return o, nil
		case '[':
			a := []any{}
			for dec.More() {
				v, err := jparse(dec)
				if err != nil {
					return nil, err
				}
				a = append(a, v)
			}
			if _, err := dec.Token(); err != nil {
				return nil, err
			}
			return a, nil
		}
		return nil, fmt.Errorf("unexpected delimiter %v", tok)
	default:
		return tok, nil
	}
}

type jdec struct {
	fr    *frame
	terms map[string]sym
	err   string // first type error; decoding continues (saveError)
}

func (d *jdec) saveErr(format string, a ...any) {
	if d.err == "" {
		d.err = fmt.Sprintf(format, a...)
	}
}

func (d *jdec) set(t types.Type, addr *value, v value) { store(d.fr.i, t, addr, v) }

func jdescribe(node any) string {
	switch node.(type) {
	case nil:
		return "null"
	case bool:
		return "bool"
	case string:
		return "string"
	case json.Number:
		return "number"
	case []any:
		return "array"
	case *jobject:
		return "object"
	}
	return "value"
}

// reencode turns a parsed node back into text for a custom unmarshaler.
func (d *jdec) reencode(node any) []byte {
	var b bytes.Buffer
	var w func(n any)
	w = func(n any) {
		switch n := n.(type) {
		case nil:
			b.WriteString("null")
		case bool:
			b.WriteString(strconv.FormatBool(n))
		case string:
			q, _ := json.Marshal(n)
			b.Write(q)
		case json.Number:
			b.WriteString(string(n))
		case []any:
			b.WriteByte('[')
			for i := range n {
				if i > 0 {
					b.WriteByte(',')
				}
				w(n[i])
			}
			b.WriteByte(']')
		case *jobject:
			b.WriteByte('{')
			for i := range n.keys {
				if i > 0 {
					b.WriteByte(',')
				}
				q, _ := json.Marshal(n.keys[i])
				b.Write(q)
				b.WriteByte(':')
				w(n.vals[i])
			}
			b.WriteByte('}')
		}
	}
	w(node)
	return junplaceholders(b.Bytes(), d.terms)
}

func (d *jdec) checkString(s string) {
	for ph := range d.terms {
		if strings.Contains(s, ph) {
			unsupported("encoding/json model: symbolic decimal inside a JSON string")
		}
	}
}

// value decodes node into the cell at addr, whose static type is t (the library's d.value after indirect).
func (d *jdec) value(t types.Type, addr *value, node any) {
	isNull := node == nil
	// indirect
	for {
		t = types.Unalias(t)
		if _, ok := junder(t).(*types.Interface); ok {
			iv := (*addr).(iface)
			if iv.t != nil {
				if pt, ok := junder(iv.t).(*types.Pointer); ok && iv.v.(*value) != nil {
					_, elemIsPtr := junder(pt.Elem()).(*types.Pointer)
					if isNull && elemIsPtr {
						unsupported("encoding/json model: null into an interface holding a pointer to a pointer")
					}
					if !isNull {
						// the pointer inside the interface is not settable; its methods are consulted, then it is followed
						p := iv.v.(*value)
						if m := jmethod(d.fr, iv.t, "UnmarshalJSON"); m != nil {
							d.callUnmarshaler(m, p, node, false)
							return
						}
						if m := jmethod(d.fr, iv.t, "UnmarshalText"); m != nil {
							d.callUnmarshaler(m, p, node, true)
							return
						}
						t, addr = pt.Elem(), p
						continue
					}
				}
			}
			break
		}
		pt, ok := junder(t).(*types.Pointer)
		if !ok {
			// a named non-pointer value is addressed so that pointer methods are found
			if jtypeName(t) != "" {
				if m := jmethod(d.fr, types.NewPointer(t), "UnmarshalJSON"); m != nil {
					d.callUnmarshaler(m, addr, node, false)
					return
				}
				if !isNull {
					if m := jmethod(d.fr, types.NewPointer(t), "UnmarshalText"); m != nil {
						d.callUnmarshaler(m, addr, node, true)
						return
					}
				}
			}
			break
		}
		if isNull {
			break // settable pointer: null clears it
		}
		p := (*addr).(*value)
		if p == nil {
			cell := zero(pt.Elem())
			p = &cell
			d.set(t, addr, p)
		}
		if m := jmethod(d.fr, t, "UnmarshalJSON"); m != nil {
			d.callUnmarshaler(m, p, node, false)
			return
		}
		if m := jmethod(d.fr, t, "UnmarshalText"); m != nil {
			d.callUnmarshaler(m, p, node, true)
			return
		}
		t, addr = pt.Elem(), p
	}

	u := junder(t)
	emptyIface := false
	if it, ok := u.(*types.Interface); ok {
		emptyIface = it.NumMethods() == 0
	}
	switch n := node.(type) {
	case nil:
		switch u.(type) {
		case *types.Interface, *types.Pointer, *types.Map, *types.Slice:
			d.set(t, addr, zero(t))
		}
	case bool:
		if b, ok := u.(*types.Basic); ok && b.Info()&types.IsBoolean != 0 {
			d.set(t, addr, n)
		} else if emptyIface {
			d.set(t, addr, iface{t: types.Typ[types.Bool], v: n})
		} else {
			d.saveErr("json: cannot unmarshal bool into Go value of type %v", t)
		}
	case string:
		d.checkString(n)
		switch {
		case emptyIface:
			d.set(t, addr, iface{t: types.Typ[types.String], v: n})
		default:
			if b, ok := u.(*types.Basic); ok && b.Info()&types.IsString != 0 {
				if jtypeName(t) == "Number" {
					unsupported("encoding/json model: json.Number target")
				}
				d.set(t, addr, n)
				return
			}
			if s, ok := u.(*types.Slice); ok {
				if b, ok := junder(s.Elem()).(*types.Basic); ok && b.Kind() == types.Uint8 {
					raw, err := base64.StdEncoding.DecodeString(n)
					if err != nil {
						d.saveErr("json: %v", err)
						return
					}
					d.set(t, addr, valOfBytes(raw))
					return
				}
			}
			d.saveErr("json: cannot unmarshal string into Go value of type %v", t)
		}
	case json.Number:
		d.number(t, addr, n, emptyIface)
	case []any:
		d.array(t, addr, n, emptyIface)
	case *jobject:
		d.object(t, addr, n, emptyIface)
	default:
		unsupported("encoding/json model: unexpected node %T", node)
	}
}

func (d *jdec) callUnmarshaler(m *ssa.Function, recv *value, node any, text bool) {
	var arg []byte
	if text {
		s, ok := node.(string)
		if !ok {
			d.saveErr("json: cannot unmarshal %s into Go value via UnmarshalText", jdescribe(node))
			return
		}
		d.checkString(s)
		arg = []byte(s)
	} else {
		arg = d.reencode(node)
	}
	r := call(d.fr.i, d.fr, token.NoPos, m, []value{recv, valOfBytes(arg)})
	if e, ok := r.(iface); ok && e.t != nil {
		// the library stops at an Unmarshaler error
		panic(jstop{fmt.Sprintf("json: %s failed", m)})
	}
}

type jstop struct{ msg string }

func (d *jdec) number(t types.Type, addr *value, n json.Number, emptyIface bool) {
	if s, isSym := d.terms[string(n)]; isSym {
		b, ok := junder(t).(*types.Basic)
		if !ok || b.Info()&types.IsInteger == 0 {
			unsupported("encoding/json model: symbolic decimal decoded into %v", t)
		}
		w, signed := kindWidth(b.Kind())
		if w != 64 || !signed {
			iv := d.fr.i.X.intervals().Of(s.t)
			var lo, hi float64
			if signed {
				lim := float64(int64(1) << uint(w-1))
				lo, hi = -lim, lim-1
			} else {
				lo, hi = 0, float64(uint64(1)<<uint(w))-1
				if w == 64 {
					hi = float64(1<<63) - 1
				}
			}
			if !iv.OK || iv.Lo < lo || iv.Hi > hi {
				unsupported("encoding/json model: symbolic decimal may overflow %v", t)
			}
		}
		d.set(t, addr, conv(t, types.Typ[types.Int64], s))
		return
	}
	if emptyIface {
		f, err := n.Float64()
		if err != nil {
			d.saveErr("json: cannot unmarshal number %s into Go value of type float64", n)
			return
		}
		d.set(t, addr, iface{t: types.Typ[types.Float64], v: f})
		return
	}
	b, ok := junder(t).(*types.Basic)
	if !ok {
		d.saveErr("json: cannot unmarshal number into Go value of type %v", t)
		return
	}
	switch {
	case b.Info()&types.IsInteger != 0 && b.Info()&types.IsUnsigned == 0:
		w, _ := kindWidth(b.Kind())
		v, err := strconv.ParseInt(string(n), 10, w)
		if err != nil {
			d.saveErr("json: cannot unmarshal number %s into Go value of type %v", n, t)
			return
		}
		d.set(t, addr, conv(t, types.Typ[types.Int64], v))
	case b.Info()&types.IsInteger != 0:
		w, _ := kindWidth(b.Kind())
		v, err := strconv.ParseUint(string(n), 10, w)
		if err != nil {
			d.saveErr("json: cannot unmarshal number %s into Go value of type %v", n, t)
			return
		}
		d.set(t, addr, conv(t, types.Typ[types.Uint64], v))
	case b.Info()&types.IsFloat != 0:
		bits := 64
		if b.Kind() == types.Float32 {
			bits = 32
		}
		f, err := strconv.ParseFloat(string(n), bits)
		if err != nil {
			d.saveErr("json: cannot unmarshal number %s into Go value of type %v", n, t)
			return
		}
		d.set(t, addr, conv(t, types.Typ[types.Float64], f))
	case b.Info()&types.IsString != 0 && jtypeName(t) == "Number":
		unsupported("encoding/json model: json.Number target")
	default:
		d.saveErr("json: cannot unmarshal number into Go value of type %v", t)
	}
}

var (
	jAnyType      = types.NewInterfaceType(nil, nil).Complete()
	jAnySliceType = types.NewSlice(jAnyType)
	jAnyMapType   = types.NewMap(types.Typ[types.String], jAnyType)
)

// generic builds the interface{} representation of a node (valueInterface).
func (d *jdec) generic(node any) value {
	switch n := node.(type) {
	case nil:
		return iface{}
	case bool:
		return iface{t: types.Typ[types.Bool], v: n}
	case string:
		d.checkString(n)
		return iface{t: types.Typ[types.String], v: n}
	case json.Number:
		if _, isSym := d.terms[string(n)]; isSym {
			unsupported("encoding/json model: symbolic decimal decoded into interface{} (would be a float64)")
		}
		f, err := n.Float64()
		if err != nil {
			d.saveErr("json: cannot unmarshal number %s into Go value of type float64", n)
			return iface{}
		}
		return iface{t: types.Typ[types.Float64], v: f}
	case []any:
		out := make([]value, len(n))
		for i := range n {
			out[i] = d.generic(n[i])
		}
		return iface{t: jAnySliceType, v: out}
	case *jobject:
		m := makeMap(types.Typ[types.String], 0).(*hashmap)
		for i := range n.keys {
			m.insert(d.fr.i, n.keys[i], d.generic(n.vals[i]))
		}
		return iface{t: jAnyMapType, v: m}
	}
	unsupported("encoding/json model: unexpected node %T", node)
	return nil
}

func (d *jdec) array(t types.Type, addr *value, n []any, emptyIface bool) {
	if emptyIface {
		d.set(t, addr, d.generic(n))
		return
	}
	switch u := junder(t).(type) {
	case *types.Slice:
		s := (*addr).([]value)
		if cap(s) > len(s) && len(n) > len(s) {
			unsupported("encoding/json model: decoding into a slice with spare capacity")
		}
		for i := range n {
			if i >= len(s) {
				s = append(s[:len(s):len(s)], zero(u.Elem()))
			}
			d.value(u.Elem(), &s[i], n[i])
		}
		if len(n) < len(s) {
			s = s[:len(n)]
		}
		if len(n) == 0 {
			s = []value{}
		}
		d.set(t, addr, s)
	case *types.Array:
		a := (*addr).(array)
		for i := range n {
			if i < len(a) {
				d.value(u.Elem(), &a[i], n[i])
			}
		}
		for i := len(n); i < len(a); i++ {
			d.set(u.Elem(), &a[i], zero(u.Elem()))
		}
	default:
		d.saveErr("json: cannot unmarshal array into Go value of type %v", t)
	}
}

func (d *jdec) object(t types.Type, addr *value, n *jobject, emptyIface bool) {
	if emptyIface {
		d.set(t, addr, d.generic(n))
		return
	}
	switch u := junder(t).(type) {
	case *types.Map:
		kb, ok := junder(u.Key()).(*types.Basic)
		if !ok || jmethod(d.fr, types.NewPointer(u.Key()), "UnmarshalText") != nil {
			unsupported("encoding/json model: map key type %v", u.Key())
		}
		m := (*addr).(*hashmap)
		if m == nil {
			m = makeMap(u.Key(), 0).(*hashmap)
			d.set(t, addr, m)
		}
		for i := range n.keys {
			d.checkString(n.keys[i])
			cell := zero(u.Elem())
			d.value(u.Elem(), &cell, n.vals[i])
			var k value
			switch {
			case kb.Info()&types.IsString != 0:
				k = conv(u.Key(), types.Typ[types.String], n.keys[i])
			case kb.Info()&types.IsInteger != 0:
				kv, err := strconv.ParseInt(n.keys[i], 10, 64)
				if err != nil {
					d.saveErr("json: cannot unmarshal number %s into Go value of type %v", n.keys[i], u.Key())
					continue
				}
				k = conv(u.Key(), types.Typ[types.Int64], kv)
			default:
				unsupported("encoding/json model: map key type %v", u.Key())
			}
			m.insert(d.fr.i, k, cell)
		}
	case *types.Struct:
		fields := jsonFields(t)
		for i := range n.keys {
			d.checkString(n.keys[i])
			var f *jfield
			for k := range fields {
				if fields[k].name == n.keys[i] {
					f = &fields[k]
					break
				}
			}
			if f == nil {
				for k := range fields {
					if strings.EqualFold(fields[k].name, n.keys[i]) {
						f = &fields[k]
						break
					}
				}
			}
			if f == nil {
				continue
			}
			ct, ca := types.Type(t), addr
			for _, ix := range f.index {
				if p, ok := junder(ct).(*types.Pointer); ok {
					pv := (*ca).(*value)
					if pv == nil {
						if en, ok := types.Unalias(p.Elem()).(*types.Named); ok && !en.Obj().Exported() {
							unsupported("encoding/json model: embedded pointer to an unexported struct")
						}
						cell := zero(p.Elem())
						pv = &cell
						d.set(ct, ca, pv)
					}
					ct, ca = p.Elem(), pv
				}
				st := junder(ct).(*types.Struct)
				ca = &(*ca).(structure)[ix]
				ct = st.Field(ix).Type()
			}
			d.value(ct, ca, n.vals[i])
		}
	default:
		d.saveErr("json: cannot unmarshal object into Go value of type %v", t)
	}
}

func jsonUnmarshal(fr *frame, data []byte, target iface) (res value) {
	text, terms := jplaceholders(data)
	if !json.Valid(text) {
		var probe any
		err := json.Unmarshal(text, &probe)
		msg := "invalid JSON"
		if err != nil {
			msg = err.Error()
		}
		return mkErr(fr, msg)
	}
	dec := json.NewDecoder(bytes.NewReader(text))
	dec.UseNumber()
	node, err := jparse(dec)
	if err != nil {
		return mkErr(fr, err.Error())
	}
	if target.t == nil {
		return mkErr(fr, "json: Unmarshal(nil)")
	}
	pt, ok := junder(target.t).(*types.Pointer)
	if !ok || target.v.(*value) == nil {
		return mkErr(fr, "json: Unmarshal(non-pointer or nil "+target.t.String()+")")
	}
	d := &jdec{fr: fr, terms: terms}
	defer func() {
		if r := recover(); r != nil {
			if st, ok := r.(jstop); ok {
				res = mkErr(fr, st.msg)
				return
			}
			panic(r)
		}
	}()
	// the library starts at the pointer, consults its methods and follows it: the same as starting at the
	// addressed target, whose pointer methods value() consults first
	d.value(pt.Elem(), target.v.(*value), node)
	if d.err != "" {
		return mkErr(fr, d.err)
	}
	return iface{}
}

// jguard turns a Go runtime error inside the model (a bug of the model, not of the target) into an
// engine error instead of letting it pass for a panic of the target program.
func jguard(name string, f externalFn) externalFn {
	return func(fr *frame, a []value) (res value) {
		defer func() {
			if r := recover(); r != nil {
				if re, ok := r.(runtime.Error); ok {
					if os.Getenv("GOSYM_JSON_DEBUG") != "" {
						fmt.Fprintf(os.Stderr, "%s: %v\n%s\n", name, re, debug.Stack())
					}
					panic(engineAbort{"engine-error", name + " model: " + re.Error()})
				}
				panic(r)
			}
		}()
		return f(fr, a)
	}
}

func init() {
	const q = "k8s.io/apimachinery/pkg/api/resource.Quantity"
	// The canonical text of a quantity parses back to the same number (the package's documented
	// round-trip guarantee); with a symbolic amount the text itself cannot be built, so the pair
	// MarshalJSON / UnmarshalJSON is modelled as that round trip: the same amount, scale and format come
	// back. (The real parser may pick another scale for the same number, e.g. "1k" for 1000; amount,
	// comparison, Value and MilliValue are the same.)
	externals["("+q+").MarshalJSON"] = func(fr *frame, a []value) value {
		if !hasSym(a[0], 0) {
			m := fr.i.lookupValueMethod("k8s.io/apimachinery/pkg/api/resource", "Quantity", "MarshalJSON")
			fr.i.bypass = m
			return callSSAraw(fr.i, fr, token.NoPos, m, a, nil)
		}
		return tuple{valOfBytes([]byte("\"" + qtyMarker(fr, a[0].(structure)) + "\"")), iface{}}
	}
	externals["(*"+q+").UnmarshalJSON"] = func(fr *frame, a []value) value {
		raw := a[1].([]value)
		text := make([]byte, 0, len(raw))
		for _, c := range raw {
			b, ok := c.(byte)
			if !ok {
				unsupported("resource.Quantity JSON model: symbolic bytes")
			}
			text = append(text, b)
		}
		if st := string(text); hasDec(st) {
			id := strings.TrimSuffix(strings.TrimPrefix(st, "\""+decPrefix+"q"), ">\"")
			v, ok := qtyValues.Load(id)
			if !ok || len(id)+len(decPrefix)+4 != len(st) {
				unsupported("resource.Quantity JSON model: text that embeds a symbolic quantity")
			}
			recv := a[0].(*value)
			qt := fr.i.prog.ImportedPackage("k8s.io/apimachinery/pkg/api/resource").Type("Quantity").Type()
			cp := append(structure{}, v.(structure)...)
			cp[0] = append(structure{}, cp[0].(structure)...)
			cp[1] = append(structure{}, cp[1].(structure)...)
			// the real parser caches the canonical text it was given in q.s (MarshalJSON and String
			// return it while the quantity is not modified; reflect.DeepEqual sees it)
			cp[2] = strings.Trim(st, "\"")
			store(fr.i, qt, recv, cp)
			return iface{}
		}
		m := fr.i.lookupMethod("k8s.io/apimachinery/pkg/api/resource", "Quantity", "UnmarshalJSON")
		fr.i.bypass = m
		return callSSAraw(fr.i, fr, token.NoPos, m, a, nil)
	}
	defer func() {
		for _, n := range []string{"encoding/json.Unmarshal", "encoding/json.Marshal", "encoding/json.MarshalIndent", "encoding/json.Valid"} {
			externals[n] = jguard(n, externals[n])
		}
	}()
	externals["encoding/json.Unmarshal"] = func(fr *frame, a []value) value {
		return jsonUnmarshal(fr, bytesOf(a[0]), a[1].(iface))
	}
	externals["encoding/json.Marshal"] = func(fr *frame, a []value) value {
		return tuple{valOfBytes(jsonMarshal(fr, a[0])), iface{}}
	}
	externals["encoding/json.MarshalIndent"] = func(fr *frame, a []value) value {
		raw, terms := jplaceholders(jsonMarshal(fr, a[0]))
		var out bytes.Buffer
		if err := json.Indent(&out, raw, a[1].(string), a[2].(string)); err != nil {
			unsupported("encoding/json model: %v", err)
		}
		return tuple{valOfBytes(junplaceholders(out.Bytes(), terms)), iface{}}
	}
	externals["encoding/json.Valid"] = func(fr *frame, a []value) value {
		text, _ := jplaceholders(bytesOf(a[0]))
		return json.Valid(text)
	}
}
