package interp

// Intrinsics behind the harness API (package pkg/zzverif, overlay-only).

import (
	"go/types"
	"math"

	"gosym/smt"
)

const zzv = "github.com/koordinator-sh/koordinator/pkg/zzverif."

func boolTerm(v value) *smt.Term { return termOf(v, types.Bool) }

func init() {
	add := func(name string, f externalFn) { externals[zzv+name] = f }
	intIn := func(kind string, bk types.BasicKind) externalFn {
		return func(fr *frame, a []value) value {
			e := fr.i.X
			name := a[0].(string)
			lo, hi := asInt64(a[1]), asInt64(a[2])
			if lo > hi {
				panic(engineAbort{"engine-error", "empty range for input " + name})
			}
			_, fresh := e.inputs[name]
			d := e.declare(name, kind, bk, lo, hi)
			if !fresh {
				w, signed := kindWidth(bk)
				for _, m := range e.Models {
					if _, ok := m[name]; !ok {
						m[name] = defaultValue(d)
					}
				}
				if signed {
					e.push(smt.Sle(smt.BVS(lo, w), d.term))
					e.push(smt.Sle(d.term, smt.BVS(hi, w)))
				} else {
					e.push(smt.Ule(smt.BV(uint64(lo), w), d.term))
					e.push(smt.Ule(d.term, smt.BV(uint64(hi), w)))
				}
			}
			if lo == hi {
				return concreteOf(smt.BVS(lo, func() int { w, _ := kindWidth(bk); return w }()), bk)
			}
			return sym{d.term, bk}
		}
	}
	add("Int64", intIn("int64", types.Int64))
	add("Int", intIn("int", types.Int))
	add("Int32", intIn("int32", types.Int32))
	add("Uint64", intIn("uint64", types.Uint64))
	add("Uint32", intIn("uint32", types.Uint32))
	add("Bool", func(fr *frame, a []value) value {
		e := fr.i.X
		d := e.declare(a[0].(string), "bool", types.Bool, 0, 1)
		return sym{d.term, types.Bool}
	})
	add("Float64", func(fr *frame, a []value) value {
		e := fr.i.X
		name := a[0].(string)
		lo, hi := a[1].(float64), a[2].(float64)
		_, had := e.inputs[name]
		d := e.declare(name, "float64", types.Float64, 0, 0)
		d.FLo, d.FHi = lo, hi
		if !had {
			for _, m := range e.Models {
				if _, ok := m[name]; !ok {
					m[name] = smt.Value{Lo: math.Float64bits(lo)}
				}
			}
			e.push(smt.FLe(smt.FPC(lo), d.term))
			e.push(smt.FLe(d.term, smt.FPC(hi)))
		}
		return sym{d.term, types.Float64}
	})
	add("Choice", func(fr *frame, a []value) value {
		e := fr.i.X
		name := a[0].(string)
		n := asInt64(a[1])
		if n <= 0 {
			panic(engineAbort{"engine-error", "Choice with n <= 0"})
		}
		if n == 1 {
			return 0
		}
		_, had := e.inputs[name]
		d := e.declare(name, "int", types.Int, 0, n-1)
		if !had {
			for _, m := range e.Models {
				if _, ok := m[name]; !ok {
					m[name] = smt.Value{}
				}
			}
			e.push(smt.Sle(smt.BVS(0, 64), d.term))
			e.push(smt.Sle(d.term, smt.BVS(n-1, 64)))
		}
		return e.concretize(sym{d.term, types.Int}, "Choice "+name)
	})
	add("Concrete", func(fr *frame, a []value) value { return fr.conc(a[0], "zzverif.Concrete") })
	add("ConcreteInt", func(fr *frame, a []value) value { return fr.conc(a[0], "zzverif.ConcreteInt") })
	add("Param", func(fr *frame, a []value) value {
		v, ok := fr.i.env.Params[a[0].(string)]
		if !ok {
			panic(engineAbort{"engine-error", "harness parameter " + a[0].(string) + " not set in the spec"})
		}
		return int(v)
	})
	add("Symbolic", func(fr *frame, a []value) value { return true })
	add("Assume", func(fr *frame, a []value) value {
		fr.i.X.assume(boolTerm(a[0]))
		return nil
	})
	add("Assert", func(fr *frame, a []value) value {
		fr.i.X.assert(boolTerm(a[0]), a[1].(string))
		return nil
	})
	add("Fail", func(fr *frame, a []value) value {
		fr.i.X.assert(smt.False, a[0].(string))
		return nil
	})
	add("Reach", func(fr *frame, a []value) value {
		fr.i.X.res.Reached[a[0].(string)]++
		return nil
	})
	add("Observe", func(fr *frame, a []value) value {
		if fr.i.X.obs == nil {
			fr.i.X.obs = map[string]value{}
		}
		fr.i.X.obs[a[0].(string)] = a[1]
		return nil
	})
	add("And", func(fr *frame, a []value) value { return mkSym(smt.And(boolTerm(a[0]), boolTerm(a[1])), types.Bool) })
	add("Or", func(fr *frame, a []value) value { return mkSym(smt.Or(boolTerm(a[0]), boolTerm(a[1])), types.Bool) })
	add("Not", func(fr *frame, a []value) value { return mkSym(smt.Not(boolTerm(a[0])), types.Bool) })
	add("Implies", func(fr *frame, a []value) value {
		return mkSym(smt.Implies(boolTerm(a[0]), boolTerm(a[1])), types.Bool)
	})
	add("Iff", func(fr *frame, a []value) value {
		return mkSym(smt.Eq(boolTerm(a[0]), boolTerm(a[1])), types.Bool)
	})
	add("IteInt64", func(fr *frame, a []value) value {
		return mkSym(smt.Ite(boolTerm(a[0]), termOf(a[1], types.Int64), termOf(a[2], types.Int64)), types.Int64)
	})
	add("MinInt64", func(fr *frame, a []value) value { return min(a[0], a[1]) })
	add("MaxInt64", func(fr *frame, a []value) value { return max(a[0], a[1]) })
	add("MaxInt32", func(fr *frame, a []value) value { return max(a[0], a[1]) })
	add("SetNow", func(fr *frame, a []value) value {
		fr.i.clock = a[0]
		return nil
	})
	add("OnFileWrite", func(fr *frame, a []value) value {
		fr.i.fsHook = a[0]
		return nil
	})
	add("IsNative", func(fr *frame, a []value) value { return false })
	add("TempRoot", func(fr *frame, a []value) value { return "/zzv" })
	add("PutFile", func(fr *frame, a []value) value {
		fr.i.fsSet(a[0].(string), a[1].(string))
		fr.i.fsSet(fsWrittenKey+a[0].(string), "")
		return nil
	})
	add("FileWritten", func(fr *frame, a []value) value {
		v, _ := fr.i.fsGet(fsWrittenKey + a[0].(string))
		return v == "1"
	})
	add("GetFile", func(fr *frame, a []value) value {
		v, ok := fr.i.fsGet(a[0].(string))
		if !ok {
			return tuple{"", false}
		}
		if s, ok := v.(string); ok {
			return tuple{s, true}
		}
		unsupported("GetFile on symbolic content")
		return nil
	})
}
