package interp

// sync.Map is a hash-trie built on unsafe since Go 1.24; it is replaced by an
// insertion-ordered map keyed on the receiver address.

type smap struct {
	keys []value
	vals map[value]value
	orig map[value]value // stripped key -> the interface value it was stored under
}

func getSmap(fr *frame, p *value) *smap {
	m := fr.i.smaps[p]
	if m == nil {
		m = &smap{vals: map[value]value{}, orig: map[value]value{}}
		fr.i.smaps[p] = m
	}
	return m
}

func keyOf(v value) value {
	if i, ok := v.(iface); ok {
		if hasSym(i.v, 0) {
			unsupported("symbolic sync.Map key")
		}
		switch i.v.(type) {
		case structure, array:
			unsupported("aggregate sync.Map key")
		}
		return i.v
	}
	return v
}

func (m *smap) set(fr *frame, ok, v value) {
	k := keyOf(ok)
	if _, seen := m.orig[k]; !seen {
		m.orig[k] = ok
	}
	old, had := m.vals[k]
	nkeys := len(m.keys)
	if fr.i.logging() {
		fr.i.logUndo(func() {
			if had {
				m.vals[k] = old
			} else {
				delete(m.vals, k)
			}
			m.keys = m.keys[:nkeys]
		})
	}
	if !had {
		m.keys = append(m.keys, k)
	}
	m.vals[k] = v
}

func (m *smap) del(fr *frame, k value) {
	old, had := m.vals[k]
	if !had {
		return
	}
	if fr.i.logging() {
		fr.i.logUndo(func() { m.vals[k] = old })
	}
	delete(m.vals, k)
}

func init() {
	externals["(*sync.Map).Load"] = func(fr *frame, a []value) value {
		m := getSmap(fr, a[0].(*value))
		v, ok := m.vals[keyOf(a[1])]
		if !ok {
			return tuple{iface{}, false}
		}
		return tuple{v, true}
	}
	externals["(*sync.Map).Store"] = func(fr *frame, a []value) value {
		getSmap(fr, a[0].(*value)).set(fr, a[1], a[2])
		return nil
	}
	externals["(*sync.Map).LoadOrStore"] = func(fr *frame, a []value) value {
		m := getSmap(fr, a[0].(*value))
		k := keyOf(a[1])
		if v, ok := m.vals[k]; ok {
			return tuple{v, true}
		}
		m.set(fr, a[1], a[2])
		return tuple{a[2], false}
	}
	externals["(*sync.Map).LoadAndDelete"] = func(fr *frame, a []value) value {
		m := getSmap(fr, a[0].(*value))
		k := keyOf(a[1])
		if v, ok := m.vals[k]; ok {
			m.del(fr, k)
			return tuple{v, true}
		}
		return tuple{iface{}, false}
	}
	externals["(*sync.Map).Delete"] = func(fr *frame, a []value) value {
		getSmap(fr, a[0].(*value)).del(fr, keyOf(a[1]))
		return nil
	}
	externals["(*sync.Map).CompareAndDelete"] = func(fr *frame, a []value) value {
		m := getSmap(fr, a[0].(*value))
		k := keyOf(a[1])
		if _, ok := m.vals[k]; ok {
			m.del(fr, k)
			return true
		}
		return false
	}
	externals["(*sync.Map).Range"] = func(fr *frame, a []value) value {
		m := getSmap(fr, a[0].(*value))
		keys := append([]value(nil), m.keys...)
		seen := map[value]bool{}
		for _, k := range keys {
			if seen[k] {
				continue
			}
			seen[k] = true
			if v, ok := m.vals[k]; ok {
				r := callFn(fr, a[1], m.orig[k], v)
				if !r.(bool) {
					break
				}
			}
		}
		return nil
	}
}
