// Copyright 2013 The Go Authors. All rights reserved.
// Use of this source code is governed by a BSD-style
// license that can be found in the LICENSE file.

// Package ssa/interp defines an interpreter for the SSA
// representation of Go programs.
//
// This interpreter is provided as an adjunct for testing the SSA
// construction algorithm.  Its purpose is to provide a minimal
// metacircular implementation of the dynamic semantics of each SSA
// instruction.  It is not, and will never be, a production-quality Go
// interpreter.
//
// The following is a partial list of Go features that are currently
// unsupported or incomplete in the interpreter.
//
// * Unsafe operations, including all uses of unsafe.Pointer, are
// impossible to support given the "boxed" value representation we
// have chosen.
//
// * The reflect package is only partially implemented.
//
// * The "testing" package is no longer supported because it
// depends on low-level details that change too often.
//
// * "sync/atomic" operations are not atomic due to the "boxed" value
// representation: it is not possible to read, modify and write an
// interface value atomically. As a consequence, Mutexes are currently
// broken.
//
// * recover is only partially implemented.  Also, the interpreter
// makes no attempt to distinguish target panics from interpreter
// crashes.
//
// * the sizes of the int, uint and uintptr types in the target
// program are assumed to be the same as those of the interpreter
// itself.
//
// * all values occupy space, even those of types defined by the spec
// to have zero size, e.g. struct{}.  This can cause asymptotic
// performance degradation.
//
// * os.Exit is implemented using panic, causing deferred functions to
// run.
package interp

import (
	"fmt"
	"go/token"
	"go/types"
	"log"
	"os"
	"reflect"
	"runtime"
	"slices"
	"sync/atomic"
	_ "unsafe"

	"golang.org/x/tools/go/ssa"

	"gosym/smt"
)

type continuation int

const (
	kNext continuation = iota
	kReturn
	kJump
)

// Mode is a bitmask of options affecting the interpreter.
type Mode uint

const (
	DisableRecover Mode = 1 << iota // Disable recover() in target programs; show interpreter crash instead.
	EnableTracing                   // Print a trace of all instructions as they are interpreted.
)

type methodSet map[string]*ssa.Function

// State shared between all interpreted goroutines.
type interpreter struct {
	osArgs             []value                // the value of os.Args
	prog               *ssa.Program           // the SSA program
	globals            map[*ssa.Global]*value // addresses of global variables (immutable)
	mode               Mode                   // interpreter options
	reflectPackage     *ssa.Package           // the fake reflect package
	errorMethods       methodSet              // the method set of reflect.error, which implements the error interface.
	rtypeMethods       methodSet              // the method set of rtype, which implements the reflect.Type interface.
	runtimeErrorString types.Type             // the runtime.errorString type (iff "runtime" is present)
	sizes              types.Sizes            // the effective type-sizing function
	goroutines         int32                  // atomically updated

	// gosym extensions (one interpreter per worker; nothing below is shared)
	X         *Explorer
	undoLog   []undoRec
	logOn     bool
	stack     []*ssa.Function
	nInstr    int64
	budget    int64
	mergeBad  map[*ssa.Function]int
	mergeSel  map[*ssa.Function]bool
	calls     map[*ssa.Function]int64
	env       *Env
	initMode  bool
	nPoison   int
	goDropped map[string]int
	stubCache map[*ssa.Function]externalFn
	noStub    map[*ssa.Function]bool
	bypass    *ssa.Function
	smaps     map[*value]*smap
	memFS     map[string]value
	fsHook    value
	clock     value
	allocLog  []*value   // heap cells allocated while inside a merged call
	mapLog    []*hashmap // maps allocated while inside a merged call
}

type deferred struct {
	fn    value
	args  []value
	instr *ssa.Defer
	tail  *deferred
}

type frame struct {
	i                *interpreter
	caller           *frame
	fn               *ssa.Function
	block, prevBlock *ssa.BasicBlock
	env              map[ssa.Value]value // dynamic values of SSA variables
	locals           []value
	defers           *deferred
	result           value
	panicking        bool
	panic            any
	phitemps         []value // temporaries for parallel phi assignment
	depth            int
}

func (fr *frame) get(key ssa.Value) value {
	switch key := key.(type) {
	case nil:
		// Hack; simplifies handling of optional attributes
		// such as ssa.Slice.{Low,High}.
		return nil
	case *ssa.Function, *ssa.Builtin:
		return key
	case *ssa.Const:
		return constValue(key)
	case *ssa.Global:
		if r, ok := fr.i.globals[key]; ok {
			return r
		}
		cell := zero(mustDeref(key.Type()))
		fr.i.globals[key] = &cell
		return &cell
	}
	if r, ok := fr.env[key]; ok {
		return r
	}
	panic(fmt.Sprintf("get: no value for %T: %v", key, key.Name()))
}

// runDefer runs a deferred call d.
// It always returns normally, but may set or clear fr.panic.
func (fr *frame) runDefer(d *deferred) {
	if fr.i.mode&EnableTracing != 0 {
		fmt.Fprintf(os.Stderr, "%s: invoking deferred function call\n",
			fr.i.prog.Fset.Position(d.instr.Pos()))
	}
	var ok bool
	defer func() {
		if !ok {
			// Deferred call created a new state of panic.
			fr.panicking = true
			fr.panic = recover()
		}
	}()
	call(fr.i, fr, d.instr.Pos(), d.fn, d.args)
	ok = true
}

// runDefers executes fr's deferred function calls in LIFO order.
//
// On entry, fr.panicking indicates a state of panic; if
// true, fr.panic contains the panic value.
//
// On completion, if a deferred call started a panic, or if no
// deferred call recovered from a previous state of panic, then
// runDefers itself panics after the last deferred call has run.
//
// If there was no initial state of panic, or it was recovered from,
// runDefers returns normally.
func (fr *frame) runDefers() {
	for d := fr.defers; d != nil; d = d.tail {
		fr.runDefer(d)
	}
	fr.defers = nil
	if fr.panicking {
		panic(fr.panic) // new panic, or still panicking
	}
}

// lookupMethod returns the method set for type typ, which may be one
// of the interpreter's fake types.
func lookupMethod(i *interpreter, typ types.Type, meth *types.Func) *ssa.Function {
	switch typ {
	case rtypeType:
		return i.rtypeMethods[meth.Id()]
	case errorType:
		return i.errorMethods[meth.Id()]
	}
	return i.prog.LookupMethod(typ, meth.Pkg(), meth.Name())
}

// visitInstr interprets a single ssa.Instruction within the activation
// record frame.  It returns a continuation value indicating where to
// read the next instruction from.
func visitInstr(fr *frame, instr ssa.Instruction) continuation {
	fr.i.nInstr++
	if fr.i.nInstr > fr.i.budget && fr.i.budget > 0 {
		panic(engineAbort{"unwind", "instruction budget exhausted"})
	}
	switch instr := instr.(type) {
	case *ssa.DebugRef:
		// no-op

	case *ssa.UnOp:
		fr.env[instr] = unop(instr, fr.get(instr.X))

	case *ssa.BinOp:
		x, y := fr.get(instr.X), fr.get(instr.Y)
		if ys, ok := y.(sym); ok && (instr.Op == token.QUO || instr.Op == token.REM) && ys.k != types.Float64 {
			w, _ := kindWidth(ys.k)
			if fr.i.X.decide(smt.Eq(ys.t, smt.BV(0, w))) {
				panic(runtimeError("integer divide by zero"))
			}
		}
		r := binop(instr.Op, instr.X.Type(), x, y)
		if rs, ok := r.(sym); ok && rs.k == types.Bool {
			r = exactFPBool(fr, rs)
		}
		fr.env[instr] = r

	case *ssa.Call:
		if fr.i.initMode && fr.fn.Name() == "init" && fr.fn.Synthetic != "" {
			func() {
				depth := len(fr.i.stack)
				defer func() {
					if r := recover(); r != nil {
						fr.i.stack = fr.i.stack[:depth]
						fr.i.nPoison++
						why := "package initialiser call could not be interpreted: " + instr.Call.String()
						if fr.i.env != nil && fr.i.env.Verbose {
							fmt.Fprintf(os.Stderr, "init: poisoned %s: %v\n", instr.Call.String(), r)
						}
						var z value = poison{why}
						if tt, ok := instr.Type().(*types.Tuple); ok {
							tu := make(tuple, tt.Len())
							for k := 0; k < tt.Len(); k++ {
								tu[k] = poison{why}
							}
							z = tu
						}
						fr.env[instr] = z
					}
				}()
				fn, args := prepareCall(fr, &instr.Call)
				fr.env[instr] = call(fr.i, fr, instr.Pos(), fn, args)
			}()
			break
		}
		fn, args := prepareCall(fr, &instr.Call)
		fr.env[instr] = call(fr.i, fr, instr.Pos(), fn, args)

	case *ssa.ChangeInterface:
		fr.env[instr] = fr.get(instr.X)

	case *ssa.ChangeType:
		fr.env[instr] = fr.get(instr.X) // (can't fail)

	case *ssa.Convert:
		x := fr.get(instr.X)
		if sx, ok := x.(sym); ok && sx.k == types.Float64 {
			if b, ok := instr.Type().Underlying().(*types.Basic); ok && b.Info()&types.IsInteger != 0 {
				convGuard(fr, sx, kindOf(instr.Type()))
				if v, ok := exactIntQuotient(fr, sx, kindOf(instr.Type())); ok {
					fr.env[instr] = v
					break
				}
				if dk := kindOf(instr.Type()); dk == types.Int64 || dk == types.Int || dk == types.Int32 {
					w, _ := kindWidth(dk)
					if q := fr.i.X.intervals().ExactFP(smt.FToS(sx.t, w)); q != nil {
						fr.env[instr] = mkSym(q, dk)
						break
					}
				}
			}
		}
		fr.env[instr] = conv(instr.Type(), instr.X.Type(), x)

	case *ssa.SliceToArrayPointer:
		fr.env[instr] = sliceToArrayPointer(instr.Type(), instr.X.Type(), fr.get(instr.X))

	case *ssa.MakeInterface:
		fr.env[instr] = iface{t: instr.X.Type(), v: fr.get(instr.X)}

	case *ssa.Extract:
		fr.env[instr] = fr.get(instr.Tuple).(tuple)[instr.Index]

	case *ssa.Slice:
		fr.env[instr] = slice(fr.get(instr.X), fr.conc(fr.get(instr.Low), "slice bound"), fr.conc(fr.get(instr.High), "slice bound"), fr.conc(fr.get(instr.Max), "slice bound"))

	case *ssa.Return:
		switch len(instr.Results) {
		case 0:
		case 1:
			fr.result = fr.get(instr.Results[0])
		default:
			var res []value
			for _, r := range instr.Results {
				res = append(res, fr.get(r))
			}
			fr.result = tuple(res)
		}
		fr.block = nil
		return kReturn

	case *ssa.RunDefers:
		fr.runDefers()

	case *ssa.Panic:
		panic(targetPanic{fr.get(instr.X)})

	case *ssa.Send:
		fr.get(instr.Chan).(chan value) <- fr.get(instr.X)

	case *ssa.Store:
		store(fr.i, mustDeref(instr.Addr.Type()), fr.get(instr.Addr).(*value), fr.get(instr.Val))

	case *ssa.If:
		succ := 1
		cv := fr.get(instr.Cond)
		if sc, ok := cv.(sym); ok {
			fr.i.X.siteFr = fr
			cv = fr.i.X.decide(sc.t)
		}
		if cv.(bool) {
			succ = 0
		}
		fr.prevBlock, fr.block = fr.block, fr.block.Succs[succ]
		return kJump

	case *ssa.Jump:
		fr.prevBlock, fr.block = fr.block, fr.block.Succs[0]
		return kJump

	case *ssa.Defer:
		fn, args := prepareCall(fr, &instr.Call)
		defers := &fr.defers
		if into := fr.get(instr.DeferStack); into != nil {
			defers = into.(**deferred)
		}
		*defers = &deferred{
			fn:    fn,
			args:  args,
			instr: instr,
			tail:  *defers,
		}

	case *ssa.Go:
		// goroutines are not run: background janitors and metric loops have no
		// bearing on the sequential obligations; every dropped go statement is
		// reported in the evidence.
		name := "?"
		if f, ok := instr.Call.Value.(*ssa.Function); ok {
			name = f.String()
		} else if mc, ok := instr.Call.Value.(*ssa.MakeClosure); ok {
			name = mc.Fn.String()
		} else if instr.Call.Method != nil {
			name = instr.Call.Method.FullName()
		}
		if fr.i.goDropped != nil {
			fr.i.goDropped[name]++
		}
		_ = atomic.AddInt32

	case *ssa.MakeChan:
		fr.env[instr] = make(chan value, asInt64(fr.get(instr.Size)))

	case *ssa.Alloc:
		var addr *value
		if instr.Heap {
			// new
			addr = new(value)
			fr.env[instr] = addr
			if fr.i.X != nil && fr.i.X.mctx != nil {
				fr.i.allocLog = append(fr.i.allocLog, addr)
			}
		} else {
			// local
			addr = fr.env[instr].(*value)
		}
		*addr = zero(mustDeref(instr.Type()))

	case *ssa.MakeSlice:
		slice := make([]value, asInt64(fr.conc(fr.get(instr.Cap), "make cap")))
		tElt := instr.Type().Underlying().(*types.Slice).Elem()
		for i := range slice {
			slice[i] = zero(tElt)
		}
		fr.env[instr] = slice[:asInt64(fr.conc(fr.get(instr.Len), "make len"))]

	case *ssa.MakeMap:
		var reserve int64
		if instr.Reserve != nil && !isSym(fr.get(instr.Reserve)) {
			reserve = asInt64(fr.get(instr.Reserve))
		}
		if !fitsInt(reserve, fr.i.sizes) {
			panic(fmt.Sprintf("ssa.MakeMap.Reserve value %d does not fit in int", reserve))
		}
		nm := makeMap(instr.Type().Underlying().(*types.Map).Key(), reserve)
		if fr.i.X != nil && fr.i.X.mctx != nil {
			hm := nm.(*hashmap)
			hm.creator = fr.i.X.mctx
			fr.i.mapLog = append(fr.i.mapLog, hm)
		}
		fr.env[instr] = nm

	case *ssa.Range:
		fr.env[instr] = rangeIter(fr.get(instr.X))

	case *ssa.Next:
		fr.env[instr] = fr.get(instr.Iter).(iter).next()

	case *ssa.FieldAddr:
		fr.env[instr] = &(*fr.get(instr.X).(*value)).(structure)[instr.Field]

	case *ssa.Field:
		fr.env[instr] = fr.get(instr.X).(structure)[instr.Field]

	case *ssa.IndexAddr:
		x := fr.get(instr.X)
		idx := fr.get(instr.Index)
		switch x := x.(type) {
		case []value:
			fr.env[instr] = &x[asInt64(fr.symIndex(idx, len(x)))]
		case *value: // *array
			a := (*x).(array)
			fr.env[instr] = &a[asInt64(fr.symIndex(idx, len(a)))]
		default:
			panic(fmt.Sprintf("unexpected x type in IndexAddr: %T", x))
		}

	case *ssa.Index:
		x := fr.get(instr.X)
		idx := fr.get(instr.Index)

		switch x := x.(type) {
		case array:
			fr.env[instr] = x[asInt64(fr.symIndex(idx, len(x)))]
		case string:
			guardDec(x, "indexing")
			fr.env[instr] = x[asInt64(fr.symIndex(idx, len(x)))]
		default:
			panic(fmt.Sprintf("unexpected x type in Index: %T", x))
		}

	case *ssa.Lookup:
		if s, ok := fr.get(instr.X).(string); ok {
			fr.env[instr] = s[asInt64(fr.symIndex(fr.get(instr.Index), len(s)))]
			break
		}
		fr.env[instr] = lookup(instr, fr.get(instr.X), fr.conc(fr.get(instr.Index), "map key"))

	case *ssa.MapUpdate:
		m := fr.get(instr.Map)
		key := fr.conc(fr.get(instr.Key), "map key")
		v := fr.get(instr.Value)
		switch m := m.(type) {
		case *hashmap:
			if m == nil {
				panic(runtimeError("assignment to entry in nil map"))
			}
			m.insert(fr.i, key, v)
		default:
			panic(fmt.Sprintf("illegal map type: %T", m))
		}

	case *ssa.TypeAssert:
		fr.env[instr] = typeAssert(instr, fr.get(instr.X).(iface))

	case *ssa.MakeClosure:
		var bindings []value
		for _, binding := range instr.Bindings {
			bindings = append(bindings, fr.get(binding))
		}
		fr.env[instr] = &closure{instr.Fn.(*ssa.Function), bindings}

	case *ssa.Phi:
		log.Fatal("unreachable") // phis are processed at block entry

	case *ssa.Select:
		var cases []reflect.SelectCase
		if !instr.Blocking {
			cases = append(cases, reflect.SelectCase{
				Dir: reflect.SelectDefault,
			})
		}
		for _, state := range instr.States {
			var dir reflect.SelectDir
			if state.Dir == types.RecvOnly {
				dir = reflect.SelectRecv
			} else {
				dir = reflect.SelectSend
			}
			var send reflect.Value
			if state.Send != nil {
				send = reflect.ValueOf(fr.get(state.Send))
			}
			cases = append(cases, reflect.SelectCase{
				Dir:  dir,
				Chan: reflect.ValueOf(fr.get(state.Chan)),
				Send: send,
			})
		}
		chosen, recv, recvOk := reflect.Select(cases)
		if !instr.Blocking {
			chosen-- // default case should have index -1.
		}
		r := tuple{chosen, recvOk}
		for i, st := range instr.States {
			if st.Dir == types.RecvOnly {
				var v value
				if i == chosen && recvOk {
					// No need to copy since send makes an unaliased copy.
					v = recv.Interface().(value)
				} else {
					v = zero(st.Chan.Type().Underlying().(*types.Chan).Elem())
				}
				r = append(r, v)
			}
		}
		fr.env[instr] = r

	default:
		panic(fmt.Sprintf("unexpected instruction: %T", instr))
	}

	// if val, ok := instr.(ssa.Value); ok {
	// 	fmt.Println(toString(fr.env[val])) // debugging
	// }

	return kNext
}

// prepareCall determines the function value and argument values for a
// function call in a Call, Go or Defer instruction, performing
// interface method lookup if needed.
func prepareCall(fr *frame, call *ssa.CallCommon) (fn value, args []value) {
	v := fr.get(call.Value)
	if call.Method == nil {
		// Function call.
		fn = v
	} else {
		// Interface method invocation.
		recv := v.(iface)
		if ext := ifaceStub(fr, call, recv); ext != nil {
			args = append(args, recv)
			for _, arg := range call.Args {
				args = append(args, fr.get(arg))
			}
			return ext, args
		}
		if recv.t == nil {
			panic(runtimeError("invalid memory address or nil pointer dereference (method call on nil interface)"))
		}
		if f := lookupMethod(fr.i, recv.t, call.Method); f == nil {
			// Unreachable in well-typed programs.
			panic(fmt.Sprintf("method set for dynamic type %v does not contain %s", recv.t, call.Method))
		} else {
			fn = f
		}
		args = append(args, recv.v)
	}
	for _, arg := range call.Args {
		args = append(args, fr.get(arg))
	}
	return
}

// call interprets a call to a function (function, builtin or closure)
// fn with arguments args, returning its result.
// callpos is the position of the callsite.
func call(i *interpreter, caller *frame, callpos token.Pos, fn value, args []value) value {
	switch fn := fn.(type) {
	case *ssa.Function:
		if fn == nil {
			panic("call of nil function") // nil of func type
		}
		return callSSA(i, caller, callpos, fn, args, nil)
	case *closure:
		return callSSA(i, caller, callpos, fn.Fn, args, fn.Env)
	case *ssa.Builtin:
		return callBuiltin(caller, fn, args)
	case externalFn:
		return fn(caller, args)
	}
	panic(fmt.Sprintf("cannot call %T", fn))
}

func loc(fset *token.FileSet, pos token.Pos) string {
	if pos == token.NoPos {
		return ""
	}
	return " at " + fset.Position(pos).String()
}

// callSSA interprets a call to function fn with arguments args,
// and lexical environment env, returning its result.
// callpos is the position of the callsite.
func callSSA(i *interpreter, caller *frame, callpos token.Pos, fn *ssa.Function, args []value, env []value) value {
	if i.X != nil && i.mergeable(fn) && (hasSym(tuple(args), 0) || hasSym(tuple(env), 0)) {
		if res, ok := mergeCall(i, caller, callpos, fn, args, env); ok {
			return res
		}
	}
	return callSSAraw(i, caller, callpos, fn, args, env)
}

func callSSAraw(i *interpreter, caller *frame, callpos token.Pos, fn *ssa.Function, args []value, env []value) value {
	if i.X != nil && i.X.mctx != nil && onAbortList(fn) {
		panic(engineAbort{"dec-fallback", fn.String()})
	}
	fr := &frame{
		i:      i,
		caller: caller, // for panic/recover
		fn:     fn,
	}
	if fn.Parent() == nil {
		if fn.Pkg != nil && fn.Synthetic != "" && fn.Name() == "init" && !i.initAllowed(fn.Pkg.Pkg.Path()) {
			return nil
		}
		if i.bypass == fn {
			i.bypass = nil
		} else if ext := i.stubFor(fn); ext != nil {
			return ext(fr, args)
		}
		if fn.Blocks == nil {
			panic(engineAbort{"unsupported", "no code for function: " + fn.String()})
		}
	}

	// generic function body?
	if fn.TypeParams().Len() > 0 && len(fn.TypeArgs()) == 0 {
		panic("interp requires ssa.BuilderMode to include InstantiateGenerics to execute generics")
	}

	fr.depth = len(i.stack)
	if fr.depth > 2000 {
		panic(engineAbort{"unwind", "call depth exceeds 2000"})
	}
	i.stack = append(i.stack, fn)
	if i.calls != nil {
		i.calls[fn]++
	}
	fr.env = make(map[ssa.Value]value)
	fr.block = fn.Blocks[0]
	fr.locals = make([]value, len(fn.Locals))
	for i, l := range fn.Locals {
		fr.locals[i] = zero(mustDeref(l.Type()))
		fr.env[l] = &fr.locals[i]
	}
	for i, p := range fn.Params {
		fr.env[p] = args[i]
	}
	for i, fv := range fn.FreeVars {
		fr.env[fv] = env[i]
	}
	for fr.block != nil {
		runFrame(fr)
	}
	// Destroy the locals to avoid accidental use after return.
	for i := range fn.Locals {
		fr.locals[i] = bad{}
	}
	i.stack = i.stack[:fr.depth]
	return fr.result
}

// runFrame executes SSA instructions starting at fr.block and
// continuing until a return, a panic, or a recovered panic.
//
// After a panic, runFrame panics.
//
// After a normal return, fr.result contains the result of the call
// and fr.block is nil.
//
// A recovered panic in a function without named return parameters
// (NRPs) becomes a normal return of the zero value of the function's
// result type.
//
// After a recovered panic in a function with NRPs, fr.result is
// undefined and fr.block contains the block at which to resume
// control.
func runFrame(fr *frame) {
	defer func() {
		if fr.block == nil {
			return // normal return
		}
		if fr.i.mode&DisableRecover != 0 {
			return // let interpreter crash
		}
		p := recover()
		if ea, ok := p.(engineAbort); ok {
			panic(ea) // engine control flow is invisible to the target's defer/recover
		}
		if re, ok := p.(runtime.Error); ok && isEngineTypeError(re) {
			panic(engineAbort{"unsupported", re.Error() + " at " + fr.where()})
		}
		if _, ok := p.(runtime.Error); ok && os.Getenv("GOSYM_PANIC_DEBUG") != "" {
			fmt.Fprintf(os.Stderr, "target runtime error %v in %s\n", p, fr.where())
		}
		fr.i.stack = fr.i.stack[:fr.depth+1]
		fr.panicking = true
		fr.panic = p
		if fr.i.mode&EnableTracing != 0 {
			fmt.Fprintf(os.Stderr, "Panicking: %T %v.\n", fr.panic, fr.panic)
		}
		fr.runDefers()
		fr.block = fr.fn.Recover
	}()

	for {
		if fr.i.mode&EnableTracing != 0 {
			fmt.Fprintf(os.Stderr, ".%s:\n", fr.block)
		}

		nonPhis := executePhis(fr)
		for _, instr := range nonPhis {
			if fr.i.mode&EnableTracing != 0 {
				if v, ok := instr.(ssa.Value); ok {
					fmt.Fprintln(os.Stderr, "\t", v.Name(), "=", instr)
				} else {
					fmt.Fprintln(os.Stderr, "\t", instr)
				}
			}
			if visitInstr(fr, instr) == kReturn {
				return
			}
			// Inv: kNext (continue) or kJump (last instr)
		}
	}
}

// executePhis executes the phi-nodes at the start of the current
// block and returns the non-phi instructions.
func executePhis(fr *frame) []ssa.Instruction {
	firstNonPhi := -1
	for i, instr := range fr.block.Instrs {
		if _, ok := instr.(*ssa.Phi); !ok {
			firstNonPhi = i
			break
		}
	}
	// Inv: 0 <= firstNonPhi; every block contains a non-phi.

	nonPhis := fr.block.Instrs[firstNonPhi:]
	if firstNonPhi > 0 {
		phis := fr.block.Instrs[:firstNonPhi]
		// Execute parallel assignment of phis.
		//
		// See "the swap problem" in Briggs et al's "Practical Improvements
		// to the Construction and Destruction of SSA Form" for discussion.
		predIndex := slices.Index(fr.block.Preds, fr.prevBlock)
		fr.phitemps = fr.phitemps[:0]
		for _, phi := range phis {
			phi := phi.(*ssa.Phi)
			if fr.i.mode&EnableTracing != 0 {
				fmt.Fprintln(os.Stderr, "\t", phi.Name(), "=", phi)
			}
			fr.phitemps = append(fr.phitemps, fr.get(phi.Edges[predIndex]))
		}
		for i, phi := range phis {
			fr.env[phi.(*ssa.Phi)] = fr.phitemps[i]
		}
	}
	return nonPhis
}

// doRecover implements the recover() built-in.
func doRecover(caller *frame) value {
	// recover() must be exactly one level beneath the deferred
	// function (two levels beneath the panicking function) to
	// have any effect.  Thus we ignore both "defer recover()" and
	// "defer f() -> g() -> recover()".
	if caller.i.mode&DisableRecover == 0 &&
		caller != nil && !caller.panicking &&
		caller.caller != nil && caller.caller.panicking {
		caller.caller.panicking = false
		p := caller.caller.panic
		caller.caller.panic = nil

		// TODO(adonovan): support runtime.Goexit.
		switch p := p.(type) {
		case targetPanic:
			// The target program explicitly called panic().
			return p.v
		case runtime.Error:
			// The interpreter encountered a runtime error.
			return iface{caller.i.runtimeErrorString, p.Error()}
		case string:
			// The interpreter explicitly called panic().
			return iface{caller.i.runtimeErrorString, p}
		default:
			panic(fmt.Sprintf("unexpected panic type %T in target call to recover()", p))
		}
	}
	return iface{}
}

// Interpret interprets the Go program whose main package is mainpkg.
// mode specifies various interpreter options.  filename and args are
// the initial values of os.Args for the target program.  sizes is the
// effective type-sizing function for this program.
//
// Interpret returns the exit code of the program: 2 for panic (like
// gc does), or the argument to os.Exit for normal termination.
//
// The SSA program must include the "runtime" package.
//
// Type parameterized functions must have been built with
// InstantiateGenerics in the ssa.BuilderMode to be interpreted.
func Interpret(mainpkg *ssa.Package, mode Mode, sizes types.Sizes, filename string, args []string) (exitCode int) {
	i := &interpreter{
		prog:       mainpkg.Prog,
		globals:    make(map[*ssa.Global]*value),
		mode:       mode,
		sizes:      sizes,
		goroutines: 1,
	}
	runtimePkg := i.prog.ImportedPackage("runtime")
	if runtimePkg != nil {
		i.runtimeErrorString = runtimePkg.Type("errorString").Object().Type()
	}

	initReflect(i)

	i.osArgs = append(i.osArgs, filename)
	for _, arg := range args {
		i.osArgs = append(i.osArgs, arg)
	}

	for _, pkg := range i.prog.AllPackages() {
		// Initialize global storage.
		for _, m := range pkg.Members {
			switch v := m.(type) {
			case *ssa.Global:
				cell := zero(mustDeref(v.Type()))
				i.globals[v] = &cell
			}
		}
	}

	// Top-level error handler.
	exitCode = 2
	defer func() {
		if exitCode != 2 || i.mode&DisableRecover != 0 {
			return
		}
		switch p := recover().(type) {
		case exitPanic:
			exitCode = int(p)
			return
		case targetPanic:
			fmt.Fprintln(os.Stderr, "panic:", toString(p.v))
		case runtime.Error:
			fmt.Fprintln(os.Stderr, "panic:", p.Error())
		case string:
			fmt.Fprintln(os.Stderr, "panic:", p)
		default:
			fmt.Fprintf(os.Stderr, "panic: unexpected type: %T: %v\n", p, p)
		}

		// TODO(adonovan): dump panicking interpreter goroutine?
		// buf := make([]byte, 0x10000)
		// runtime.Stack(buf, false)
		// fmt.Fprintln(os.Stderr, string(buf))
		// (Or dump panicking target goroutine?)
	}()

	// Run!
	call(i, nil, token.NoPos, mainpkg.Func("init"), nil)
	if mainFn := mainpkg.Func("main"); mainFn != nil {
		call(i, nil, token.NoPos, mainFn, nil)
		exitCode = 0
	} else {
		fmt.Fprintln(os.Stderr, "No main function.")
		exitCode = 1
	}
	return
}
