package interp

// time.Time arithmetic with a symbolic seconds field. time.Time values are built by
// the real code (time.Unix(sym, 0), the harness clock): wall = 0 (no nanoseconds,
// no monotonic reading), ext = seconds since year 1. The real methods mix seconds
// and nanoseconds through bit masks and division by 1e9, which no back end decides
// quickly; with a symbolic operand these whole-second equivalents are used instead
// (sub-second symbolic durations stop the path as unsupported). Concrete operands run
// the real code.

import (
	"go/token"
	"go/types"

	"gosym/smt"
)

func timeParts(v value) (wall, ext value, loc value, ok bool) {
	if p, isPtr := v.(*value); isPtr {
		v = *p
	}
	s, isS := v.(structure)
	if !isS || len(s) != 3 {
		return nil, nil, nil, false
	}
	return s[0], s[1], s[2], true
}

func wholeSeconds(fr *frame, v value) {
	wall, _, _, ok := timeParts(v)
	if !ok {
		unsupported("time value of unexpected shape")
	}
	if w, isU := wall.(uint64); !isU || w != 0 {
		unsupported("symbolic time arithmetic on a time with nanoseconds or a monotonic reading")
	}
}

func init() {
	const unixToInternal int64 = (1969*365 + 1969/4 - 1969/100 + 1969/400) * 86400
	i64 := func(v value) *smt.Term { return termOf(v, types.Int64) }
	real := func(name string) func(fr *frame, a []value) value {
		return func(fr *frame, a []value) value {
			m := fr.i.lookupValueMethod("time", "Time", name)
			if m == nil {
				unsupported("time.Time.%s not found", name)
			}
			fr.i.bypass = m
			return callSSAraw(fr.i, fr, token.NoPos, m, a, nil)
		}
	}
	wrap := func(name string, symImpl func(fr *frame, a []value) value) {
		r := real(name)
		externals["(time.Time)."+name] = func(fr *frame, a []value) value {
			if !hasSym(tuple(a), 0) {
				return r(fr, a)
			}
			return symImpl(fr, a)
		}
	}
	cmp := func(f func(x, y *smt.Term) *smt.Term) func(fr *frame, a []value) value {
		return func(fr *frame, a []value) value {
			wholeSeconds(fr, a[0])
			wholeSeconds(fr, a[1])
			_, x, _, _ := timeParts(a[0])
			_, y, _, _ := timeParts(a[1])
			return mkSym(f(i64(x), i64(y)), types.Bool)
		}
	}
	wrap("After", cmp(func(x, y *smt.Term) *smt.Term { return smt.Slt(y, x) }))
	wrap("Before", cmp(func(x, y *smt.Term) *smt.Term { return smt.Slt(x, y) }))
	wrap("Equal", cmp(func(x, y *smt.Term) *smt.Term { return smt.Eq(x, y) }))
	wrap("Compare", func(fr *frame, a []value) value {
		wholeSeconds(fr, a[0])
		wholeSeconds(fr, a[1])
		_, x, _, _ := timeParts(a[0])
		_, y, _, _ := timeParts(a[1])
		r := smt.Ite(smt.Slt(i64(x), i64(y)), smt.BVS(-1, 64), smt.Ite(smt.Slt(i64(y), i64(x)), smt.BVS(1, 64), smt.BV(0, 64)))
		return mkSym(r, types.Int)
	})
	wrap("Add", func(fr *frame, a []value) value {
		wholeSeconds(fr, a[0])
		_, x, loc, _ := timeParts(a[0])
		d := i64(a[1])
		e9 := smt.BVS(1000000000, 64)
		if !fr.i.X.decide(smt.Eq(smt.SRem(d, e9), smt.BV(0, 64))) {
			unsupported("symbolic duration that is not a whole number of seconds")
		}
		return structure{uint64(0), mkSym(smt.Add(i64(x), smt.SDiv(d, e9)), types.Int64), loc}
	})
	wrap("Sub", func(fr *frame, a []value) value {
		wholeSeconds(fr, a[0])
		wholeSeconds(fr, a[1])
		_, x, _, _ := timeParts(a[0])
		_, y, _, _ := timeParts(a[1])
		// saturation at +-292 years is outside every harness range (checked by intervals)
		diff := smt.Sub(i64(x), i64(y))
		iv := fr.i.X.intervals().Of(diff)
		if !iv.OK || iv.Lo < -9.0e9 || iv.Hi > 9.0e9 {
			unsupported("symbolic time difference may exceed the Duration range")
		}
		return mkSym(smt.Mul(diff, smt.BVS(1000000000, 64)), types.Int64)
	})
	wrap("Unix", func(fr *frame, a []value) value {
		_, x, _, _ := timeParts(a[0])
		return mkSym(smt.Sub(i64(x), smt.BVS(unixToInternal, 64)), types.Int64)
	})
	wrap("IsZero", func(fr *frame, a []value) value {
		wholeSeconds(fr, a[0])
		_, x, _, _ := timeParts(a[0])
		return mkSym(smt.Eq(i64(x), smt.BV(0, 64)), types.Bool)
	})
	// time.Unix(sec, nsec) with symbolic sec and nsec == 0
	externals["time.Unix"] = func(fr *frame, a []value) value {
		if s, ok := a[0].(sym); ok {
			if n, isC := a[1].(int64); !isC || n != 0 {
				unsupported("time.Unix with symbolic seconds and non-zero nanoseconds")
			}
			localPkg := fr.i.prog.ImportedPackage("time")
			var loc value = (*value)(nil)
			if g, ok := localPkg.Members["Local"]; ok {
				_ = g
			}
			return structure{uint64(0), mkSym(smt.Add(s.t, smt.BVS(unixToInternal, 64)), types.Int64), loc}
		}
		fn := fr.i.prog.ImportedPackage("time").Func("Unix")
		fr.i.bypass = fn
		return callSSAraw(fr.i, fr, token.NoPos, fn, a, nil)
	}
}
