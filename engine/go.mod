module gosym

go 1.26.8

require golang.org/x/tools v0.50.0

require (
	golang.org/x/mod v0.41.0 // indirect
	golang.org/x/sync v0.23.0 // indirect
)
