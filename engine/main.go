// gosym: solver-based checking of koordinator properties by symbolic execution
// of go/ssa. See /verif/DESIGN.md.
package main

import (
	"bytes"
	"crypto/sha1"
	"encoding/json"
	"flag"
	"fmt"
	"go/ast"
	"go/parser"
	"go/token"
	"os"
	"os/exec"
	"path/filepath"
	"regexp"
	"runtime/debug"
	"sort"
	"strings"
	"sync"
	"time"

	"golang.org/x/tools/go/packages"
	"golang.org/x/tools/go/ssa"
	"golang.org/x/tools/go/ssa/ssautil"

	"gosym/interp"
	"gosym/smt"
)

// ---- spec ------------------------------------------------------------------------

type HarnessSpec struct {
	Func        string                      `json:"func"`
	Pkg         string                      `json:"pkg"`   // repo-relative package dir; default: spec.Packages[0]
	Kind        string                      `json:"kind"`  // "check" (default) | "twin" (must be violated)
	Tiers       map[string]map[string]int64 `json:"tiers"` // tier -> params; a tier that is absent skips the harness
	Desc        string                      `json:"desc"`
	Gates       map[string]string           `json:"gates"`
	MaxPaths    int                         `json:"max_paths"`
	MustReach   []string                    `json:"must_reach"` // Reach labels that have to be hit on a feasible path
	TimeBudgetS int                         `json:"time_budget_s"`
	NoMerge     bool                        `json:"no_merge"`
	Merge       []string                    `json:"merge"`
	Redirect    map[string]string           `json:"redirect"`
	Validate    int                         `json:"validate"` // number of witness paths replayed natively (default 1)
	Bounds      string                      `json:"bounds"`
}

type Spec struct {
	Property       string            `json:"property"`
	Packages       []string          `json:"packages"`
	Overlay        map[string]string `json:"overlay"` // repo-relative virtual path -> path relative to /verif/harness
	PerfStub       bool              `json:"perf_stub"`
	InitPkgs       []string          `json:"init_pkgs"`
	Gates          map[string]string `json:"gates"`
	Merge          []string          `json:"merge"`
	Redirect       map[string]string `json:"redirect"`
	Harnesses      []HarnessSpec     `json:"harnesses"`
	Assumptions    []string          `json:"assumptions"`
	Stubs          []string          `json:"stubs"`
	Outside        []string          `json:"outside"`
	SolverTimeoutS map[string]int    `json:"solver_timeout_s"`
}

type KnownFinding struct {
	Property string            `json:"property"`
	Harness  string            `json:"harness"`
	Label    string            `json:"label"` // assertion label or panic message prefix
	What     string            `json:"what"`
	Match    map[string]string `json:"match"`  // optional: input name -> regexp on decimal value
	Status   string            `json:"status"` // "known" | "fixed"
	Commit   string            `json:"commit,omitempty"`
}

// ---- results -----------------------------------------------------------------------

type harnessResult struct {
	Spec                            HarnessSpec
	Params                          map[string]int64
	Paths                           int
	Branches                        int
	Status                          map[string]int
	Details                         []string
	Violations                      []interp.Violation
	Reached                         map[string]int
	AssertsSeen                     map[string]int
	AssertsProved                   map[string]int
	Witnesses                       []witness
	Calls                           map[string]int64
	Inputs                          map[string]*interp.InputDecl
	Wall                            time.Duration
	Merges, MergePaths, MergeAborts int
	MergeAbortWhy                   map[string]int
	SolverUnknown                   int
	Gates                           map[string]bool
	MaxDepth                        int
	Instrs                          int64
	Capped                          bool
}

type witness struct {
	Inputs   map[string]any
	Observes map[string]string
	Reached  map[string]int
	NDec     int
}

var (
	verifDir = "/verif"
	repoDir  = "/repo"
)

var origPath = os.Getenv("PATH")

// goEnv: the loader (go/packages -> go list) runs the go1.26.8 toolchain the engine
// was built with; native replays run the repository's own toolchain (the default go
// switches to the go.mod version from the module cache, as the test suite does).
func goEnv(localToolchain bool) []string {
	var env []string
	for _, kv := range os.Environ() {
		if strings.HasPrefix(kv, "PATH=") || strings.HasPrefix(kv, "GOTOOLCHAIN=") || strings.HasPrefix(kv, "GOFLAGS=") || strings.HasPrefix(kv, "GOSUMDB=") || strings.HasPrefix(kv, "GOPROXY=") {
			continue
		}
		env = append(env, kv)
	}
	env = append(env, "GOFLAGS=-mod=mod", "GOPROXY=off")
	if localToolchain {
		env = append(env, "GOSUMDB=off", "GOTOOLCHAIN=local", "PATH=/opt/veriftools/go1.26.8/bin:"+origPath)
	} else {
		// the toolchain module's checksum is served from the module cache's sumdb copy
		env = append(env, "GOTOOLCHAIN=auto", "PATH="+origPath)
	}
	return env
}

func nativeGo() string {
	if _, err := os.Stat("/usr/bin/go"); err == nil {
		return "/usr/bin/go"
	}
	return "go"
}

func main() {
	// development aid (mutation smoke tests on a scratch worktree); registered commands never set it
	if v := os.Getenv("GOSYM_REPO_DIR"); v != "" {
		repoDir = v
	}
	specPath := flag.String("spec", "", "spec file")
	tier := flag.String("tier", "quick", "quick|thorough")
	only := flag.String("only", "", "run only this harness function")
	workers := flag.Int("workers", 14, "worker count")
	evidence := flag.String("evidence", "", "evidence output file")
	replay := flag.String("replay", "", "replay a recorded counterexample file natively")
	verbose := flag.Bool("v", false, "verbose")
	noNative := flag.Bool("no-native", false, "skip native replays (development only; result is then not registered)")
	qlog := flag.String("qlog", "", "log solver queries to this file")
	dump := flag.String("dump", "", "dump slow/unknown queries into this directory")
	flag.Parse()
	debug.SetGCPercent(400)
	os.Setenv("PATH", "/opt/veriftools/go1.26.8/bin:"+origPath)
	os.Setenv("GOTOOLCHAIN", "local")
	if e := os.Getenv("VERIF_TIER"); e != "" && !isFlagSet("tier") {
		*tier = e
	}
	seed := 0
	fmt.Sscan(os.Getenv("VERIF_SEED"), &seed)

	raw, err := os.ReadFile(*specPath)
	if err != nil {
		fatal(err)
	}
	var spec Spec
	if err := json.Unmarshal(raw, &spec); err != nil {
		fatal(fmt.Errorf("%s: %v", *specPath, err))
	}
	if *replay != "" {
		os.Exit(doReplay(&spec, *replay))
	}
	t0 := time.Now()
	r := &runner{spec: &spec, tier: *tier, workers: *workers, verbose: *verbose, seed: seed, noNative: *noNative, qlog: *qlog, dump: *dump}
	code := r.run(*only)
	r.writeEvidence(*evidence, time.Since(t0), code)
	os.Exit(code)
}

func isFlagSet(name string) bool {
	set := false
	flag.Visit(func(f *flag.Flag) {
		if f.Name == name {
			set = true
		}
	})
	return set
}

func fatal(err error) {
	fmt.Fprintln(os.Stderr, "gosym:", err)
	os.Exit(2)
}

type runner struct {
	spec       *Spec
	tier       string
	workers    int
	verbose    bool
	seed       int
	noNative   bool
	qlog, dump string

	prog     *ssa.Program
	pkgs     map[string]*ssa.Package // by repo-relative dir
	pkgName  map[string]string
	syntax   map[string][]*ast.File // by package path
	overlay  map[string][]byte
	loadTime time.Duration

	results    []*harnessResult
	solver     map[string]*smt.Stats
	goDropped  map[string]int
	initPoison int

	nativeRuns, nativeAgree int
	confirmed               []confirmedViolation
	known                   []string
	inconclusive            []string
	twinsOK                 []string
}

type confirmedViolation struct {
	Harness, Label, Replay string
}

func (r *runner) buildOverlay() (map[string][]byte, error) {
	ov := map[string][]byte{}
	addFile := func(virt, real string) error {
		b, err := os.ReadFile(real)
		if err != nil {
			return err
		}
		ov[filepath.Join(repoDir, virt)] = b
		return nil
	}
	if err := addFile("pkg/zzverif/zzverif.go", filepath.Join(verifDir, "harness/zzverif/zzverif.go")); err != nil {
		return nil, err
	}
	if r.spec.PerfStub {
		if err := addFile("pkg/koordlet/util/perf_group/perf_group_linux.go", filepath.Join(verifDir, "harness/common/perf_stub.go")); err != nil {
			return nil, err
		}
	}
	for virt, rel := range r.spec.Overlay {
		if err := addFile(virt, filepath.Join(verifDir, "harness", rel)); err != nil {
			return nil, err
		}
	}
	return ov, nil
}

func (r *runner) load() error {
	t0 := time.Now()
	ov, err := r.buildOverlay()
	if err != nil {
		return err
	}
	r.overlay = ov
	cfg := &packages.Config{
		Mode:    packages.LoadAllSyntax,
		Dir:     repoDir,
		Env:     goEnv(true),
		Overlay: ov,
	}
	pkgs, err := packages.Load(cfg, r.spec.Packages...)
	if err != nil {
		return err
	}
	nerr := 0
	packages.Visit(pkgs, nil, func(p *packages.Package) {
		for _, e := range p.Errors {
			if nerr < 20 {
				fmt.Fprintln(os.Stderr, "load:", e)
			}
			nerr++
		}
	})
	if nerr > 0 {
		return fmt.Errorf("%d package load errors (the tree does not type-check with the harness overlay)", nerr)
	}
	r.syntax = map[string][]*ast.File{}
	packages.Visit(pkgs, nil, func(p *packages.Package) {
		if strings.HasPrefix(p.PkgPath, "github.com/koordinator-sh/koordinator") {
			r.syntax[p.PkgPath] = p.Syntax
		}
	})
	prog, spkgs := ssautil.AllPackages(pkgs, ssa.InstantiateGenerics)
	prog.Build()
	r.prog = prog
	r.pkgs = map[string]*ssa.Package{}
	r.pkgName = map[string]string{}
	for i, p := range pkgs {
		rel := "./" + strings.TrimPrefix(strings.TrimPrefix(p.PkgPath, "github.com/koordinator-sh/koordinator"), "/")
		r.pkgs[rel] = spkgs[i]
		r.pkgName[rel] = p.Name
	}
	r.loadTime = time.Since(t0)
	return nil
}

func (r *runner) initPkgs() []string {
	return append(append([]string{}, r.spec.InitPkgs...), []string{"github.com/koordinator-sh/koordinator/", "fmt", "k8s.io/apimachinery/pkg/api/resource", "errors", "strconv", "unicode", "unicode/utf8", "sort", "math", "math/bits", "time", "k8s.io/api/core/v1", "k8s.io/apimachinery/pkg/util/sets", "k8s.io/apimachinery/pkg/util/intstr", "regexp", "regexp/syntax", "strings", "bytes", "io", "os", "syscall", "path/filepath", "reflect"}...)
}

func (r *runner) run(only string) int {
	if err := r.load(); err != nil {
		fmt.Fprintln(os.Stderr, "gosym: load failed:", err)
		fmt.Printf("INCONCLUSIVE property=%s reason=load-failed\n", r.spec.Property)
		return 2
	}
	fmt.Printf("[%s] loaded %d packages in %.1fs\n", r.spec.Property, len(r.prog.AllPackages()), r.loadTime.Seconds())
	r.solver = map[string]*smt.Stats{}
	r.goDropped = map[string]int{}
	for _, h := range r.spec.Harnesses {
		if only != "" && h.Func != only {
			continue
		}
		params, ok := h.Tiers[r.tier]
		if !ok {
			if h.Tiers != nil {
				continue
			}
			params = map[string]int64{}
		}
		res := r.explore(h, params)
		r.results = append(r.results, res)
	}
	return r.judge()
}

func (r *runner) explore(h HarnessSpec, params map[string]int64) *harnessResult {
	t0 := time.Now()
	res := &harnessResult{Spec: h, Params: params, Status: map[string]int{}, Reached: map[string]int{}, AssertsSeen: map[string]int{}, AssertsProved: map[string]int{}, Calls: map[string]int64{}, Inputs: map[string]*interp.InputDecl{}, Gates: map[string]bool{}}
	pkgDir := h.Pkg
	if pkgDir == "" {
		pkgDir = r.spec.Packages[0]
	}
	sp := r.pkgs[pkgDir]
	if sp == nil {
		res.Status["engine-error"]++
		res.Details = append(res.Details, "package not loaded: "+pkgDir)
		return res
	}
	fn := sp.Func(h.Func)
	if fn == nil {
		res.Status["engine-error"]++
		res.Details = append(res.Details, "no such harness function: "+h.Func)
		return res
	}
	gates := map[string]string{}
	for k, v := range r.spec.Gates {
		gates[k] = v
	}
	for k, v := range h.Gates {
		gates[k] = v
	}
	timeout := 30
	if t, ok := r.spec.SolverTimeoutS[r.tier]; ok {
		timeout = t
	}
	budget := time.Duration(h.TimeBudgetS) * time.Second
	if b := os.Getenv("GOSYM_BUDGET_S"); b != "" {
		var n int
		fmt.Sscan(b, &n)
		budget = time.Duration(n) * time.Second
	}
	maxPaths := h.MaxPaths
	if maxPaths == 0 {
		maxPaths = 200000
	}
	redirect := map[string]string{}
	for k, v := range r.spec.Redirect {
		redirect[k] = v
	}
	for k, v := range h.Redirect {
		redirect[k] = v
	}
	env := &interp.Env{Redirect: redirect, Params: params, Gates: gates, InitPkgs: r.initPkgs(), Verbose: r.verbose, NoMerge: h.NoMerge, Merge: append(append([]string{}, r.spec.Merge...), h.Merge...)}

	var mu sync.Mutex
	cond := sync.NewCond(&mu)
	queue := []interp.WorkItem{{}}
	busy := 0
	stop := false
	nw := r.workers
	var wg sync.WaitGroup
	var qlogf *os.File
	if r.qlog != "" {
		qlogf, _ = os.OpenFile(r.qlog, os.O_CREATE|os.O_APPEND|os.O_WRONLY, 0644)
		defer qlogf.Close()
	}
	for wi := 0; wi < nw; wi++ {
		wg.Add(1)
		go func(wi int) {
			defer wg.Done()
			var w *interp.Worker
			defer func() {
				if w != nil {
					mu.Lock()
					for k, s := range w.SolverStats() {
						a := r.solver[k]
						if a == nil {
							a = &smt.Stats{}
							r.solver[k] = a
						}
						a.Calls += s.Calls
						a.Sat += s.Sat
						a.Unsat += s.Unsat
						a.Unknown += s.Unknown
						a.Time += s.Time
						a.Restarts += s.Restarts
						if s.MaxTime > a.MaxTime {
							a.MaxTime = s.MaxTime
						}
					}
					for k, n := range w.GoDropped() {
						r.goDropped[k] += n
					}
					if w.InitPoison > r.initPoison {
						r.initPoison = w.InitPoison
					}
					mu.Unlock()
					w.Close()
				}
			}()
			for {
				mu.Lock()
				for len(queue) == 0 && busy > 0 && !stop {
					cond.Wait()
				}
				if stop || (len(queue) == 0 && busy == 0) {
					mu.Unlock()
					cond.Broadcast()
					return
				}
				item := queue[len(queue)-1]
				queue = queue[:len(queue)-1]
				busy++
				mu.Unlock()
				if w == nil {
					w = interp.NewWorker(r.prog, env, time.Duration(timeout)*time.Second, r.dump)
					if qlogf != nil {
						w.SetQueryLog(qlogf)
					}
				}
				pr := w.RunPath(fn, item)
				mu.Lock()
				busy--
				res.Paths++
				res.Branches += pr.Branches
				res.Status[pr.Status]++
				res.Instrs += pr.Instrs
				res.Merges += pr.Merges
				res.MergePaths += pr.MergePaths
				res.MergeAborts += pr.MergeAborts
				for k, n := range pr.MergeAbortWhy {
					if res.MergeAbortWhy == nil {
						res.MergeAbortWhy = map[string]int{}
					}
					res.MergeAbortWhy[k] += n
				}
				res.SolverUnknown += pr.SolverUnknown
				if len(pr.Decisions) > res.MaxDepth {
					res.MaxDepth = len(pr.Decisions)
				}
				if pr.Status != "ok" && pr.Status != "assume-false" && len(res.Details) < 8 {
					res.Details = append(res.Details, pr.Status+": "+pr.Detail)
				}
				for k, n := range pr.Reached {
					res.Reached[k] += n
				}
				for k, n := range pr.AssertsSeen {
					res.AssertsSeen[k] += n
				}
				for k, n := range pr.AssertsProved {
					res.AssertsProved[k] += n
				}
				for k, n := range pr.Calls {
					res.Calls[k] += n
				}
				for _, g := range pr.GatesUsed {
					res.Gates[g] = true
				}
				for _, d := range pr.Inputs {
					res.Inputs[d.Name] = d
				}
				res.Violations = append(res.Violations, pr.Violations...)
				if pr.Status == "ok" && pr.Witness != nil && len(pr.Violations) == 0 && len(res.Witnesses) < 64 {
					res.Witnesses = append(res.Witnesses, witness{Inputs: pr.Witness, Observes: pr.Observes, Reached: pr.Reached, NDec: len(pr.Decisions)})
				}
				queue = append(queue, pr.Alts...)
				if res.Paths >= maxPaths && len(queue) > 0 {
					res.Capped = true
					stop = true
				}
				if budget > 0 && time.Since(t0) > budget && len(queue) > 0 {
					res.Capped = true
					stop = true
					res.Details = append(res.Details, fmt.Sprintf("time budget of %v exhausted with %d paths done and %d queued", budget, res.Paths, len(queue)))
				}
				if r.verbose && res.Paths%50 == 0 {
					fmt.Printf("  [%s] paths=%d queue=%d viol=%d\n", h.Func, res.Paths, len(queue), len(res.Violations))
				}
				mu.Unlock()
				cond.Broadcast()
			}
		}(wi)
	}
	wg.Wait()
	res.Wall = time.Since(t0)
	return res
}

// ---- judging, replay, evidence ----------------------------------------------------

func loadKnown() []KnownFinding {
	var k []KnownFinding
	b, err := os.ReadFile(filepath.Join(verifDir, "known_findings.json"))
	if err != nil {
		return nil
	}
	var doc struct {
		Findings []KnownFinding `json:"findings"`
	}
	if json.Unmarshal(b, &doc) == nil {
		k = doc.Findings
	}
	return k
}

func (k *KnownFinding) matches(prop, harness, label string, inputs map[string]any) bool {
	if k.Status != "known" || k.Property != prop || k.Harness != harness {
		return false
	}
	if k.Label != "" && !strings.HasPrefix(label, k.Label) {
		return false
	}
	for name, re := range k.Match {
		v, ok := inputs[name]
		if !ok {
			return false
		}
		if m, _ := regexp.MatchString("^(?:"+re+")$", fmt.Sprint(v)); !m {
			return false
		}
	}
	return true
}

func labelKey(s string) string {
	h := sha1.Sum([]byte(s))
	return fmt.Sprintf("%x", h[:5])
}

type replayCase struct {
	Func   string            `json:"func"`
	Pkg    string            `json:"pkg"`
	Inputs map[string]any    `json:"inputs"`
	Params map[string]int64  `json:"params"`
	Gates  map[string]string `json:"gates,omitempty"`
	// expectation (informational in the file; used by the driver)
	Label    string `json:"label,omitempty"`
	Kind     string `json:"kind,omitempty"`
	Property string `json:"property,omitempty"`
	Spec     string `json:"spec,omitempty"`
}

type nativeOutcome struct {
	Failed      map[string]bool
	Panic       string
	Reached     map[string]int
	Observes    map[string]string
	AssumeFalse bool
	Ran         bool
	Raw         string
}

// runNative runs the given cases through `go test -overlay` (one invocation per package).
func (r *runner) runNative(cases []replayCase) ([]nativeOutcome, error) {
	out := make([]nativeOutcome, len(cases))
	byPkg := map[string][]int{}
	for i, c := range cases {
		byPkg[c.Pkg] = append(byPkg[c.Pkg], i)
	}
	tmp, err := os.MkdirTemp("", "gosym-replay-")
	if err != nil {
		return nil, err
	}
	defer os.RemoveAll(tmp)
	// overlay file: real files for every virtual path
	repl := map[string]string{}
	n := 0
	for virt, content := range r.overlay {
		n++
		p := filepath.Join(tmp, fmt.Sprintf("ov%d_%s", n, filepath.Base(virt)))
		if err := os.WriteFile(p, content, 0644); err != nil {
			return nil, err
		}
		repl[virt] = p
	}
	if err := r.nativeRedirects(tmp, repl); err != nil {
		return nil, err
	}
	for pkg := range byPkg {
		// collect harness functions of this package
		var names []string
		seen := map[string]bool{}
		for _, h := range r.spec.Harnesses {
			hp := h.Pkg
			if hp == "" {
				hp = r.spec.Packages[0]
			}
			if hp == pkg && !seen[h.Func] {
				seen[h.Func] = true
				names = append(names, h.Func)
			}
		}
		sort.Strings(names)
		var sb strings.Builder
		fmt.Fprintf(&sb, "package %s\n\nimport (\n\t\"testing\"\n\n\t\"github.com/koordinator-sh/koordinator/pkg/zzverif\"\n)\n\nfunc TestZzvReplay(t *testing.T) {\n\tzzverif.RunCases(t, map[string]func(){\n", r.pkgName[pkg])
		for _, nme := range names {
			fmt.Fprintf(&sb, "\t\t%q: %s,\n", nme, nme)
		}
		sb.WriteString("\t})\n}\n")
		p := filepath.Join(tmp, "replay_"+labelKey(pkg)+"_test.go")
		os.WriteFile(p, []byte(sb.String()), 0644)
		repl[filepath.Join(repoDir, pkg, "zz_verif_replay_test.go")] = p
	}
	ovb, _ := json.Marshal(map[string]any{"Replace": repl})
	ovPath := filepath.Join(tmp, "overlay.json")
	os.WriteFile(ovPath, ovb, 0644)
	for pkg, idxs := range byPkg {
		var cs []replayCase
		for _, i := range idxs {
			cs = append(cs, cases[i])
		}
		cb, _ := json.Marshal(cs)
		casePath := filepath.Join(tmp, "cases_"+labelKey(pkg)+".json")
		os.WriteFile(casePath, cb, 0644)
		cmd := exec.Command(nativeGo(), "test", "-vet=off", "-count=1", "-overlay", ovPath, "-run", "^TestZzvReplay$", "-v", "-timeout", "20m", pkg)
		cmd.Dir = repoDir
		cmd.Env = append(goEnv(false), "ZZV_CASES="+casePath)
		b, _ := cmd.CombinedOutput()
		text := string(b)
		// split per case
		parts := strings.Split(text, "ZZV-CASE-BEGIN ")
		got := map[int]string{}
		for _, part := range parts[1:] {
			var k int
			fmt.Sscan(part, &k)
			got[k] = part
		}
		for k, i := range idxs {
			o := nativeOutcome{Failed: map[string]bool{}, Reached: map[string]int{}, Observes: map[string]string{}}
			part, ok := got[k]
			if !ok {
				o.Raw = tail(text, 3000)
				out[i] = o
				continue
			}
			o.Ran = strings.Contains(part, "ZZV-CASE-END")
			o.Raw = tail(part, 3000)
			for _, line := range strings.Split(part, "\n") {
				line = strings.TrimSpace(line)
				switch {
				case strings.HasPrefix(line, "ZZV-ASSERT-FAILED "):
					o.Failed[strings.TrimPrefix(line, "ZZV-ASSERT-FAILED ")] = true
				case strings.HasPrefix(line, "ZZV-PANIC "):
					o.Panic = strings.TrimPrefix(line, "ZZV-PANIC ")
				case strings.HasPrefix(line, "ZZV-REACH "):
					o.Reached[strings.TrimPrefix(line, "ZZV-REACH ")]++
				case strings.HasPrefix(line, "ZZV-ASSUME-FALSE"):
					o.AssumeFalse = true
				case strings.HasPrefix(line, "ZZV-OBSERVE "):
					kv := strings.SplitN(strings.TrimPrefix(line, "ZZV-OBSERVE "), "=", 2)
					if len(kv) == 2 {
						o.Observes[kv[0]] = kv[1]
					}
				}
			}
			out[i] = o
		}
	}
	return out, nil
}

// nativeRedirects makes spec-level redirects whose replacement lives in the package of the replaced
// function effective in the native replay too: the replaced declaration is renamed (suffix _zzvorig) in
// an overlay copy of its source file and a forwarder with the original signature calls the replacement.
// (Cross-package replacements stay engine-only; the harness has to be written so that the real function
// is observably equivalent there.)
func (r *runner) nativeRedirects(tmp string, repl map[string]string) error {
	for from, to := range r.spec.Redirect {
		dot := strings.LastIndex(to, ".")
		if dot < 0 {
			continue
		}
		toPkg, toName := to[:dot], to[dot+1:]
		recv, name := "", ""
		rest := from
		if strings.HasPrefix(from, "(") {
			end := strings.Index(from, ").")
			if end < 0 {
				continue
			}
			rt := strings.TrimPrefix(from[1:end], "*")
			d := strings.LastIndex(rt, ".")
			if d < 0 || rt[:d] != toPkg {
				continue
			}
			recv, name = rt[d+1:], from[end+2:]
		} else {
			d := strings.LastIndex(rest, ".")
			if d < 0 || rest[:d] != toPkg {
				continue
			}
			name = rest[d+1:]
		}
		done := false
		files, fset := r.syntax[toPkg], (*token.FileSet)(nil)
		if r.prog != nil {
			fset = r.prog.Fset
		}
		if len(files) == 0 {
			// replay mode: the program is not loaded, parse the package directory
			fset = token.NewFileSet()
			dir := filepath.Join(repoDir, strings.TrimPrefix(strings.TrimPrefix(toPkg, "github.com/koordinator-sh/koordinator"), "/"))
			ents, _ := os.ReadDir(dir)
			for _, e := range ents {
				if e.IsDir() || !strings.HasSuffix(e.Name(), ".go") || strings.HasSuffix(e.Name(), "_test.go") {
					continue
				}
				fp := filepath.Join(dir, e.Name())
				var src any
				if b, ok := r.overlay[fp]; ok {
					src = b
				}
				if af, err := parser.ParseFile(fset, fp, src, parser.SkipObjectResolution); err == nil {
					files = append(files, af)
				}
			}
		}
		for _, f := range files {
			for _, d := range f.Decls {
				fd, ok := d.(*ast.FuncDecl)
				if !ok || fd.Name.Name != name || fd.Body == nil {
					continue
				}
				rname := ""
				if recv != "" {
					if fd.Recv == nil || len(fd.Recv.List) != 1 {
						continue
					}
					te := fd.Recv.List[0].Type
					if st, ok := te.(*ast.StarExpr); ok {
						te = st.X
					}
					if id, ok := te.(*ast.Ident); !ok || id.Name != recv {
						continue
					}
					if len(fd.Recv.List[0].Names) != 1 || fd.Recv.List[0].Names[0].Name == "_" {
						return fmt.Errorf("native redirect of %s: unnamed receiver", from)
					}
					rname = fd.Recv.List[0].Names[0].Name
				} else if fd.Recv != nil {
					continue
				}
				tf := fset.File(fd.Pos())
				path := tf.Name()
				src, ok := r.overlay[path]
				if !ok {
					b, err := os.ReadFile(path)
					if err != nil {
						return err
					}
					src = b
				}
				if prev, ok := repl[path]; ok {
					b, err := os.ReadFile(prev)
					if err != nil {
						return err
					}
					if !bytes.Equal(b, src) {
						return fmt.Errorf("native redirect of %s: two redirects in one file are not supported", from)
					}
				}
				var args []string
				if rname != "" {
					args = append(args, rname)
				}
				for _, fl := range fd.Type.Params.List {
					if len(fl.Names) == 0 {
						return fmt.Errorf("native redirect of %s: unnamed parameter", from)
					}
					for _, nm := range fl.Names {
						if nm.Name == "_" {
							return fmt.Errorf("native redirect of %s: blank parameter", from)
						}
						a := nm.Name
						if _, ok := fl.Type.(*ast.Ellipsis); ok {
							a += "..."
						}
						args = append(args, a)
					}
				}
				nameEnd := tf.Offset(fd.Name.End())
				sig := string(src[tf.Offset(fd.Pos()):tf.Offset(fd.Body.Lbrace)])
				ret := "return "
				if fd.Type.Results == nil || len(fd.Type.Results.List) == 0 {
					ret = ""
				}
				out := string(src[:nameEnd]) + "_zzvorig" + string(src[nameEnd:]) + "\n\n// native-replay forwarder generated by gosym (spec redirect)\n" + sig + "{ " + ret + toName + "(" + strings.Join(args, ", ") + ") }\n"
				np := filepath.Join(tmp, "redir_"+labelKey(from)+"_"+filepath.Base(path))
				if err := os.WriteFile(np, []byte(out), 0644); err != nil {
					return err
				}
				repl[path] = np
				done = true
			}
		}
		if !done {
			return fmt.Errorf("native redirect of %s: declaration not found", from)
		}
	}
	return nil
}

func tail(s string, n int) string {
	if len(s) > n {
		return s[len(s)-n:]
	}
	return s
}

func panicMatches(native, engine string) bool {
	norm := func(s string) string {
		s = strings.TrimPrefix(s, "panic: ")
		s = strings.TrimPrefix(s, "runtime error: ")
		return s
	}
	a, b := norm(native), norm(engine)
	if strings.Contains(a, "divide by zero") && strings.Contains(b, "divide by zero") {
		return true
	}
	if strings.Contains(a, "index out of range") && strings.Contains(b, "index out of range") {
		return true
	}
	if strings.Contains(a, "nil pointer") && strings.Contains(b, "nil pointer") {
		return true
	}
	if strings.Contains(a, "nil map") && strings.Contains(b, "nil map") {
		return true
	}
	return a != "" && (strings.Contains(a, b) || strings.Contains(b, a))
}

func (r *runner) judge() int {
	prop := r.spec.Property
	known := loadKnown()
	exit := 0
	inconclusive := func(msg string) {
		r.inconclusive = append(r.inconclusive, msg)
		fmt.Printf("INCONCLUSIVE property=%s %s\n", prop, msg)
		if exit == 0 {
			exit = 2
		}
	}
	// 1. collect candidate violations (one per harness+label, up to 2 models each) and witnesses
	type cand struct {
		res *harnessResult
		v   interp.Violation
	}
	var cands []cand
	var cases []replayCase
	type caseRef struct {
		kind string // "violation" | "witness"
		ci   int
		res  *harnessResult
		wi   int
	}
	var refs []caseRef
	for _, res := range r.results {
		pkg := res.Spec.Pkg
		if pkg == "" {
			pkg = r.spec.Packages[0]
		}
		gates := map[string]string{}
		for k, v := range r.spec.Gates {
			gates[k] = v
		}
		for k, v := range res.Spec.Gates {
			gates[k] = v
		}
		per := map[string]int{}
		for _, v := range res.Violations {
			if per[v.Label] >= 2 {
				continue
			}
			per[v.Label]++
			cands = append(cands, cand{res, v})
			if r.verbose {
				fmt.Printf("  candidate %s label=%q inputs=%s %s\n", res.Spec.Func, v.Label, compactJSON(v.Inputs), v.Detail)
			}
			cases = append(cases, replayCase{Func: res.Spec.Func, Pkg: pkg, Inputs: v.Inputs, Params: res.Params, Gates: gates, Label: v.Label, Kind: v.Kind, Property: prop})
			refs = append(refs, caseRef{kind: "violation", ci: len(cands) - 1, res: res})
		}
		nval := res.Spec.Validate
		if nval == 0 {
			nval = 1
		}
		if r.tier == "thorough" {
			nval *= 3
		}
		// choose witnesses spread over the list, deepest first
		ws := append([]witness(nil), res.Witnesses...)
		sort.SliceStable(ws, func(i, j int) bool { return ws[i].NDec > ws[j].NDec })
		for wi := 0; wi < len(ws) && wi < nval; wi++ {
			cases = append(cases, replayCase{Func: res.Spec.Func, Pkg: pkg, Inputs: ws[wi].Inputs, Params: res.Params, Gates: gates, Property: prop})
			refs = append(refs, caseRef{kind: "witness", res: res, wi: wi})
		}
		res.Witnesses = ws
	}
	var outs []nativeOutcome
	if !r.noNative && len(cases) > 0 {
		var err error
		t0 := time.Now()
		outs, err = r.runNative(cases)
		if err != nil {
			inconclusive("native replay failed: " + err.Error())
		}
		fmt.Printf("[%s] native replay of %d cases in %.1fs\n", prop, len(cases), time.Since(t0).Seconds())
	}
	confirmedBy := map[string]bool{} // harness|label confirmed
	refuted := map[string]string{}
	if outs != nil {
		for i, ref := range refs {
			o := outs[i]
			c := cases[i]
			r.nativeRuns++
			switch ref.kind {
			case "violation":
				key := c.Func + "|" + c.Label
				ok := false
				if c.Kind == "panic" {
					ok = o.Panic != "" && panicMatches(o.Panic, c.Label)
				} else {
					ok = o.Failed[c.Label]
				}
				if ok {
					r.nativeAgree++
					if !confirmedBy[key] {
						confirmedBy[key] = true
						// persist the replay file
						dir := filepath.Join(verifDir, "out", "replays", prop)
						os.MkdirAll(dir, 0755)
						c.Spec = filepath.Join("harness", prop, "spec.json")
						b, _ := json.MarshalIndent(c, "", " ")
						path := filepath.Join(dir, c.Func+"-"+labelKey(c.Label)+".json")
						os.WriteFile(path, b, 0644)
						r.confirmed = append(r.confirmed, confirmedViolation{c.Func, c.Label, path})
					}
				} else if !confirmedBy[key] {
					refuted[key] = tail(o.Raw, 600)
				}
			case "witness":
				w := ref.res.Witnesses[ref.wi]
				agree := o.Ran && o.Panic == "" && len(o.Failed) == 0 && !o.AssumeFalse
				for k, v := range w.Observes {
					if o.Observes[k] != v {
						agree = false
					}
				}
				for k := range w.Reached {
					if o.Reached[k] == 0 {
						agree = false
					}
				}
				if agree {
					r.nativeAgree++
				} else if ref.res.Spec.Kind != "twin" {
					inconclusive(fmt.Sprintf("harness=%s encoder validation mismatch: native run of a witness path disagrees (inputs %v; engine observes %v reach %v; native observes %v reach %v failed %v panic %q ran=%v)\n%s", c.Func, c.Inputs, w.Observes, w.Reached, o.Observes, o.Reached, o.Failed, o.Panic, o.Ran, tail(o.Raw, 400)))
				}
			}
		}
	}
	// 2. per harness verdicts
	for _, res := range r.results {
		h := res.Spec
		isTwin := h.Kind == "twin"
		for st, n := range res.Status {
			switch st {
			case "ok", "assume-false":
			default:
				if !isTwin {
					inconclusive(fmt.Sprintf("harness=%s %d path(s) ended with %s: %s", h.Func, n, st, strings.Join(res.Details, " | ")))
				}
			}
		}
		if res.Capped && !isTwin {
			inconclusive(fmt.Sprintf("harness=%s path cap reached (%d paths)", h.Func, res.Paths))
		}
		if res.Reached["end"] == 0 && !isTwin {
			inconclusive(fmt.Sprintf("harness=%s vacuous: Reach(\"end\") was never executed on a feasible path", h.Func))
		}
		// coverage witnesses the spec insists on (situations an assertion is conditional on)
		for _, l := range h.MustReach {
			if res.Reached[l] == 0 && !isTwin {
				inconclusive(fmt.Sprintf("harness=%s vacuous: required situation %q was never reached on a feasible path", h.Func, l))
			}
		}
		labels := map[string]bool{}
		for _, v := range res.Violations {
			labels[v.Label] = true
		}
		var ls []string
		for l := range labels {
			ls = append(ls, l)
		}
		sort.Strings(ls)
		if isTwin {
			ok := false
			for _, l := range ls {
				if confirmedBy[h.Func+"|"+l] || (r.noNative && len(ls) > 0) {
					ok = true
				}
			}
			if ok {
				r.twinsOK = append(r.twinsOK, h.Func)
			} else {
				inconclusive(fmt.Sprintf("harness=%s must-fail twin was NOT reported as violated (labels seen: %v; refuted: %v)", h.Func, ls, refuted))
			}
			continue
		}
		for _, l := range ls {
			key := h.Func + "|" + l
			if r.noNative {
				fmt.Printf("CANDIDATE property=%s harness=%s label=%q (native replay skipped)\n", prop, h.Func, l)
				if exit == 0 {
					exit = 2
				}
				continue
			}
			if !confirmedBy[key] {
				inconclusive(fmt.Sprintf("harness=%s label=%q solver model did not reproduce natively (engine/stub modelling error?): %s", h.Func, l, refuted[key]))
				continue
			}
			// known finding?
			var inputs map[string]any
			for _, v := range res.Violations {
				if v.Label == l {
					inputs = v.Inputs
					break
				}
			}
			matched := false
			for i := range known {
				if known[i].matches(prop, h.Func, l, inputs) {
					matched = true
					msg := fmt.Sprintf("KNOWN-FINDING: property=%s harness=%s label=%q %s", prop, h.Func, l, known[i].What)
					fmt.Println(msg)
					r.known = append(r.known, msg)
					break
				}
			}
			if !matched {
				for _, cv := range r.confirmed {
					if cv.Harness == h.Func && cv.Label == l {
						fmt.Printf("VIOLATION property=%s replay=%s harness=%s label=%q inputs=%s\n", prop, cv.Replay, h.Func, l, compactJSON(inputs))
					}
				}
				exit = 1
			}
		}
	}
	// summary
	for _, res := range r.results {
		fmt.Printf("[%s] %-40s paths=%d branches=%d asserts=%d/%d status=%v viol=%d merges=%d wall=%.1fs\n", prop, res.Spec.Func, res.Paths, res.Branches, sum(res.AssertsProved), sum(res.AssertsSeen), res.Status, len(res.Violations), res.Merges, res.Wall.Seconds())
	}
	if r.verbose {
		for _, res := range r.results {
			for k, n := range res.MergeAbortWhy {
				fmt.Printf("  merge fallback x%d: %s\n", n, k)
			}
		}
	}
	for k, s := range r.solver {
		fmt.Printf("[%s] solver %-8s calls=%d sat=%d unsat=%d unknown=%d time=%.1fs max=%.2fs restarts=%d\n", prop, k, s.Calls, s.Sat, s.Unsat, s.Unknown, s.Time.Seconds(), s.MaxTime.Seconds(), s.Restarts)
	}
	if exit == 0 {
		fmt.Printf("PASS property=%s tier=%s\n", prop, r.tier)
	}
	return exit
}

func sum(m map[string]int) int {
	n := 0
	for _, v := range m {
		n += v
	}
	return n
}

func compactJSON(v any) string {
	b, _ := json.Marshal(v)
	return string(b)
}

func doReplay(spec *Spec, path string) int {
	b, err := os.ReadFile(path)
	if err != nil {
		fatal(err)
	}
	var c replayCase
	if err := json.Unmarshal(b, &c); err != nil {
		fatal(err)
	}
	r := &runner{spec: spec}
	ov, err := r.buildOverlay()
	if err != nil {
		fatal(err)
	}
	r.overlay = ov
	// package names are needed for the generated test file: derive via go list
	r.pkgName = map[string]string{}
	cmd := exec.Command(nativeGo(), "list", "-f", "{{.Name}}", c.Pkg)
	cmd.Dir = repoDir
	cmd.Env = goEnv(false)
	nb, err := cmd.Output()
	if err != nil {
		fatal(fmt.Errorf("go list %s: %v", c.Pkg, err))
	}
	r.pkgName[c.Pkg] = strings.TrimSpace(string(nb))
	outs, err := r.runNative([]replayCase{c})
	if err != nil {
		fatal(err)
	}
	o := outs[0]
	fmt.Println(o.Raw)
	bad := false
	if c.Kind == "panic" {
		bad = o.Panic != ""
	} else {
		bad = o.Failed[c.Label] || len(o.Failed) > 0
	}
	if bad {
		fmt.Printf("VIOLATION property=%s replay=%s (reproduced natively: label=%q)\n", c.Property, path, c.Label)
		return 1
	}
	fmt.Printf("replay did not reproduce a violation on the current tree\n")
	return 0
}

func (r *runner) writeEvidence(path string, wall time.Duration, code int) {
	if path == "" {
		return
	}
	states, transitions := 0, 0
	var samples []any
	funcs := map[string]int64{}
	var harnessSummaries []any
	assertsSeen, assertsProved := 0, 0
	for _, res := range r.results {
		states += res.Paths
		transitions += res.Branches
		assertsSeen += sum(res.AssertsSeen)
		assertsProved += sum(res.AssertsProved)
		for k, n := range res.Calls {
			funcs[k] += n
		}
		for i, w := range res.Witnesses {
			if i < 2 {
				samples = append(samples, map[string]any{"harness": res.Spec.Func, "path_inputs": w.Inputs, "observed": w.Observes, "symbolic_decisions": w.NDec})
			}
		}
		var inputs []string
		for _, d := range res.Inputs {
			if d.Kind == "float64" {
				inputs = append(inputs, fmt.Sprintf("%s:%s[%g,%g]", d.Name, d.Kind, d.FLo, d.FHi))
			} else {
				inputs = append(inputs, fmt.Sprintf("%s:%s[%d,%d]", d.Name, d.Kind, d.Lo, d.Hi))
			}
		}
		sort.Strings(inputs)
		var labels []string
		for l, n := range res.AssertsSeen {
			labels = append(labels, fmt.Sprintf("%s: %d/%d", l, res.AssertsProved[l], n))
		}
		sort.Strings(labels)
		var gates []string
		for g := range res.Gates {
			gates = append(gates, g)
		}
		sort.Strings(gates)
		harnessSummaries = append(harnessSummaries, map[string]any{
			"harness": res.Spec.Func, "kind": orDefault(res.Spec.Kind, "check"), "desc": res.Spec.Desc, "params": res.Params, "bounds": res.Spec.Bounds,
			"paths": res.Paths, "symbolic_branch_decisions": res.Branches, "path_status": res.Status, "max_decision_depth": res.MaxDepth,
			"symbolic_inputs": inputs, "assertions_proved_over_checked": labels, "reach": res.Reached, "ssa_instructions_executed": res.Instrs,
			"merged_calls": res.Merges, "merged_callee_paths": res.MergePaths, "merge_fallbacks": res.MergeAborts, "gates_consulted": gates,
			"candidate_violations": len(res.Violations), "wall_s": round1(res.Wall.Seconds()), "path_cap_hit": res.Capped,
		})
	}
	var fnames []string
	for k := range funcs {
		fnames = append(fnames, k)
	}
	sort.Slice(fnames, func(i, j int) bool { return funcs[fnames[i]] > funcs[fnames[j]] })
	var fenc []string
	for i, k := range fnames {
		if i < 80 {
			fenc = append(fenc, fmt.Sprintf("%s ×%d", k, funcs[k]))
		}
	}
	queries := map[string]any{}
	solverTime := 0.0
	for k, s := range r.solver {
		queries[k] = map[string]any{"calls": s.Calls, "sat": s.Sat, "unsat": s.Unsat, "unknown": s.Unknown, "time_s": round1(s.Time.Seconds()), "max_s": round1(s.MaxTime.Seconds())}
		solverTime += s.Time.Seconds()
	}
	var dropped []string
	for k, n := range r.goDropped {
		dropped = append(dropped, fmt.Sprintf("%s ×%d", k, n))
	}
	sort.Strings(dropped)
	if len(samples) == 0 {
		samples = append(samples, map[string]any{"note": "no completed path"})
	}
	if states == 0 {
		states = 0
	}
	assumptions := append([]string{}, r.spec.Assumptions...)
	for _, s := range r.spec.Stubs {
		assumptions = append(assumptions, "stub: "+s)
	}
	for _, s := range r.spec.Outside {
		assumptions = append(assumptions, "outside the claim: "+s)
	}
	assumptions = append(assumptions,
		"engine: own go/ssa symbolic executor (fork of x/tools go/ssa/interp); SSA rebuilt from /repo's working tree on this run",
		"environment stubs: klog/prometheus/component-base metrics/event recorders return zero values; sync mutexes and atomics are sequential; time.Now is the harness clock; maps iterate in insertion order; go statements are not run (listed under go_statements_dropped)",
		"verdicts hold for every value of the symbolic inputs inside the declared ranges and for the concrete shapes of the harness; nothing is claimed outside them")
	viol := 0
	if code == 1 {
		viol = len(r.confirmed)
	}
	ev := map[string]any{
		"property_id": r.spec.Property,
		"tier":        r.tier,
		"seed":        r.seed,
		"level":       "model_checking",
		"coverage": map[string]any{
			"states":                        max1(states),
			"transitions":                   max1(transitions),
			"traces_validated_against_impl": r.nativeAgree,
			"native_replays_run":            r.nativeRuns,
			"samples":                       samples,
			"harnesses":                     harnessSummaries,
			"functions_encoded":             fenc,
			"functions_encoded_count":       len(fnames),
			"assertion_checks_discharged":   assertsProved,
			"assertion_checks_total":        assertsSeen,
			"queries":                       queries,
			"solver_time_s":                 round1(solverTime),
			"must_fail_twins_violated":      r.twinsOK,
			"known_findings_reported":       r.known,
			"inconclusive":                  r.inconclusive,
			"go_statements_dropped":         dropped,
			"package_init_calls_poisoned":   r.initPoison,
			"packages_loaded":               len(r.prog.AllPackages()),
			"load_and_ssa_build_s":          round1(r.loadTime.Seconds()),
			"exit_code":                     code,
			"explanation":                   "states = feasible paths completed by the symbolic executor; transitions = symbolic branch decisions taken on them; every assertion on every path was discharged by an SMT query (unsat = holds for all inputs in range) or produced a model that was replayed natively",
		},
		"assumptions": assumptions,
		"wall_s":      round1(wall.Seconds()),
		"violations":  viol,
	}
	b, _ := json.MarshalIndent(ev, "", " ")
	os.MkdirAll(filepath.Dir(path), 0755)
	os.WriteFile(path, b, 0644)
}

func orDefault(s, d string) string {
	if s == "" {
		return d
	}
	return s
}
func round1(f float64) float64 { return float64(int(f*10+0.5)) / 10 }
func max1(n int) int {
	if n < 1 {
		return 1
	}
	return n
}
