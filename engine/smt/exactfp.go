package smt

import "math"

// Exact dyadic translation of floating-point computations.
//
// A float64 computation built from integer-to-float conversions, dyadic constants, +, -, *, negation,
// abs, min/max, ite and division by a power of two computes, as long as every intermediate value
// n/2^s has |n| < 2^53, exactly the rational value it denotes: the exact result of each IEEE operation is
// representable, so round-to-nearest returns it unchanged. Such a computation is rewritten into 64-bit
// integer arithmetic on the numerator n with a static scale s; comparisons, float->int conversions and
// roundings of it become integer comparisons and divisions by 2^s. The side conditions are discharged by
// the interval analysis over the declared input ranges; when one cannot be shown the rewrite does not
// apply and the float term is kept (and decided by the float back ends or abstracted).

type dyadic struct {
	n *Term // signed 64-bit numerator
	s int   // value = n / 2^s
}

const dyLim = float64(1 << 53)

func (ia *Intervals) dy(t *Term, memo map[uint64]*dyadic) *dyadic {
	if d, ok := memo[t.ID]; ok {
		return d
	}
	d := ia.dy1(t, memo)
	if d != nil {
		// |n| < 2^52 for every value the numerator can take (so the value n/2^s is a float64 and the
		// 64-bit integer arithmetic on n cannot wrap)
		iv := ia.Of(d.n)
		if !iv.OK || d.s > 40 {
			d = nil
		} else if m := math.Max(math.Abs(iv.Lo), math.Abs(iv.Hi)); !(m < dyLim/2) {
			d = nil
		}
	}
	memo[t.ID] = d
	return d
}

// smallNum: the (aligned) numerator stays below 2^52 in magnitude.
func (ia *Intervals) smallNum(n *Term) bool {
	iv := ia.Of(n)
	return iv.OK && math.Max(math.Abs(iv.Lo), math.Abs(iv.Hi)) < dyLim/2
}

func shl(n *Term, k int) *Term {
	if k == 0 {
		return n
	}
	return Mul(n, BVS(int64(1)<<uint(k), 64))
}

func (ia *Intervals) align(a, b *dyadic) (*Term, *Term, int) {
	s := a.s
	if b.s > s {
		s = b.s
	}
	return shl(a.n, s-a.s), shl(b.n, s-b.s), s
}

func (ia *Intervals) dy1(t *Term, memo map[uint64]*dyadic) *dyadic {
	if t.W != FP64 {
		return nil
	}
	switch t.Op {
	case OConst:
		f := t.Float()
		if math.IsNaN(f) || math.IsInf(f, 0) {
			return nil
		}
		for s := 0; s <= 40; s++ {
			v := math.Ldexp(f, s)
			if v == math.Trunc(v) && math.Abs(v) < dyLim {
				return &dyadic{BVS(int64(v), 64), s}
			}
		}
		return nil
	case OFFromS:
		x := t.A[0]
		iv := ia.Of(x)
		if !iv.OK || iv.Lo <= -dyLim || iv.Hi >= dyLim {
			return nil
		}
		if x.W < 64 {
			x = Sext(x, 64)
		}
		return &dyadic{x, 0}
	case OFFromU:
		x := t.A[0]
		iv := ia.Of(x)
		if !iv.OK || iv.Lo < 0 || iv.Hi >= dyLim {
			return nil
		}
		if x.W < 64 {
			x = Zext(x, 64)
		}
		return &dyadic{x, 0}
	case OFNeg:
		if a := ia.dy(t.A[0], memo); a != nil {
			return &dyadic{Neg(a.n), a.s}
		}
	case OFAbs:
		if a := ia.dy(t.A[0], memo); a != nil {
			return &dyadic{Ite(Slt(a.n, BVS(0, 64)), Neg(a.n), a.n), a.s}
		}
	case OFAdd, OFSub, OFMax, OFMin:
		a, b := ia.dy(t.A[0], memo), ia.dy(t.A[1], memo)
		if a == nil || b == nil {
			return nil
		}
		x, y, s := ia.align(a, b)
		// the aligned operands must stay below 2^53 as well (checked through their own
		// intervals at the larger scale)
		if !ia.smallNum(x) || !ia.smallNum(y) {
			return nil
		}
		switch t.Op {
		case OFAdd:
			return &dyadic{Add(x, y), s}
		case OFSub:
			return &dyadic{Sub(x, y), s}
		case OFMax:
			return &dyadic{Ite(Slt(x, y), y, x), s}
		default:
			return &dyadic{Ite(Slt(y, x), y, x), s}
		}
	case OFMul:
		a, b := ia.dy(t.A[0], memo), ia.dy(t.A[1], memo)
		if a == nil || b == nil {
			return nil
		}
		return &dyadic{Mul(a.n, b.n), a.s + b.s}
	case OFDiv:
		a := ia.dy(t.A[0], memo)
		if a == nil || !t.A[1].IsConst() {
			return nil
		}
		c := t.A[1].Float()
		fr, e := math.Frexp(math.Abs(c)) // |c| = fr * 2^e, fr in [0.5,1)
		if c == 0 || math.IsNaN(c) || math.IsInf(c, 0) || fr != 0.5 {
			return nil
		}
		j := e - 1 // |c| = 2^j
		n := a.n
		if c < 0 {
			n = Neg(n)
		}
		if j >= 0 {
			return &dyadic{n, a.s + j}
		}
		if a.s+j >= 0 {
			return &dyadic{n, a.s + j}
		}
		return &dyadic{shl(n, -(a.s + j)), 0}
	case OIte:
		c := ia.exactCond(t.A[0])
		if c == nil {
			return nil
		}
		if c.IsConst() {
			if c.IsTrue() {
				return ia.dy(t.A[1], memo)
			}
			return ia.dy(t.A[2], memo)
		}
		a, b := ia.dy(t.A[1], memo), ia.dy(t.A[2], memo)
		if a == nil || b == nil {
			return nil
		}
		x, y, s := ia.align(a, b)
		_ = s
		if !ia.smallNum(x) || !ia.smallNum(y) {
			return nil
		}
		return &dyadic{Ite(c, x, y), s}
	}
	return nil
}

// exactCond rewrites the float comparisons inside a Boolean term (the conditions of math.Max/Min and of
// merged branches); nil when one of them is not an exact dyadic comparison.
func (ia *Intervals) exactCond(c *Term) *Term {
	if !c.HasFP() {
		return c
	}
	switch c.Op {
	case OFLt, OFLe, OFEq, OFIsNaN, OFIsInf:
		return ia.ExactFP(c)
	case OBNot:
		if x := ia.exactCond(c.A[0]); x != nil {
			return Not(x)
		}
	case OBAnd, OBOr:
		x, y := ia.exactCond(c.A[0]), ia.exactCond(c.A[1])
		if x == nil || y == nil {
			return nil
		}
		if c.Op == OBAnd {
			return And(x, y)
		}
		return Or(x, y)
	case OIte:
		if c.W == Bool {
			k, x, y := ia.exactCond(c.A[0]), ia.exactCond(c.A[1]), ia.exactCond(c.A[2])
			if k != nil && x != nil && y != nil {
				return Ite(k, x, y)
			}
		}
	}
	return nil
}

// ExactFP returns an integer-arithmetic term equal to the float->non-float term root (a comparison, a
// NaN/Inf test or a conversion to an integer) when its float operands are exact dyadic computations, and
// nil otherwise.
func (ia *Intervals) ExactFP(root *Term) *Term {
	memo := map[uint64]*dyadic{}
	switch root.Op {
	case OFLt, OFLe, OFEq:
		a, b := ia.dy(root.A[0], memo), ia.dy(root.A[1], memo)
		if (a == nil) != (b == nil) {
			// an exact dyadic value n/2^s against an arbitrary finite constant c: compare n with c*2^s,
			// rounded to the integer on the correct side (n is an integer, the scaling by 2^s is exact)
			if q := ia.cmpConst(root, a, b); q != nil {
				return q
			}
		}
		if a == nil || b == nil {
			return nil
		}
		x, y, s := ia.align(a, b)
		_ = s
		if !ia.smallNum(x) || !ia.smallNum(y) {
			return nil
		}
		switch root.Op {
		case OFLt:
			return Slt(x, y)
		case OFLe:
			return Sle(x, y)
		}
		return Eq(x, y)
	case OFIsNaN, OFIsInf:
		if a := ia.dy(root.A[0], memo); a != nil {
			return BoolC(false)
		}
	case OFToS:
		t := root.A[0]
		mode := RTZ
		if t.Op == OFRound {
			mode, t = t.Aux, t.A[0]
		}
		if mode != RTZ && mode != RTP && mode != RTN && mode != RNA {
			return nil
		}
		a := ia.dy(t, memo)
		if a == nil {
			return nil
		}
		q := a.n
		if a.s > 0 {
			den := BVS(int64(1)<<uint(a.s), 64)
			dm1 := BVS(int64(1)<<uint(a.s)-1, 64)
			zero := BVS(0, 64)
			switch mode {
			case RTZ:
				q = SDiv(a.n, den)
			case RTP:
				q = Ite(Slt(zero, a.n), SDiv(Add(a.n, dm1), den), SDiv(a.n, den))
			case RNA: // math.Round: half away from zero
				half := BVS(int64(1)<<uint(a.s-1), 64)
				q = Ite(Slt(a.n, zero), Neg(SDiv(Add(Neg(a.n), half), den)), SDiv(Add(a.n, half), den))
			default:
				q = Ite(Slt(a.n, zero), SDiv(Sub(a.n, dm1), den), SDiv(a.n, den))
			}
		}
		if root.W < 64 {
			q = Extract(q, root.W-1, 0)
		}
		return q
	}
	return nil
}

// cmpConst handles root = cmp(x, c) or cmp(c, x) where exactly one side (da or db non-nil) is an exact
// dyadic computation and the other a finite constant.
func (ia *Intervals) cmpConst(root *Term, da, db *dyadic) *Term {
	d, c, constRight := da, root.A[1], true
	if da == nil {
		d, c, constRight = db, root.A[0], false
	}
	if !c.IsConst() {
		return nil
	}
	f := c.Float()
	if math.IsNaN(f) {
		return BoolC(false)
	}
	if math.IsInf(f, 0) {
		return nil
	}
	v := math.Ldexp(f, d.s) // exact unless it overflows/underflows, excluded by the magnitude test
	if math.Abs(v) >= dyLim || (v != 0 && math.Abs(v) < 1e-300) {
		return nil
	}
	fl, ce := math.Floor(v), math.Ceil(v)
	k := func(x float64) *Term { return BVS(int64(x), 64) }
	switch root.Op {
	case OFLt:
		if constRight { // n < v  <=>  n < ceil(v)
			return Slt(d.n, k(ce))
		}
		return Slt(k(fl), d.n) // v < n  <=>  floor(v) < n
	case OFLe:
		if constRight { // n <= v  <=>  n <= floor(v)
			return Sle(d.n, k(fl))
		}
		return Sle(k(ce), d.n)
	default: // OFEq
		if fl != ce {
			return BoolC(false)
		}
		return Eq(d.n, k(v))
	}
}
