package smt

import "math"

// Interval analysis over terms (signed reading of bit-vectors, float64 for
// floats). It is used to discharge "cannot overflow / conversion in range" side
// conditions without a solver call. All bounds are outward-rounded; OK=false
// means "unknown". A bit-vector interval is only reported when no operation on
// the way can wrap.

type Interval struct {
	Lo, Hi float64
	OK     bool
}

type Intervals struct {
	VarBounds func(name string) (lo, hi float64, ok bool)
	memo      map[uint64]Interval
}

func NewIntervals(vb func(string) (float64, float64, bool)) *Intervals {
	return &Intervals{VarBounds: vb, memo: map[uint64]Interval{}}
}

const safeInt = 4.0e18 // below 2^62: sums and products checked against this cannot wrap int64

func widen(lo, hi float64) (float64, float64) {
	// outward rounding by a few ulps
	return lo - math.Abs(lo)*1e-15 - 1e-300, hi + math.Abs(hi)*1e-15 + 1e-300
}

func corners(a, b Interval, f func(x, y float64) float64) Interval {
	vs := []float64{f(a.Lo, b.Lo), f(a.Lo, b.Hi), f(a.Hi, b.Lo), f(a.Hi, b.Hi)}
	lo, hi := vs[0], vs[0]
	for _, v := range vs {
		if math.IsNaN(v) {
			return Interval{}
		}
		lo, hi = math.Min(lo, v), math.Max(hi, v)
	}
	lo, hi = widen(lo, hi)
	return Interval{lo, hi, true}
}

func (ia *Intervals) Of(t *Term) Interval {
	if r, ok := ia.memo[t.ID]; ok {
		return r
	}
	r := ia.of(t)
	if r.OK && (math.IsNaN(r.Lo) || math.IsNaN(r.Hi) || math.IsInf(r.Lo, 0) || math.IsInf(r.Hi, 0)) {
		r = Interval{}
	}
	if r.OK && t.W > 0 && t.W <= 64 {
		// must fit the signed range of the width without wrapping
		lim := math.Ldexp(1, t.W-1)
		if lim > safeInt {
			lim = safeInt
		}
		if r.Lo < -lim || r.Hi > lim-1 {
			r = Interval{}
		}
	}
	ia.memo[t.ID] = r
	return r
}

func (ia *Intervals) of(t *Term) Interval {
	if t.W == 0 || t.W > 64 {
		return Interval{}
	}
	switch t.Op {
	case OConst:
		if t.W == FP64 {
			f := t.Float()
			return Interval{f, f, !math.IsNaN(f)}
		}
		v := float64(t.SInt())
		return Interval{v, v, true}
	case OVar:
		if ia.VarBounds != nil {
			if lo, hi, ok := ia.VarBounds(t.Name); ok {
				return Interval{lo, hi, true}
			}
		}
		return Interval{}
	}
	var a, b Interval
	if t.N >= 1 {
		a = ia.Of(t.A[0])
	}
	if t.N >= 2 {
		b = ia.Of(t.A[1])
	}
	switch t.Op {
	case OAdd, OFAdd:
		if a.OK && b.OK {
			lo, hi := widen(a.Lo+b.Lo, a.Hi+b.Hi)
			return Interval{lo, hi, true}
		}
	case OSub, OFSub:
		if a.OK && b.OK {
			lo, hi := widen(a.Lo-b.Hi, a.Hi-b.Lo)
			return Interval{lo, hi, true}
		}
	case OMul, OFMul:
		if a.OK && b.OK {
			return corners(a, b, func(x, y float64) float64 { return x * y })
		}
	case OSDiv, OFDiv:
		if a.OK && b.OK && (b.Lo > 0 || b.Hi < 0) {
			r := corners(a, b, func(x, y float64) float64 { return x / y })
			if t.Op == OSDiv && r.OK {
				r.Lo, r.Hi = math.Floor(r.Lo)-1, math.Ceil(r.Hi)+1
			}
			return r
		}
	case ONeg, OFNeg:
		if a.OK {
			return Interval{-a.Hi, -a.Lo, true}
		}
	case OFAbs:
		if a.OK {
			return Interval{0, math.Max(math.Abs(a.Lo), math.Abs(a.Hi)), true}
		}
	case OIte:
		x, y := ia.Of(t.A[1]), ia.Of(t.A[2])
		if x.OK && y.OK {
			return Interval{math.Min(x.Lo, y.Lo), math.Max(x.Hi, y.Hi), true}
		}
	case OFMax, OFMin:
		if a.OK && b.OK {
			if t.Op == OFMax {
				return Interval{math.Max(a.Lo, b.Lo), math.Max(a.Hi, b.Hi), true}
			}
			return Interval{math.Min(a.Lo, b.Lo), math.Min(a.Hi, b.Hi), true}
		}
	case OFFromS:
		if a.OK {
			lo, hi := widen(a.Lo, a.Hi)
			return Interval{lo, hi, true}
		}
	case OFRound:
		if a.OK {
			return Interval{math.Floor(a.Lo), math.Ceil(a.Hi), true}
		}
	case OFToS:
		if a.OK {
			return Interval{math.Floor(a.Lo) - 1, math.Ceil(a.Hi) + 1, true}
		}
	case OSext:
		return a
	case OZext:
		if a.OK && a.Lo >= 0 {
			return a
		}
	case OExtract:
		if t.Aux == 0 && a.OK {
			return a // range check against the narrower width happens in Of
		}
	case OSRem:
		if a.OK && b.OK && (b.Lo > 0 || b.Hi < 0) {
			m := math.Max(math.Abs(b.Lo), math.Abs(b.Hi))
			lo, hi := -m, m
			if a.Lo >= 0 {
				lo = 0
			}
			if a.Hi <= 0 {
				hi = 0
			}
			return Interval{lo, hi, true}
		}
	}
	return Interval{}
}
