package smt

import "math"

// Interval analysis over terms (signed reading of bit-vectors, float64 for
// floats). It is used to discharge "cannot overflow / conversion in range" side
// conditions without a solver call. All bounds are outward-rounded; OK=false
// means "unknown". A bit-vector interval is only reported when no operation on
// the way can wrap.

type Interval struct {
	Lo, Hi float64
	OK     bool
}

type Intervals struct {
	VarBounds func(name string) (lo, hi float64, ok bool)
	memo      map[uint64]Interval
	// Refinements valid under the path condition the analysis is used with: lower
	// and upper bounds of individual terms read off comparison conjuncts.
	RefLo, RefHi map[uint64]float64
}

// Learn records the bounds implied by one asserted conjunct (signed comparisons of
// a term with a constant). It reports whether anything new was learned.
func (ia *Intervals) Learn(c *Term) bool {
	neg := false
	if c.Op == OBNot {
		neg = true
		c = c.A[0]
	}
	if c.Op == OBAnd && !neg {
		a := ia.Learn(c.A[0])
		b := ia.Learn(c.A[1])
		return a || b
	}
	if c.Op == OBOr && neg {
		a := ia.Learn(Not(c.A[0]))
		b := ia.Learn(Not(c.A[1]))
		return a || b
	}
	setLo := func(t *Term, v float64) bool {
		if old, ok := ia.RefLo[t.ID]; ok && old >= v {
			return false
		}
		ia.RefLo[t.ID] = v
		return true
	}
	setHi := func(t *Term, v float64) bool {
		if old, ok := ia.RefHi[t.ID]; ok && old <= v {
			return false
		}
		ia.RefHi[t.ID] = v
		return true
	}
	if c.N != 2 || c.A[0].W <= 0 || c.A[0].W > 64 {
		return false
	}
	a, b := c.A[0], c.A[1]
	switch c.Op {
	case OSlt: // a < b ; negated: b <= a
		if !neg {
			if a.IsConst() {
				return setLo(b, float64(a.SInt())+1)
			}
			if b.IsConst() {
				return setHi(a, float64(b.SInt())-1)
			}
		} else {
			if a.IsConst() {
				return setHi(b, float64(a.SInt()))
			}
			if b.IsConst() {
				return setLo(a, float64(b.SInt()))
			}
		}
	case OSle: // a <= b ; negated: b < a
		if !neg {
			if a.IsConst() {
				return setLo(b, float64(a.SInt()))
			}
			if b.IsConst() {
				return setHi(a, float64(b.SInt()))
			}
		} else {
			if a.IsConst() {
				return setHi(b, float64(a.SInt())-1)
			}
			if b.IsConst() {
				return setLo(a, float64(b.SInt())+1)
			}
		}
	case OEq:
		if !neg && b.IsConst() {
			x := setLo(a, float64(b.SInt()))
			y := setHi(a, float64(b.SInt()))
			return x || y
		}
	}
	return false
}

func NewIntervals(vb func(string) (float64, float64, bool)) *Intervals {
	return &Intervals{VarBounds: vb, memo: map[uint64]Interval{}, RefLo: map[uint64]float64{}, RefHi: map[uint64]float64{}}
}

const safeInt = 4.0e18 // below 2^62: sums and products checked against this cannot wrap int64

func widen(lo, hi float64) (float64, float64) {
	// outward rounding by a few ulps
	return lo - math.Abs(lo)*1e-15, hi + math.Abs(hi)*1e-15
}

func corners(a, b Interval, f func(x, y float64) float64) Interval {
	vs := []float64{f(a.Lo, b.Lo), f(a.Lo, b.Hi), f(a.Hi, b.Lo), f(a.Hi, b.Hi)}
	lo, hi := vs[0], vs[0]
	for _, v := range vs {
		if math.IsNaN(v) {
			return Interval{}
		}
		lo, hi = math.Min(lo, v), math.Max(hi, v)
	}
	lo, hi = widen(lo, hi)
	return Interval{lo, hi, true}
}

func (ia *Intervals) Of(t *Term) Interval {
	if r, ok := ia.memo[t.ID]; ok {
		return r
	}
	r := ia.of(t)
	if t.W > 0 && t.W <= 64 {
		lo, hasLo := ia.RefLo[t.ID]
		hi, hasHi := ia.RefHi[t.ID]
		switch {
		case r.OK:
			if hasLo && lo > r.Lo {
				r.Lo = lo
			}
			if hasHi && hi < r.Hi {
				r.Hi = hi
			}
			if r.Lo > r.Hi { // contradictory facts: the path is infeasible anyway
				r.Hi = r.Lo
			}
		case hasLo && hasHi:
			r = Interval{lo, hi, true}
		}
	}
	if r.OK && (math.IsNaN(r.Lo) || math.IsNaN(r.Hi) || math.IsInf(r.Lo, 0) || math.IsInf(r.Hi, 0)) {
		r = Interval{}
	}
	if r.OK && t.W > 0 && t.W <= 64 && t.Op != OConst {
		// integer-valued: snap the outward-rounded bounds back to integers
		r.Lo, r.Hi = math.Floor(r.Lo+0.01), math.Ceil(r.Hi-0.01)
		// must fit the signed range of the width without wrapping
		lim := math.Ldexp(1, t.W-1)
		if lim > safeInt {
			lim = safeInt
		}
		if r.Lo < -lim || r.Hi > lim-1 {
			r = Interval{}
		}
	}
	ia.memo[t.ID] = r
	return r
}

func (ia *Intervals) of(t *Term) Interval {
	if t.W == 0 || t.W > 64 {
		return Interval{}
	}
	switch t.Op {
	case OConst:
		if t.W == FP64 {
			f := t.Float()
			return Interval{f, f, !math.IsNaN(f)}
		}
		v := float64(t.SInt())
		return Interval{v, v, true}
	case OVar:
		if ia.VarBounds != nil {
			if lo, hi, ok := ia.VarBounds(t.Name); ok {
				return Interval{lo, hi, true}
			}
		}
		return Interval{}
	}
	var a, b Interval
	if t.N >= 1 {
		a = ia.Of(t.A[0])
	}
	if t.N >= 2 {
		b = ia.Of(t.A[1])
	}
	switch t.Op {
	case OAdd, OFAdd:
		if a.OK && b.OK {
			lo, hi := widen(a.Lo+b.Lo, a.Hi+b.Hi)
			return Interval{lo, hi, true}
		}
	case OSub, OFSub:
		if a.OK && b.OK {
			lo, hi := widen(a.Lo-b.Hi, a.Hi-b.Lo)
			return Interval{lo, hi, true}
		}
	case OMul, OFMul:
		if a.OK && b.OK {
			return corners(a, b, func(x, y float64) float64 { return x * y })
		}
	case OSDiv, OUDiv, OFDiv:
		if t.Op == OUDiv && !(a.OK && a.Lo >= 0 && b.OK && b.Lo >= 0) {
			return Interval{}
		}
		if t.Op != OFDiv && b.OK {
			// integer division: the engine forks on "divisor == 0" before every
			// division (the zero side panics), so under any path condition that
			// contains the term the divisor is non-zero
			if b.Lo == 0 && b.Hi > 0 {
				b.Lo = 1
			} else if b.Hi == 0 && b.Lo < 0 {
				b.Hi = -1
			}
		}
		if a.OK && b.OK && (b.Lo > 0 || b.Hi < 0) {
			r := corners(a, b, func(x, y float64) float64 { return x / y })
			if t.Op != OFDiv && r.OK {
				r.Lo, r.Hi = math.Floor(r.Lo), math.Ceil(r.Hi)
				if r.Lo > 0 {
					r.Lo = 0
				}
				if r.Hi < 0 {
					r.Hi = 0
				}
			}
			return r
		}
	case ONeg, OFNeg:
		if a.OK {
			return Interval{-a.Hi, -a.Lo, true}
		}
	case OFAbs:
		if a.OK {
			return Interval{0, math.Max(math.Abs(a.Lo), math.Abs(a.Hi)), true}
		}
	case OIte:
		x, y := ia.Of(t.A[1]), ia.Of(t.A[2])
		if x.OK && y.OK {
			return Interval{math.Min(x.Lo, y.Lo), math.Max(x.Hi, y.Hi), true}
		}
	case OFMax, OFMin:
		if a.OK && b.OK {
			if t.Op == OFMax {
				return Interval{math.Max(a.Lo, b.Lo), math.Max(a.Hi, b.Hi), true}
			}
			return Interval{math.Min(a.Lo, b.Lo), math.Min(a.Hi, b.Hi), true}
		}
	case OFFromS:
		if a.OK {
			lo, hi := widen(a.Lo, a.Hi)
			return Interval{lo, hi, true}
		}
	case OFRound:
		if a.OK {
			return Interval{math.Floor(a.Lo), math.Ceil(a.Hi), true}
		}
	case OFToS:
		if a.OK {
			// truncation toward zero is monotone; the float bounds are already outward
			return Interval{math.Trunc(a.Lo), math.Trunc(a.Hi), true}
		}
	case OSext:
		return a
	case OZext:
		if a.OK && a.Lo >= 0 {
			return a
		}
	case OExtract:
		if t.Aux == 0 && a.OK {
			return a // range check against the narrower width happens in Of
		}
	case OSRem, OURem:
		if t.Op == OURem && !(a.OK && a.Lo >= 0 && b.OK && b.Lo >= 0) {
			return Interval{}
		}
		if a.OK && b.OK {
			m := math.Max(math.Abs(b.Lo), math.Abs(b.Hi))
			lo, hi := -m, m
			if a.Lo >= 0 {
				lo = 0
			}
			if a.Hi <= 0 {
				hi = 0
			}
			return Interval{lo, hi, true}
		}
	}
	return Interval{}
}

// Invalidate drops memoised results (after new refinements were learned).
func (ia *Intervals) Invalidate() { ia.memo = map[uint64]Interval{} }

// Decide evaluates a Boolean term by interval reasoning: known=false when the
// intervals do not settle it.
func (ia *Intervals) Decide(c *Term) (val, known bool) {
	switch c.Op {
	case OConst:
		return c.Lo != 0, true
	case OBNot:
		v, k := ia.Decide(c.A[0])
		return !v, k
	case OBAnd:
		v1, k1 := ia.Decide(c.A[0])
		v2, k2 := ia.Decide(c.A[1])
		if (k1 && !v1) || (k2 && !v2) {
			return false, true
		}
		if k1 && k2 {
			return true, true
		}
		return false, false
	case OBOr:
		v1, k1 := ia.Decide(c.A[0])
		v2, k2 := ia.Decide(c.A[1])
		if (k1 && v1) || (k2 && v2) {
			return true, true
		}
		if k1 && k2 {
			return false, true
		}
		return false, false
	case OSlt, OSle, OEq, OUlt, OUle:
		if c.A[0].W <= 0 || c.A[0].W > 64 {
			return false, false
		}
		if c.Op == OEq {
			// the overflow-check idiom (x*k)/k == x holds when x*k cannot wrap
			for i := 0; i < 2; i++ {
				d, x := c.A[i], c.A[1-i]
				if d.Op == OSDiv && d.A[1].IsConst() && !isZero(d.A[1]) && d.A[0].Op == OMul {
					m := d.A[0]
					if (m.A[0] == x && m.A[1] == d.A[1]) || (m.A[1] == x && m.A[0] == d.A[1]) {
						if ia.Of(m).OK {
							return true, true
						}
					}
				}
			}
		}
		a, b := ia.Of(c.A[0]), ia.Of(c.A[1])
		if !a.OK || !b.OK {
			return false, false
		}
		if (c.Op == OUlt || c.Op == OUle) && (a.Lo < 0 || b.Lo < 0) {
			return false, false
		}
		switch c.Op {
		case OSlt, OUlt:
			if a.Hi < b.Lo {
				return true, true
			}
			if a.Lo >= b.Hi {
				return false, true
			}
		case OSle, OUle:
			if a.Hi <= b.Lo {
				return true, true
			}
			if a.Lo > b.Hi {
				return false, true
			}
		case OEq:
			if a.Hi < b.Lo || b.Hi < a.Lo {
				return false, true
			}
			if a.Lo == a.Hi && b.Lo == b.Hi && a.Lo == b.Lo {
				return true, true
			}
		}
	}
	return false, false
}
