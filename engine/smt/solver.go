package smt

import (
	"bufio"
	"fmt"
	"io"
	"math"
	"os"
	"os/exec"
	"strconv"
	"strings"
	"sync"
	"time"
)

type Result int

const (
	Unknown Result = iota
	Sat
	Unsat
)

func (r Result) String() string { return [...]string{"unknown", "sat", "unsat"}[r] }

// Backend kinds.
const (
	CVC5Int = "cvc5-int" // cvc5 --solve-bv-as-int=sum (linear / mul-div-by-constant arithmetic)
	CVC5    = "cvc5"     // plain cvc5 (floating point, bit-level)
	Z3New   = "z3-new"   // z3 5.1.0
	Z3Old   = "z3"       // z3 4.8.12
	// one fresh, non-incremental cvc5 process per query: cvc5's incremental mode
	// switches off preprocessing that decides non-linear (symbolic x symbolic)
	// integer queries in well under a second
	CVC5IntOnce = "cvc5-int-once"
)

// checkOnce runs a one-shot solver process on the query.
func (s *Solver) checkOnce(kind string, q *Query, wantModel bool, limit time.Duration) (Result, Model, error) {
	st := s.Stats[kind]
	if st == nil {
		st = &Stats{}
		s.Stats[kind] = st
	}
	st.Calls++
	t0 := time.Now()
	ms := fmt.Sprint(int(limit / time.Millisecond))
	cmd := exec.Command("cvc5", "--produce-models", "--solve-bv-as-int=sum", "--lang=smt2", "--tlimit="+ms)
	var sb strings.Builder
	sb.WriteString("(set-logic ALL)\n")
	sb.WriteString(q.Text)
	sb.WriteString("(check-sat)\n")
	if wantModel && len(q.Vars) > 0 {
		sb.WriteString("(get-value (")
		for _, v := range q.Vars {
			sb.WriteString(symName(v.Name) + " ")
		}
		sb.WriteString("))\n")
	}
	cmd.Stdin = strings.NewReader(sb.String())
	done := make(chan struct{})
	var out []byte
	go func() {
		out, _ = cmd.Output()
		close(done)
	}()
	select {
	case <-done:
	case <-time.After(limit + 5*time.Second):
		if cmd.Process != nil {
			cmd.Process.Kill()
		}
		<-done
	}
	d := time.Since(t0)
	st.Time += d
	if d > st.MaxTime {
		st.MaxTime = d
	}
	text := strings.TrimSpace(string(out))
	first, rest, _ := strings.Cut(text, "\n")
	switch strings.TrimSpace(first) {
	case "unsat":
		st.Unsat++
		return Unsat, nil, nil
	case "sat":
		st.Sat++
		if wantModel && len(q.Vars) > 0 {
			if strings.Contains(rest, "(error") {
				return Unknown, nil, fmt.Errorf("model error: %s", trunc(rest, 200))
			}
			m, err := parseModel(strings.TrimSpace(rest), q.Vars)
			if err != nil {
				return Unknown, nil, fmt.Errorf("model parse: %v", err)
			}
			return Sat, m, nil
		}
		return Sat, nil, nil
	}
	st.Unknown++
	s.dump(kind, q, "unknown: "+trunc(text, 100))
	return Unknown, nil, nil
}

type proc struct {
	kind string
	cmd  *exec.Cmd
	in   io.WriteCloser
	out  *bufio.Reader
	dead bool
}

func startProc(kind string, timeout time.Duration) (*proc, error) {
	var c *exec.Cmd
	ms := fmt.Sprint(int(timeout / time.Millisecond))
	switch kind {
	case CVC5Int:
		c = exec.Command("cvc5", "--incremental", "--produce-models", "--solve-bv-as-int=sum", "--lang=smt2", "--tlimit-per="+ms)
	case CVC5:
		c = exec.Command("cvc5", "--incremental", "--produce-models", "--lang=smt2", "--tlimit-per="+ms)
	case Z3New:
		c = exec.Command("z3-new", "-in", "-t:"+ms)
	case Z3Old:
		c = exec.Command("z3", "-in", "-t:"+ms)
	default:
		return nil, fmt.Errorf("unknown solver kind %s", kind)
	}
	in, _ := c.StdinPipe()
	out, _ := c.StdoutPipe()
	c.Stderr = nil
	if err := c.Start(); err != nil {
		return nil, err
	}
	p := &proc{kind: kind, cmd: c, in: in, out: bufio.NewReaderSize(out, 1<<16)}
	io.WriteString(p.in, "(set-option :produce-models true)\n(set-logic ALL)\n")
	return p, nil
}

func (p *proc) kill() {
	if p == nil || p.dead {
		return
	}
	p.dead = true
	p.in.Close()
	p.cmd.Process.Kill()
	go p.cmd.Wait()
}

// Stats aggregated per solver kind.
type Stats struct {
	Calls    int
	Sat      int
	Unsat    int
	Unknown  int
	Time     time.Duration
	MaxTime  time.Duration
	Restarts int
}

// Solver owns one long-lived process per back end and is used by one worker.
type Solver struct {
	procs    map[string]*proc
	Stats    map[string]*Stats
	Timeout  time.Duration
	DumpDir  string // if set, slow/unknown queries are written here
	dumpSeq  int
	Disabled map[string]bool
}

func NewSolver(timeout time.Duration) *Solver {
	return &Solver{procs: map[string]*proc{}, Stats: map[string]*Stats{}, Timeout: timeout, Disabled: map[string]bool{}}
}

func (s *Solver) Close() {
	for _, p := range s.procs {
		p.kill()
	}
	s.procs = map[string]*proc{}
}

func (s *Solver) get(kind string) (*proc, error) {
	if p := s.procs[kind]; p != nil && !p.dead {
		return p, nil
	}
	p, err := startProc(kind, s.Timeout)
	if err != nil {
		return nil, err
	}
	s.procs[kind] = p
	return p, nil
}

type lineRes struct {
	s   string
	err error
}

// readReply reads one reply (a line, or a balanced s-expression) with a deadline.
func (p *proc) readReply(deadline time.Duration) (string, error) {
	ch := make(chan lineRes, 1)
	go func() {
		var sb strings.Builder
		depth := 0
		started := false
		for {
			line, err := p.out.ReadString('\n')
			if err != nil {
				ch <- lineRes{sb.String(), err}
				return
			}
			inBar := false
			for _, c := range line {
				switch {
				case c == '|':
					inBar = !inBar
				case inBar:
				case c == '(':
					depth++
					started = true
				case c == ')':
					depth--
				}
			}
			sb.WriteString(line)
			if strings.TrimSpace(line) != "" {
				started = true
			}
			if started && depth <= 0 {
				ch <- lineRes{sb.String(), nil}
				return
			}
		}
	}()
	select {
	case r := <-ch:
		return strings.TrimSpace(r.s), r.err
	case <-time.After(deadline):
		return "", fmt.Errorf("timeout")
	}
}

// Check decides satisfiability of q on the given back end. wantModel asks for
// the values of q.Vars when the answer is sat.
func (s *Solver) Check(kind string, q *Query, wantModel bool) (Result, Model, error) {
	return s.CheckT(kind, q, wantModel, s.Timeout)
}

// CheckT is Check with a per-call deadline (the process is killed and restarted
// when the deadline passes).
func (s *Solver) CheckT(kind string, q *Query, wantModel bool, limit time.Duration) (Result, Model, error) {
	if kind == CVC5IntOnce {
		return s.checkOnce(kind, q, wantModel, limit)
	}
	st := s.Stats[kind]
	if st == nil {
		st = &Stats{}
		s.Stats[kind] = st
	}
	p, err := s.get(kind)
	if err != nil {
		return Unknown, nil, err
	}
	t0 := time.Now()
	st.Calls++
	var sb strings.Builder
	sb.WriteString("(push 1)\n")
	sb.WriteString(q.Text)
	sb.WriteString("(check-sat)\n")
	if _, err := io.WriteString(p.in, sb.String()); err != nil {
		p.kill()
		st.Restarts++
		return Unknown, nil, err
	}
	if limit < s.Timeout {
		limit -= 5 * time.Second // no grace needed: we kill at the deadline
	}
	reply, err := p.readReply(limit + 5*time.Second)
	res := Unknown
	var model Model
	fail := func(why string) (Result, Model, error) {
		if d := os.Getenv("GOSYM_SLOW_DIR"); d != "" {
			os.MkdirAll(d, 0755)
			os.WriteFile(fmt.Sprintf("%s/slow_%s_%d.smt2", d, strings.ReplaceAll(kind, "/", "_"), time.Now().UnixNano()), []byte(q.Text+"(check-sat)\n"), 0644)
		}
		p.kill()
		st.Restarts++
		st.Unknown++
		d := time.Since(t0)
		st.Time += d
		s.dump(kind, q, why)
		return Unknown, nil, fmt.Errorf("%s: %s", kind, why)
	}
	if err != nil {
		return fail("no answer: " + err.Error())
	}
	switch {
	case reply == "sat":
		res = Sat
	case reply == "unsat":
		res = Unsat
	case reply == "unknown":
		res = Unknown
	default:
		return fail("unexpected reply: " + trunc(reply, 300))
	}
	if res == Sat && wantModel && len(q.Vars) > 0 {
		var gv strings.Builder
		gv.WriteString("(get-value (")
		for _, v := range q.Vars {
			gv.WriteString(symName(v.Name))
			gv.WriteByte(' ')
		}
		gv.WriteString("))\n")
		io.WriteString(p.in, gv.String())
		mreply, err := p.readReply(s.Timeout + 5*time.Second)
		if err != nil {
			return fail("no model: " + err.Error())
		}
		if strings.Contains(mreply, "(error") {
			return fail("model error: " + trunc(mreply, 300))
		}
		model, err = parseModel(mreply, q.Vars)
		if err != nil {
			return fail("model parse: " + err.Error() + ": " + trunc(mreply, 300))
		}
	}
	io.WriteString(p.in, "(pop 1)\n")
	d := time.Since(t0)
	st.Time += d
	if d > st.MaxTime {
		st.MaxTime = d
	}
	switch res {
	case Sat:
		st.Sat++
	case Unsat:
		st.Unsat++
	default:
		st.Unknown++
		s.dump(kind, q, "unknown")
	}
	return res, model, nil
}

func (s *Solver) dump(kind string, q *Query, why string) {
	if s.DumpDir == "" {
		return
	}
	s.dumpSeq++
	os.MkdirAll(s.DumpDir, 0755)
	name := fmt.Sprintf("%s/q_%d_%s_%d.smt2", s.DumpDir, os.Getpid(), kind, s.dumpSeq)
	os.WriteFile(name, []byte("; "+why+"\n(set-logic ALL)\n"+q.Text+"(check-sat)\n"), 0644)
}

func trunc(s string, n int) string {
	if len(s) > n {
		return s[:n] + "…"
	}
	return s
}

// ---- model parsing ------------------------------------------------------------

type sexp struct {
	atom string
	list []*sexp
}

func parseSexp(s string) (*sexp, error) {
	pos := 0
	var parse func() (*sexp, error)
	skip := func() {
		for pos < len(s) && (s[pos] == ' ' || s[pos] == '\n' || s[pos] == '\t' || s[pos] == '\r') {
			pos++
		}
	}
	parse = func() (*sexp, error) {
		skip()
		if pos >= len(s) {
			return nil, fmt.Errorf("eof")
		}
		if s[pos] == '(' {
			pos++
			n := &sexp{list: []*sexp{}}
			for {
				skip()
				if pos >= len(s) {
					return nil, fmt.Errorf("eof in list")
				}
				if s[pos] == ')' {
					pos++
					return n, nil
				}
				c, err := parse()
				if err != nil {
					return nil, err
				}
				n.list = append(n.list, c)
			}
		}
		start := pos
		if s[pos] == '|' {
			pos++
			for pos < len(s) && s[pos] != '|' {
				pos++
			}
			pos++
			return &sexp{atom: s[start+1 : pos-1]}, nil
		}
		for pos < len(s) && !strings.ContainsRune(" \n\t\r()", rune(s[pos])) {
			pos++
		}
		return &sexp{atom: s[start:pos]}, nil
	}
	return parse()
}

func bitsOf(a string) (lo, hi uint64, w int, err error) {
	switch {
	case strings.HasPrefix(a, "#b"):
		d := a[2:]
		w = len(d)
		for i, c := range d {
			bit := uint64(c - '0')
			p := w - 1 - i
			if p >= 64 {
				hi |= bit << uint(p-64)
			} else {
				lo |= bit << uint(p)
			}
		}
		return
	case strings.HasPrefix(a, "#x"):
		d := a[2:]
		w = 4 * len(d)
		for i, c := range d {
			var v uint64
			v, err = strconv.ParseUint(string(c), 16, 8)
			if err != nil {
				return
			}
			p := (len(d) - 1 - i) * 4
			if p >= 64 {
				hi |= v << uint(p-64)
			} else {
				lo |= v << uint(p)
			}
		}
		return
	}
	err = fmt.Errorf("not a bv literal: %s", a)
	return
}

func parseValue(e *sexp, w int) (Value, error) {
	if e.list == nil {
		switch e.atom {
		case "true":
			return Value{1, 0}, nil
		case "false":
			return Value{0, 0}, nil
		}
		if len(e.atom) > 0 && e.atom[0] >= '0' && e.atom[0] <= '9' {
			n, err := strconv.ParseUint(e.atom, 10, 64)
			return Value{n & maskLo(w), 0}, err
		}
		lo, hi, _, err := bitsOf(e.atom)
		return Value{lo, hi}, err
	}
	l := e.list
	if len(l) == 0 {
		return Value{}, fmt.Errorf("empty value")
	}
	if l[0].atom == "-" && len(l) == 2 && l[1].list == nil {
		n, err := strconv.ParseUint(l[1].atom, 10, 64)
		return Value{uint64(-int64(n)) & maskLo(w), 0}, err
	}
	// (_ bvN w)
	if l[0].atom == "_" && len(l) >= 3 {
		switch {
		case strings.HasPrefix(l[1].atom, "bv"):
			n, err := strconv.ParseUint(l[1].atom[2:], 10, 64)
			if err != nil {
				return Value{}, err
			}
			return Value{n, 0}, nil
		case l[1].atom == "+zero":
			return Value{0, 0}, nil
		case l[1].atom == "-zero":
			return Value{1 << 63, 0}, nil
		case l[1].atom == "+oo":
			return Value{math.Float64bits(math.Inf(1)), 0}, nil
		case l[1].atom == "-oo":
			return Value{math.Float64bits(math.Inf(-1)), 0}, nil
		case l[1].atom == "NaN":
			return Value{math.Float64bits(math.NaN()), 0}, nil
		}
	}
	if l[0].atom == "fp" && len(l) == 4 {
		s, _, _, e1 := bitsOf(l[1].atom)
		ex, _, _, e2 := bitsOf(l[2].atom)
		m, _, _, e3 := bitsOf(l[3].atom)
		if e1 != nil || e2 != nil || e3 != nil {
			return Value{}, fmt.Errorf("bad fp literal")
		}
		return Value{s<<63 | ex<<52 | m, 0}, nil
	}
	return Value{}, fmt.Errorf("unsupported value form")
}

func parseModel(reply string, vars []*Term) (Model, error) {
	e, err := parseSexp(reply)
	if err != nil {
		return nil, err
	}
	m := Model{}
	byName := map[string]*Term{}
	for _, v := range vars {
		byName[v.Name] = v
	}
	for _, pair := range e.list {
		if len(pair.list) != 2 {
			return nil, fmt.Errorf("bad pair")
		}
		name := pair.list[0].atom
		v := byName[name]
		if v == nil {
			continue
		}
		val, err := parseValue(pair.list[1], v.W)
		if err != nil {
			return nil, fmt.Errorf("%s: %v", name, err)
		}
		m[name] = val
	}
	return m, nil
}

// ---- global statistics ---------------------------------------------------------

var GlobalMu sync.Mutex
