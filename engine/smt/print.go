package smt

import (
	"fmt"
	"sort"
	"strings"
)

func sortName(w int) string {
	switch {
	case w == 0:
		return "Bool"
	case w == FP64:
		return "(_ FloatingPoint 11 53)"
	}
	return fmt.Sprintf("(_ BitVec %d)", w)
}

func bvLit(lo, hi uint64, w int) string {
	if w%4 == 0 {
		if w <= 64 {
			return fmt.Sprintf("#x%0*x", w/4, lo)
		}
		return fmt.Sprintf("#x%0*x%016x", (w-64)/4, hi, lo)
	}
	var sb strings.Builder
	sb.WriteString("#b")
	for i := w - 1; i >= 0; i-- {
		var b uint64
		if i >= 64 {
			b = hi >> uint(i-64) & 1
		} else {
			b = lo >> uint(i) & 1
		}
		sb.WriteByte(byte('0' + b))
	}
	return sb.String()
}

// Query is a printable set of assertions with shared sub-terms named.
type Query struct {
	Vars       []*Term
	Text       string // declarations, definitions and assertions (no push/pop/check-sat)
	HasFP      bool
	Nonlin     bool
	Wide       bool
	Abstracted bool // float islands replaced by uninterpreted functions: only unsat is meaningful
	IntMode    bool // integer translation: models come back as numerals
}

type printer struct {
	limit int
	refs  map[uint64]int
	named map[uint64]bool
	sb    strings.Builder
	vars  map[*Term]bool
}

func (p *printer) count(t *Term) {
	p.refs[t.ID]++
	if p.refs[t.ID] > 1 {
		return
	}
	if t.Op == OVar {
		p.vars[t] = true
	}
	for i := 0; i < t.N; i++ {
		p.count(t.A[i])
	}
}

func (p *printer) define(t *Term) {
	// post-order: define shared children first
	if t.Op == OVar || t.Op == OConst || p.named[t.ID] {
		return
	}
	for i := 0; i < t.N; i++ {
		p.define(t.A[i])
	}
	if p.refs[t.ID] > 1 || t.size > 200 && p.big(t) {
		p.sb.WriteString("(define-fun t!")
		fmt.Fprintf(&p.sb, "%d () %s ", t.ID, sortName(t.W))
		p.expr(t, true)
		p.sb.WriteString(")\n")
		p.named[t.ID] = true
	}
}

// big: name large nodes even when not shared so that single lines stay
// bounded (every child above the threshold is named first, post-order).
func (p *printer) big(t *Term) bool { return true }

func (p *printer) expr(t *Term, top bool) {
	if p.limit > 0 && p.sb.Len() > p.limit {
		p.sb.WriteString("…")
		return
	}
	if !top && p.named[t.ID] {
		fmt.Fprintf(&p.sb, "t!%d", t.ID)
		return
	}
	switch t.Op {
	case OVar:
		p.sb.WriteString(symName(t.Name))
		return
	case OConst:
		switch {
		case t.W == 0:
			if t.Lo != 0 {
				p.sb.WriteString("true")
			} else {
				p.sb.WriteString("false")
			}
		case t.W == FP64:
			fmt.Fprintf(&p.sb, "((_ to_fp 11 53) #x%016x)", t.Lo)
		default:
			p.sb.WriteString(bvLit(t.Lo, t.Hi, t.W))
		}
		return
	}
	p.sb.WriteByte('(')
	switch t.Op {
	case OExtract:
		fmt.Fprintf(&p.sb, "(_ extract %d %d)", t.Aux+t.W-1, t.Aux)
	case OZext:
		fmt.Fprintf(&p.sb, "(_ zero_extend %d)", t.W-t.A[0].W)
	case OSext:
		fmt.Fprintf(&p.sb, "(_ sign_extend %d)", t.W-t.A[0].W)
	case OFAdd, OFSub, OFMul, OFDiv, OFSqrt:
		p.sb.WriteString(opNames[t.Op] + " RNE")
	case OFFromS:
		p.sb.WriteString("(_ to_fp 11 53) RNE")
	case OFFromU:
		p.sb.WriteString("(_ to_fp_unsigned 11 53) RNE")
	case OFFromBits:
		p.sb.WriteString("(_ to_fp 11 53)")
	case OFToS:
		fmt.Fprintf(&p.sb, "(_ fp.to_sbv %d) RTZ", t.W)
	case OFToU:
		fmt.Fprintf(&p.sb, "(_ fp.to_ubv %d) RTZ", t.W)
	case OFRound:
		p.sb.WriteString("fp.roundToIntegral " + rmNames[t.Aux])
	default:
		p.sb.WriteString(opNames[t.Op])
	}
	for i := 0; i < t.N; i++ {
		p.sb.WriteByte(' ')
		p.expr(t.A[i], false)
	}
	p.sb.WriteByte(')')
}

func symName(n string) string {
	ok := true
	for _, c := range n {
		if !(c >= 'a' && c <= 'z' || c >= 'A' && c <= 'Z' || c >= '0' && c <= '9' || c == '_' || c == '.' || c == '!') {
			ok = false
		}
	}
	if ok && n != "" && !(n[0] >= '0' && n[0] <= '9') {
		return n
	}
	return "|" + strings.ReplaceAll(n, "|", "_") + "|"
}

// BuildQuery prints the assertions as SMT-LIB2 text.
func BuildQuery(asserts []*Term) *Query {
	p := &printer{refs: map[uint64]int{}, named: map[uint64]bool{}, vars: map[*Term]bool{}}
	q := &Query{}
	for _, a := range asserts {
		p.count(a)
		if a.HasFP() {
			q.HasFP = true
		}
		if a.HasNonlin() {
			q.Nonlin = true
		}
		if a.HasWide() {
			q.Wide = true
		}
	}
	for v := range p.vars {
		q.Vars = append(q.Vars, v)
	}
	sort.Slice(q.Vars, func(i, j int) bool { return q.Vars[i].Name < q.Vars[j].Name })
	for _, v := range q.Vars {
		fmt.Fprintf(&p.sb, "(declare-const %s %s)\n", symName(v.Name), sortName(v.W))
	}
	for _, a := range asserts {
		p.define(a)
	}
	for _, a := range asserts {
		p.sb.WriteString("(assert ")
		p.expr(a, false)
		p.sb.WriteString(")\n")
	}
	q.Text = p.sb.String()
	return q
}

// String renders a term for humans (no sharing, truncated).
func (t *Term) String() string {
	p := &printer{limit: 400, refs: map[uint64]int{}, named: map[uint64]bool{}, vars: map[*Term]bool{}}
	p.expr(t, true)
	s := p.sb.String()
	if len(s) > 400 {
		s = s[:400] + "…"
	}
	return s
}

// ---- floating-point abstraction ---------------------------------------------------
//
// BuildQueryAbstractFP prints the assertions with every maximal floating-point
// sub-computation replaced by an uninterpreted function of its non-float inputs.
// Functions are shared between islands of the same shape, so "the same float
// expression applied to equal integers yields equal results" is available to the
// solver without any float reasoning. The abstraction only adds behaviours: unsat
// here implies unsat of the precise query; sat here means nothing.

type island struct {
	shape  string
	leaves []*Term
}

func isFPOp(t *Term) bool { return t.Op >= OFAdd && t.Op <= OFFromBits }

// fpIsland describes the float computation rooted at t (t itself has a non-float
// sort but float children, or is a float-sorted term used under an ite/eq).
func (p *printer) fpIsland(t *Term) *island {
	is := &island{}
	idx := map[uint64]int{}
	var sb strings.Builder
	var walk func(u *Term)
	walk = func(u *Term) {
		interior := (isFPOp(u) && u.Op != OFFromS && u.Op != OFFromU && u.Op != OFFromBits) || (u.Op == OConst && u.W == FP64) || (u.W == FP64 && u.Op == OIte)
		if u == t {
			interior = true
		}
		if !interior || (u.Op == OIte && u != t && u.W != FP64) {
			// leaf: a non-float input (or a conversion from one)
			leaf := u
			tag := "L"
			switch u.Op {
			case OFFromS:
				leaf, tag = u.A[0], "S"
			case OFFromU:
				leaf, tag = u.A[0], "U"
			case OFFromBits:
				leaf, tag = u.A[0], "B"
			}
			k, ok := idx[leaf.ID]
			if !ok {
				k = len(is.leaves)
				idx[leaf.ID] = k
				is.leaves = append(is.leaves, leaf)
			}
			fmt.Fprintf(&sb, "%s%d:%d", tag, k, leaf.W)
			return
		}
		if u.Op == OConst {
			fmt.Fprintf(&sb, "c%x", u.Lo)
			return
		}
		fmt.Fprintf(&sb, "(%d.%d.%d", u.Op, u.Aux, u.W)
		for i := 0; i < u.N; i++ {
			sb.WriteByte(' ')
			if u.Op == OIte && i == 0 {
				// the condition is a Boolean input
				c := u.A[0]
				k, ok := idx[c.ID]
				if !ok {
					k = len(is.leaves)
					idx[c.ID] = k
					is.leaves = append(is.leaves, c)
				}
				fmt.Fprintf(&sb, "L%d:0", k)
				continue
			}
			walk(u.A[i])
		}
		sb.WriteByte(')')
	}
	walk(t)
	is.shape = sb.String()
	return is
}

type absPrinter struct {
	printer
	ufs     map[string]string // shape -> function name
	ufDecls []string
	abs     map[uint64]*island
	roots   map[uint64]*Term
}

// isIslandRoot: a non-float-sorted term with at least one float-sorted argument.
func isIslandRoot(t *Term) bool {
	if t.W == FP64 || t.N == 0 {
		return false
	}
	for i := 0; i < t.N; i++ {
		if t.A[i].W == FP64 {
			return true
		}
	}
	return false
}

func (p *absPrinter) countAbs(t *Term) {
	p.refs[t.ID]++
	if p.refs[t.ID] > 1 {
		return
	}
	if t.Op == OVar {
		p.vars[t] = true
	}
	if isIslandRoot(t) {
		is := p.fpIsland(t)
		p.abs[t.ID] = is
		if p.roots == nil {
			p.roots = map[uint64]*Term{}
		}
		p.roots[t.ID] = t
		if _, ok := p.ufs[is.shape]; !ok {
			name := fmt.Sprintf("fpabs!%d", len(p.ufs))
			p.ufs[is.shape] = name
			var sb strings.Builder
			fmt.Fprintf(&sb, "(declare-fun %s (", name)
			for _, l := range is.leaves {
				sb.WriteString(sortName(l.W) + " ")
			}
			fmt.Fprintf(&sb, ") %s)\n", sortName(t.W))
			p.ufDecls = append(p.ufDecls, sb.String())
		}
		for _, l := range is.leaves {
			p.countAbs(l)
		}
		return
	}
	for i := 0; i < t.N; i++ {
		p.countAbs(t.A[i])
	}
}

func (p *absPrinter) defineAbs(t *Term) {
	if t.Op == OVar || t.Op == OConst || p.named[t.ID] {
		return
	}
	if is := p.abs[t.ID]; is != nil {
		for _, l := range is.leaves {
			p.defineAbs(l)
		}
	} else {
		for i := 0; i < t.N; i++ {
			p.defineAbs(t.A[i])
		}
	}
	if p.refs[t.ID] > 1 || t.size > 200 {
		fmt.Fprintf(&p.sb, "(define-fun t!%d () %s ", t.ID, sortName(t.W))
		p.exprAbs(t, true)
		p.sb.WriteString(")\n")
		p.named[t.ID] = true
	}
}

func (p *absPrinter) exprAbs(t *Term, top bool) {
	if !top && p.named[t.ID] {
		fmt.Fprintf(&p.sb, "t!%d", t.ID)
		return
	}
	if is := p.abs[t.ID]; is != nil {
		if len(is.leaves) == 0 {
			p.sb.WriteString(p.ufs[is.shape])
			return
		}
		p.sb.WriteByte('(')
		p.sb.WriteString(p.ufs[is.shape])
		for _, l := range is.leaves {
			p.sb.WriteByte(' ')
			p.exprAbs(l, false)
		}
		p.sb.WriteByte(')')
		return
	}
	if t.Op == OVar || t.Op == OConst {
		p.expr(t, true)
		return
	}
	p.sb.WriteByte('(')
	switch t.Op {
	case OExtract:
		fmt.Fprintf(&p.sb, "(_ extract %d %d)", t.Aux+t.W-1, t.Aux)
	case OZext:
		fmt.Fprintf(&p.sb, "(_ zero_extend %d)", t.W-t.A[0].W)
	case OSext:
		fmt.Fprintf(&p.sb, "(_ sign_extend %d)", t.W-t.A[0].W)
	default:
		p.sb.WriteString(opNames[t.Op])
	}
	for i := 0; i < t.N; i++ {
		p.sb.WriteByte(' ')
		p.exprAbs(t.A[i], false)
	}
	p.sb.WriteByte(')')
}

// BuildQueryAbstractFP returns nil when an assertion cannot be abstracted (a float
// variable or float-sorted assertion-level structure that is not under an island root).
func BuildQueryAbstractFP(asserts []*Term, ia *Intervals) *Query {
	p := &absPrinter{ufs: map[string]string{}, abs: map[uint64]*island{}}
	p.refs, p.named, p.vars = map[uint64]int{}, map[uint64]bool{}, map[*Term]bool{}
	q := &Query{}
	for _, a := range asserts {
		p.countAbs(a)
	}
	for v := range p.vars {
		q.Vars = append(q.Vars, v)
	}
	sort.Slice(q.Vars, func(i, j int) bool { return q.Vars[i].Name < q.Vars[j].Name })
	var out strings.Builder
	for _, v := range q.Vars {
		fmt.Fprintf(&out, "(declare-const %s %s)\n", symName(v.Name), sortName(v.W))
	}
	for _, d := range p.ufDecls {
		out.WriteString(d)
	}
	for _, a := range asserts {
		p.defineAbs(a)
	}
	// sound range facts for abstracted float->integer results (interval analysis)
	if ia != nil {
		var roots []*Term
		for id := range p.abs {
			roots = append(roots, p.roots[id])
		}
		sort.Slice(roots, func(i, j int) bool { return roots[i].ID < roots[j].ID })
		for _, t := range roots {
			if t.W <= 0 || t.W > 64 {
				continue
			}
			if iv := ia.Of(t); iv.OK {
				p.sb.WriteString("(assert (and (bvsle ")
				p.sb.WriteString(bvLit(uint64(int64(iv.Lo)), 0, t.W))
				p.sb.WriteByte(' ')
				p.exprAbs(t, false)
				p.sb.WriteString(") (bvsle ")
				p.exprAbs(t, false)
				p.sb.WriteByte(' ')
				p.sb.WriteString(bvLit(uint64(int64(iv.Hi)), 0, t.W))
				p.sb.WriteString(")))\n")
			}
		}
	}
	for _, a := range asserts {
		p.sb.WriteString("(assert ")
		p.exprAbs(a, false)
		p.sb.WriteString(")\n")
	}
	q.Text = out.String() + p.sb.String()
	for _, v := range q.Vars {
		if v.W == FP64 {
			q.HasFP = true // float inputs remain; still fine for cvc5-int? route to plain
		}
	}
	return q
}
