package smt

import (
	"math"
	"math/rand"
	"testing"
	"time"
)

type pair struct{ s, r *Term }

// randTerm builds the same random term twice: through the simplifying
// constructors and through Raw.
func randTerm(rnd *rand.Rand, depth, w int, vars []*Term) pair {
	if depth == 0 || rnd.Intn(6) == 0 {
		if rnd.Intn(2) == 0 {
			v := vars[rnd.Intn(len(vars))]
			if v.W == w {
				return pair{v, v}
			}
		}
		cs := []uint64{0, 1, 2, 3, 1000, ^uint64(0), 1 << 63, rnd.Uint64()}
		c := BV(cs[rnd.Intn(len(cs))], w)
		return pair{c, c}
	}
	bin := func(f func(a, b *Term) *Term, op Op) pair {
		a, b := randTerm(rnd, depth-1, w, vars), randTerm(rnd, depth-1, w, vars)
		return pair{f(a.s, b.s), Raw(op, w, 0, a.r, b.r)}
	}
	switch rnd.Intn(16) {
	case 0:
		return bin(Add, OAdd)
	case 1:
		return bin(Sub, OSub)
	case 2:
		return bin(Mul, OMul)
	case 3:
		return bin(SDiv, OSDiv)
	case 4:
		return bin(UDiv, OUDiv)
	case 5:
		return bin(SRem, OSRem)
	case 6:
		return bin(URem, OURem)
	case 7:
		return bin(BvAnd, OAnd)
	case 8:
		return bin(BvOr, OOr)
	case 9:
		return bin(BvXor, OXor)
	case 10:
		return bin(Shl, OShl)
	case 11:
		return bin(LShr, OLShr)
	case 12:
		return bin(AShr, OAShr)
	case 13:
		a := randTerm(rnd, depth-1, w, vars)
		return pair{Neg(a.s), Raw(ONeg, w, 0, a.r)}
	case 14:
		c := randBool(rnd, depth-1, w, vars)
		a, b := randTerm(rnd, depth-1, w, vars), randTerm(rnd, depth-1, w, vars)
		return pair{Ite(c.s, a.s, b.s), Raw(OIte, w, 0, c.r, a.r, b.r)}
	default:
		if w == 64 {
			a := randTerm(rnd, depth-1, 32, vars)
			if rnd.Intn(2) == 0 {
				return pair{Zext(a.s, 64), Raw(OZext, 64, 0, a.r)}
			}
			return pair{Sext(a.s, 64), Raw(OSext, 64, 0, a.r)}
		}
		a := randTerm(rnd, depth-1, 64, vars)
		lo := rnd.Intn(32)
		return pair{Extract(a.s, lo+31, lo), Raw(OExtract, 32, lo, a.r)}
	}
}

func randBool(rnd *rand.Rand, depth, w int, vars []*Term) pair {
	if depth == 0 {
		b := BoolC(rnd.Intn(2) == 0)
		return pair{b, b}
	}
	cmp := func(f func(a, b *Term) *Term, op Op) pair {
		a, b := randTerm(rnd, depth-1, w, vars), randTerm(rnd, depth-1, w, vars)
		return pair{f(a.s, b.s), Raw(op, 0, 0, a.r, b.r)}
	}
	switch rnd.Intn(9) {
	case 0:
		return cmp(Eq, OEq)
	case 1:
		return cmp(Slt, OSlt)
	case 2:
		return cmp(Sle, OSle)
	case 3:
		return cmp(Ult, OUlt)
	case 4:
		return cmp(Ule, OUle)
	case 5:
		a, b := randBool(rnd, depth-1, w, vars), randBool(rnd, depth-1, w, vars)
		return pair{And(a.s, b.s), Raw(OBAnd, 0, 0, a.r, b.r)}
	case 6:
		a, b := randBool(rnd, depth-1, w, vars), randBool(rnd, depth-1, w, vars)
		return pair{Or(a.s, b.s), Raw(OBOr, 0, 0, a.r, b.r)}
	case 7:
		a := randBool(rnd, depth-1, w, vars)
		return pair{Not(a.s), Raw(OBNot, 0, 0, a.r)}
	default:
		c, a, b := randBool(rnd, depth-1, w, vars), randBool(rnd, depth-1, w, vars), randBool(rnd, depth-1, w, vars)
		return pair{Ite(c.s, a.s, b.s), Raw(OIte, 0, 0, c.r, a.r, b.r)}
	}
}

func TestSimplifierAgreesWithRawUnderEvaluation(t *testing.T) {
	rnd := rand.New(rand.NewSource(1))
	vars := []*Term{Var("x", 64), Var("y", 64), Var("u", 32), Var("v", 32)}
	for n := 0; n < 20000; n++ {
		w := 64
		if rnd.Intn(3) == 0 {
			w = 32
		}
		p := randTerm(rnd, 4, w, vars)
		for k := 0; k < 4; k++ {
			m := Model{}
			for _, v := range vars {
				cs := []uint64{0, 1, 2, ^uint64(0), 1 << 63, 1000, rnd.Uint64()}
				m[v.Name] = Value{cs[rnd.Intn(len(cs))] & maskLo(v.W), 0}
			}
			a := NewEvaluator(m).Eval(p.s)
			b := NewEvaluator(m).Eval(p.r)
			if a != b {
				t.Fatalf("mismatch: simp=%v raw=%v\n simp: %s\n raw: %s\n model %v", a, b, p.s, p.r, m)
			}
		}
	}
}

// The evaluator itself is checked against the solvers: eval(term, model) must be
// the value the solver derives.
func TestEvaluatorAgreesWithSolvers(t *testing.T) {
	rnd := rand.New(rand.NewSource(2))
	vars := []*Term{Var("x", 64), Var("y", 64), Var("u", 32), Var("v", 32)}
	s := NewSolver(20 * time.Second)
	defer s.Close()
	for n := 0; n < 150; n++ {
		p := randTerm(rnd, 3, 64, vars)
		m := Model{}
		var as []*Term
		for _, v := range vars {
			cs := []uint64{0, 1, 2, ^uint64(0), 1 << 63, 1000, rnd.Uint64()}
			val := cs[rnd.Intn(len(cs))] & maskLo(v.W)
			m[v.Name] = Value{val, 0}
			as = append(as, Raw(OEq, 0, 0, v, BV(val, v.W)))
		}
		ev := NewEvaluator(m).Eval(p.r)
		// assert raw term != evaluated constant: must be unsat
		as = append(as, Raw(OBNot, 0, 0, Raw(OEq, 0, 0, p.r, BV(ev.Lo, 64))))
		for _, kind := range []string{Z3New, CVC5} {
			r, _, err := s.Check(kind, BuildQuery(as), false)
			if err != nil || r != Unsat {
				t.Fatalf("%s: %v %v for %s = %x under %v", kind, r, err, p.r, ev.Lo, m)
			}
		}
	}
}

func TestModelRoundTrip(t *testing.T) {
	s := NewSolver(20 * time.Second)
	defer s.Close()
	x, b, f, wd := Var("x", 64), Var("b", 0), Var("f", FP64), Var("wd", 128)
	as := []*Term{Eq(x, BV(12345, 64)), b, FEq(f, FPC(2.5)), Eq(wd, BV128(7, 9, 128))}
	for _, kind := range []string{CVC5Int, CVC5, Z3New, Z3Old} {
		r, m, err := s.Check(kind, BuildQuery(as), true)
		if err != nil || r != Sat {
			t.Fatalf("%s: %v %v", kind, r, err)
		}
		if m["x"].Lo != 12345 || m["b"].Lo != 1 || m["wd"].Lo != 7 || m["wd"].Hi != 9 || FPC(2.5).Lo != m["f"].Lo {
			t.Fatalf("%s: bad model %v", kind, m)
		}
	}
}

// The exact dyadic rewrite agrees with IEEE evaluation of the original float term.
func TestExactFPAgreesWithFloatEvaluation(t *testing.T) {
	rnd := rand.New(rand.NewSource(7))
	x, y, z := Var("x", 64), Var("y", 64), Var("z", 64)
	ia := NewIntervals(func(string) (float64, float64, bool) { return -4096, 1 << 20, true })
	fx, fy, fz := FDiv(FFromS(x), FPC(8)), FDiv(FFromS(y), FPC(8)), FDiv(FFromS(z), FPC(0.25))
	sys := FSub(FSub(fx, fy), fz)
	clamp := Ite(FLt(sys, FPC(0)), FPC(0), sys)
	clamp = Ite(FLt(clamp, FPC(2.5)), FPC(2.5), clamp)
	roots := []*Term{
		FToS(FMul(clamp, FPC(1000)), 64),
		FToS(FRound(FMul(sys, FPC(0.375)), RTP), 64),
		FToS(FRound(FMul(sys, FPC(0.375)), RTN), 32),
		FToS(FMul(sys, FPC(0.375)), 64),
		FToS(FRound(FMul(sys, FPC(0.375)), RNA), 64),
		FToS(FRound(FMul(FDiv(FFromS(x), FPC(4096)), FPC(100)), RNA), 64),
		FLt(FAdd(fx, fz), FMul(fy, FPC(3))),
		FLe(FAbs(sys), FMax(fx, FNeg(fy))),
		FEq(FMin(fx, fy), fz),
		FLt(FAbs(FSub(fx, fy)), FPC(2000.0000000000002)),
		FLt(FPC(-0.1), sys),
		FLe(FPC(20000.000000000004), FSub(FFromS(x), FFromS(y))),
		FLe(FSub(FFromS(x), FFromS(y)), FPC(3.7)),
		FEq(fx, FPC(0.3)),
		FEq(fx, FPC(2.5)),
		FToS(Ite(Or(FIsNaN(fx), FIsNaN(fy)), FPC(math.NaN()), Ite(FLt(fy, fx), fx, Ite(FLt(fx, fy), fy, Ite(And(FEq(fx, FPC(0)), FEq(fy, FPC(0))), FAdd(fx, fy), fx)))), 64),
	}
	for k, r := range roots {
		q := ia.ExactFP(r)
		if q == nil {
			t.Fatalf("root %d: rewrite does not apply", k)
		}
		for n := 0; n < 3000; n++ {
			m := Model{}
			for _, v := range []string{"x", "y", "z"} {
				m[v] = Value{Lo: uint64(rnd.Int63n(1<<20+4096) - 4096)}
				if n%7 == 0 {
					m[v] = Value{Lo: uint64(int64(rnd.Intn(40) - 20))}
				}
			}
			e := NewEvaluator(m)
			a, b := e.Eval(r), e.Eval(q)
			if e.Failed || a != b {
				t.Fatalf("root %d model %v: float %v exact %v", k, m, a, b)
			}
		}
	}
	// not dyadic: division by 1000, and magnitudes beyond 2^53
	if ia.ExactFP(FLt(FDiv(FFromS(x), FPC(1000)), fy)) != nil {
		t.Fatal("division by 1000 must not be rewritten")
	}
	big := NewIntervals(func(string) (float64, float64, bool) { return 0, 1 << 62, true })
	if big.ExactFP(FLt(FFromS(x), FFromS(y))) != nil {
		t.Fatal("values beyond 2^53 must not be rewritten")
	}
}
