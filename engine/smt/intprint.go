package smt

import (
	"fmt"
	"sort"
	"strings"
)

// BuildQueryInt translates the assertions into pure integer arithmetic
// (QF_NIA/QF_LIA) when the interval analysis shows that no bit-vector operation
// involved can wrap inside the declared input ranges; every bit-vector term is
// then represented by its signed mathematical value and no modular reduction is
// needed. Returns nil when some term is not covered (bit operations, shifts,
// unknown ranges, floats). z3 decides non-linear queries of this form (products
// and quotients of two symbolic values) in milliseconds where the bit-vector and
// int-blasted encodings time out.
func BuildQueryInt(asserts []*Term, ia *Intervals) *Query {
	p := &intPrinter{ia: ia}
	p.refs, p.named, p.vars = map[uint64]int{}, map[uint64]bool{}, map[*Term]bool{}
	for _, a := range asserts {
		if !p.count(a) {
			if DebugInt != nil {
				DebugInt(p.why)
			}
			return nil
		}
	}
	q := &Query{}
	for v := range p.vars {
		q.Vars = append(q.Vars, v)
	}
	sort.Slice(q.Vars, func(i, j int) bool { return q.Vars[i].Name < q.Vars[j].Name })
	var out strings.Builder
	for _, v := range q.Vars {
		if v.W == 0 {
			fmt.Fprintf(&out, "(declare-const %s Bool)\n", symName(v.Name))
			continue
		}
		fmt.Fprintf(&out, "(declare-const %s Int)\n", symName(v.Name))
		iv := ia.Of(v)
		fmt.Fprintf(&out, "(assert (and (<= %s %s) (<= %s %s)))\n", intLit(int64(iv.Lo)), symName(v.Name), symName(v.Name), intLit(int64(iv.Hi)))
	}
	for _, d := range p.ufDecls {
		out.WriteString(d)
	}
	for _, a := range asserts {
		p.define(a)
	}
	for _, t := range p.roots {
		if t.W > 0 {
			iv := ia.Of(t)
			p.sb.WriteString("(assert (and (<= " + intLit(int64(iv.Lo)) + " ")
			p.expr(t, false)
			p.sb.WriteString(") (<= ")
			p.expr(t, false)
			p.sb.WriteString(" " + intLit(int64(iv.Hi)) + ")))\n")
		}
	}
	for _, a := range asserts {
		p.sb.WriteString("(assert ")
		p.expr(a, false)
		p.sb.WriteString(")\n")
	}
	q.Text = out.String() + p.sb.String()
	q.IntMode = true
	q.Abstracted = len(p.roots) > 0
	return q
}

func intLit(v int64) string {
	if v < 0 {
		return fmt.Sprintf("(- %d)", uint64(-v))
	}
	return fmt.Sprint(v)
}

// DebugInt, when set, receives the reason a query was not translatable.
var DebugInt func(string)

type intPrinter struct {
	abs     map[uint64]*island
	ufs     map[string]string
	ufDecls []string
	roots   []*Term
	why     string
	ia      *Intervals
	refs    map[uint64]int
	named   map[uint64]bool
	vars    map[*Term]bool
	sb      strings.Builder
}

func (p *intPrinter) nonneg(t *Term) bool {
	iv := p.ia.Of(t)
	return iv.OK && iv.Lo >= 0
}

// count checks translatability and counts references.
func (p *intPrinter) count(t *Term) bool {
	p.refs[t.ID]++
	if p.refs[t.ID] > 1 {
		return true
	}
	if t.W == FP64 || t.W > 64 {
		p.why = "float or wide term"
		return false
	}
	if isIslandRoot(t) {
		// a float computation with integer inputs and a non-float result: an
		// uninterpreted function of the inputs (see BuildQueryAbstractFP)
		if t.W > 0 {
			if iv := p.ia.Of(t); !iv.OK {
				p.why = "no interval for float->int result " + t.String()
				return false
			}
		}
		is := (&printer{}).fpIsland(t)
		for _, l := range is.leaves {
			if l.W == FP64 {
				p.why = "float input"
				return false
			}
			if !p.count(l) {
				return false
			}
		}
		if p.abs == nil {
			p.abs, p.ufs = map[uint64]*island{}, map[string]string{}
		}
		p.abs[t.ID] = is
		p.roots = append(p.roots, t)
		if _, ok := p.ufs[is.shape]; !ok {
			name := fmt.Sprintf("fpabs!%d", len(p.ufs))
			p.ufs[is.shape] = name
			var sb strings.Builder
			fmt.Fprintf(&sb, "(declare-fun %s (", name)
			for _, l := range is.leaves {
				if l.W == 0 {
					sb.WriteString("Bool ")
				} else {
					sb.WriteString("Int ")
				}
			}
			if t.W == 0 {
				sb.WriteString(") Bool)\n")
			} else {
				sb.WriteString(") Int)\n")
			}
			p.ufDecls = append(p.ufDecls, sb.String())
		}
		return true
	}
	if t.W > 0 {
		if iv := p.ia.Of(t); !iv.OK {
			if p.why == "" {
				// report the deepest sub-term without an interval
				d := t
				for {
					var next *Term
					for i := 0; i < d.N; i++ {
						if c := d.A[i]; c.W > 0 && c.W <= 64 && !p.ia.Of(c).OK {
							next = c
							break
						}
					}
					if next == nil {
						break
					}
					d = next
				}
				p.why = "no interval for " + d.String()
			}
			return false
		}
	}
	switch t.Op {
	case OVar:
		p.vars[t] = true
		return true
	case OConst:
		return true
	case OAdd, OSub, OMul, ONeg, OIte, OEq, OSlt, OSle, OBNot, OBAnd, OBOr, OSext, OSDiv, OSRem:
	case OUlt, OUle, OUDiv, OURem:
		if !p.nonneg(t.A[0]) || !p.nonneg(t.A[1]) {
			p.why = "unsigned op on possibly negative operand: " + t.String()
			return false
		}
	case OZext:
		if !p.nonneg(t.A[0]) {
			p.why = "zext of possibly negative: " + t.String()
			return false
		}
	case OExtract:
		if t.Aux != 0 {
			p.why = "extract of high bits"
			return false
		}
	default:
		p.why = "op " + opNames[t.Op]
		return false
	}
	for i := 0; i < t.N; i++ {
		if !p.count(t.A[i]) {
			return false
		}
	}
	if t.Op == OSDiv || t.Op == OSRem {
		// the truncated-division expansion mentions each operand several times:
		// make sure non-trivial operands get a name instead of being copied
		p.refs[t.A[0].ID] += 2
		p.refs[t.A[1].ID] += 2
	}
	return true
}

func (p *intPrinter) define(t *Term) {
	if t.Op == OVar || t.Op == OConst || p.named[t.ID] {
		return
	}
	if is := p.abs[t.ID]; is != nil {
		for _, l := range is.leaves {
			p.define(l)
		}
	} else {
		for i := 0; i < t.N; i++ {
			p.define(t.A[i])
		}
	}
	if p.refs[t.ID] > 1 || t.size > 200 {
		srt := "Int"
		if t.W == 0 {
			srt = "Bool"
		}
		fmt.Fprintf(&p.sb, "(define-fun t!%d () %s ", t.ID, srt)
		p.expr(t, true)
		p.sb.WriteString(")\n")
		p.named[t.ID] = true
	}
}

func (p *intPrinter) bin(op string, t *Term) {
	p.sb.WriteString("(" + op + " ")
	p.expr(t.A[0], false)
	p.sb.WriteByte(' ')
	p.expr(t.A[1], false)
	p.sb.WriteByte(')')
}

func (p *intPrinter) expr(t *Term, top bool) {
	if !top && p.named[t.ID] {
		fmt.Fprintf(&p.sb, "t!%d", t.ID)
		return
	}
	if is := p.abs[t.ID]; is != nil {
		if len(is.leaves) == 0 {
			p.sb.WriteString(p.ufs[is.shape])
			return
		}
		p.sb.WriteString("(" + p.ufs[is.shape])
		for _, l := range is.leaves {
			p.sb.WriteByte(' ')
			p.expr(l, false)
		}
		p.sb.WriteByte(')')
		return
	}
	switch t.Op {
	case OVar:
		p.sb.WriteString(symName(t.Name))
	case OConst:
		if t.W == 0 {
			if t.Lo != 0 {
				p.sb.WriteString("true")
			} else {
				p.sb.WriteString("false")
			}
		} else {
			p.sb.WriteString(intLit(t.SInt()))
		}
	case OAdd:
		p.bin("+", t)
	case OSub:
		p.bin("-", t)
	case OMul:
		p.bin("*", t)
	case ONeg:
		p.sb.WriteString("(- ")
		p.expr(t.A[0], false)
		p.sb.WriteByte(')')
	case OSDiv, OUDiv, OSRem, OURem:
		// truncated division; SMT-LIB div/mod are Euclidean. With a non-negative
		// dividend and positive divisor they coincide; otherwise spell it out.
		a, b := t.A[0], t.A[1]
		ivb := p.ia.Of(b)
		simple := p.nonneg(a) && ivb.OK && ivb.Lo >= 0
		isDiv := t.Op == OSDiv || t.Op == OUDiv
		if simple {
			if isDiv {
				p.bin("div", t)
			} else {
				p.bin("mod", t)
			}
			return
		}
		var as, bs strings.Builder
		save := p.sb
		p.sb = as
		p.expr(a, false)
		A := p.sb.String()
		p.sb = bs
		p.expr(b, false)
		B := p.sb.String()
		p.sb = save
		q := fmt.Sprintf("(ite (>= %s 0) (ite (> %s 0) (div %s %s) (- (div %s (- %s)))) (ite (> %s 0) (- (div (- %s) %s)) (div (- %s) (- %s))))", A, B, A, B, A, B, B, A, B, A, B)
		if isDiv {
			p.sb.WriteString(q)
		} else {
			fmt.Fprintf(&p.sb, "(- %s (* %s %s))", A, B, q)
		}
	case OIte:
		p.sb.WriteString("(ite ")
		p.expr(t.A[0], false)
		p.sb.WriteByte(' ')
		p.expr(t.A[1], false)
		p.sb.WriteByte(' ')
		p.expr(t.A[2], false)
		p.sb.WriteByte(')')
	case OEq:
		p.bin("=", t)
	case OSlt, OUlt:
		p.bin("<", t)
	case OSle, OUle:
		p.bin("<=", t)
	case OBNot:
		p.sb.WriteString("(not ")
		p.expr(t.A[0], false)
		p.sb.WriteByte(')')
	case OBAnd:
		p.bin("and", t)
	case OBOr:
		p.bin("or", t)
	case OSext, OZext, OExtract:
		p.expr(t.A[0], false)
	default:
		panic("intPrinter: untranslatable op reached expr")
	}
}
