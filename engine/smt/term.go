// Package smt holds the term language of the gosym engine: hash-consed
// bit-vector / Boolean / float64 terms with local simplification, a concrete
// evaluator (used for the model cache and for replay extraction) and an
// SMT-LIB2 printer.
package smt

import (
	"fmt"
	"math"
	"math/bits"
	"sync"
	"sync/atomic"
)

type Op uint8

const (
	OVar Op = iota
	OConst
	OAdd
	OSub
	OMul
	OSDiv
	OUDiv
	OSRem
	OURem
	OAnd
	OOr
	OXor
	ONot
	ONeg
	OShl
	OLShr
	OAShr
	OEq
	OSlt
	OSle
	OUlt
	OUle
	OBNot
	OBAnd
	OBOr
	OIte
	OExtract // aux = lo bit, W = result width
	OZext
	OSext
	OConcat
	OFAdd
	OFSub
	OFMul
	OFDiv
	OFNeg
	OFAbs
	OFLt
	OFLe
	OFEq
	OFIsNaN
	OFIsInf
	OFFromS // signed bv -> fp64 (RNE)
	OFFromU
	OFToS // fp64 -> signed bv of width W (RTZ)
	OFToU
	OFRound // aux = rounding mode
	OFMax
	OFMin
	OFSqrt
	OFFromBits // bv64 -> fp64 reinterpretation
	nOps
)

var opNames = [...]string{"var", "const", "bvadd", "bvsub", "bvmul", "bvsdiv", "bvudiv", "bvsrem", "bvurem", "bvand", "bvor", "bvxor", "bvnot", "bvneg", "bvshl", "bvlshr", "bvashr", "=", "bvslt", "bvsle", "bvult", "bvule", "not", "and", "or", "ite", "extract", "zero_extend", "sign_extend", "concat",
	"fp.add", "fp.sub", "fp.mul", "fp.div", "fp.neg", "fp.abs", "fp.lt", "fp.leq", "fp.eq", "fp.isNaN", "fp.isInfinite", "to_fp", "to_fp_unsigned", "fp.to_sbv", "fp.to_ubv", "fp.roundToIntegral", "fp.max", "fp.min", "fp.sqrt", "to_fp_bits"}

// Rounding modes for OFRound.
const (
	RNE = iota
	RNA // math.Round
	RTP // math.Ceil
	RTN // math.Floor
	RTZ // math.Trunc
)

var rmNames = [...]string{"RNE", "RNA", "RTP", "RTN", "RTZ"}

// Sorts are encoded in W: 0 = Bool, 1..128 = BitVec width, FP64 = -64.
const (
	Bool = 0
	FP64 = -64
)

type Term struct {
	Op     Op
	W      int
	Aux    int
	A      [3]*Term
	N      int // number of args
	Lo, Hi uint64
	Name   string
	ID     uint64
	flags  uint8 // bit0: contains FP, bit1: contains nonlinear, bit2: contains var
	size   uint32
}

const (
	fFP = 1 << iota
	fNonlin
	fVar
	fWide
)

func (t *Term) HasFP() bool     { return t.flags&fFP != 0 }
func (t *Term) HasNonlin() bool { return t.flags&fNonlin != 0 }
func (t *Term) HasVar() bool    { return t.flags&fVar != 0 }
func (t *Term) HasWide() bool   { return t.flags&fWide != 0 }
func (t *Term) IsConst() bool   { return t.Op == OConst }
func (t *Term) IsTrue() bool    { return t.Op == OConst && t.W == 0 && t.Lo == 1 }
func (t *Term) IsFalse() bool   { return t.Op == OConst && t.W == 0 && t.Lo == 0 }
func (t *Term) Size() uint32    { return t.size }

type key struct {
	op         Op
	w, aux     int
	a0, a1, a2 uint64
	lo, hi     uint64
	name       string
}

const nShards = 64

type shard struct {
	mu sync.Mutex
	m  map[key]*Term
}

var shards [nShards]shard
var nextID uint64

// NumTerms reports the number of distinct terms built so far.
func NumTerms() uint64 { return atomic.LoadUint64(&nextID) }

func intern(op Op, w, aux int, lo, hi uint64, name string, args ...*Term) *Term {
	k := key{op: op, w: w, aux: aux, lo: lo, hi: hi, name: name}
	var fl uint8
	var sz uint32 = 1
	if len(args) > 0 {
		k.a0 = args[0].ID
		fl |= args[0].flags
		sz += args[0].size
	}
	if len(args) > 1 {
		k.a1 = args[1].ID
		fl |= args[1].flags
		sz += args[1].size
	}
	if len(args) > 2 {
		k.a2 = args[2].ID
		fl |= args[2].flags
		sz += args[2].size
	}
	if sz > 1<<30 {
		sz = 1 << 30
	}
	h := (uint64(op)*0x9E3779B97F4A7C15 ^ k.a0*31 ^ k.a1*131 ^ k.a2*1031 ^ lo ^ uint64(len(name))) % nShards
	s := &shards[h]
	s.mu.Lock()
	if s.m == nil {
		s.m = make(map[key]*Term)
	}
	if t, ok := s.m[k]; ok {
		s.mu.Unlock()
		return t
	}
	t := &Term{Op: op, W: w, Aux: aux, Lo: lo, Hi: hi, Name: name, N: len(args)}
	copy(t.A[:], args)
	t.ID = atomic.AddUint64(&nextID, 1)
	if w == FP64 || (op >= OFAdd && op <= OFFromBits) {
		fl |= fFP
	}
	if w > 64 {
		fl |= fWide
	}
	switch op {
	case OVar:
		fl |= fVar
	case OMul, OSDiv, OUDiv, OSRem, OURem:
		if !(args[0].IsConst() || args[1].IsConst()) {
			fl |= fNonlin
		}
	case OShl, OLShr, OAShr:
		if !args[1].IsConst() {
			fl |= fNonlin
		}
	}
	t.flags = fl
	t.size = sz
	s.m[k] = t
	s.mu.Unlock()
	return t
}

// ---- constructors -----------------------------------------------------------

var (
	True  = intern(OConst, 0, 0, 1, 0, "")
	False = intern(OConst, 0, 0, 0, 0, "")
)

func BoolC(b bool) *Term {
	if b {
		return True
	}
	return False
}

func maskLo(w int) uint64 {
	if w >= 64 {
		return ^uint64(0)
	}
	return (uint64(1) << uint(w)) - 1
}
func maskHi(w int) uint64 {
	if w <= 64 {
		return 0
	}
	if w >= 128 {
		return ^uint64(0)
	}
	return (uint64(1) << uint(w-64)) - 1
}

// BV builds a bit-vector constant of width w from the low bits of v.
func BV(v uint64, w int) *Term { return intern(OConst, w, 0, v&maskLo(w), 0, "") }

// BV128 builds a constant wider than 64 bits.
func BV128(lo, hi uint64, w int) *Term { return intern(OConst, w, 0, lo&maskLo(w), hi&maskHi(w), "") }

// BVS builds a constant from a signed value (sign-extended beyond 64 bits).
func BVS(v int64, w int) *Term {
	if w > 64 {
		hi := uint64(0)
		if v < 0 {
			hi = ^uint64(0)
		}
		return BV128(uint64(v), hi, w)
	}
	return BV(uint64(v), w)
}

func FPC(f float64) *Term { return intern(OConst, FP64, 0, math.Float64bits(f), 0, "") }

func Var(name string, w int) *Term { return intern(OVar, w, 0, 0, 0, name) }

// SInt returns the constant's value sign-extended (w<=64).
func (t *Term) SInt() int64 {
	if t.W >= 64 {
		return int64(t.Lo)
	}
	sh := uint(64 - t.W)
	return int64(t.Lo<<sh) >> sh
}
func (t *Term) Float() float64 { return math.Float64frombits(t.Lo) }

func sameSort(a, b *Term) {
	if a.W != b.W {
		panic(fmt.Sprintf("smt: sort mismatch %d vs %d (%s, %s)", a.W, b.W, opNames[a.Op], opNames[b.Op]))
	}
}

// Raw builds a term without any simplification (used by the self-test).
func Raw(op Op, w, aux int, args ...*Term) *Term { return intern(op, w, aux, 0, 0, "", args...) }

func constFold(op Op, w, aux int, args ...*Term) *Term {
	for _, a := range args {
		if !a.IsConst() {
			return nil
		}
	}
	var vals [3]val
	for i, a := range args {
		vals[i] = val{a.Lo, a.Hi}
	}
	var ws [3]int
	for i, a := range args {
		ws[i] = a.W
	}
	r, ok := evalOp(op, w, aux, ws, vals, len(args))
	if !ok {
		return nil
	}
	if w == 0 {
		return BoolC(r.lo != 0)
	}
	if w == FP64 {
		return intern(OConst, FP64, 0, r.lo, 0, "")
	}
	return BV128(r.lo, r.hi, w)
}

func isZero(t *Term) bool { return t.Op == OConst && t.W > 0 && t.Lo == 0 && t.Hi == 0 }
func isOne(t *Term) bool  { return t.Op == OConst && t.W > 0 && t.Lo == 1 && t.Hi == 0 }
func isAllOnes(t *Term) bool {
	return t.Op == OConst && t.W > 0 && t.Lo == maskLo(t.W) && t.Hi == maskHi(t.W)
}

// liftIte distributes a binary operation over an ite whose branches are both
// constants when the other operand is constant: keeps merged enums/flags small.
func liftIte(f func(a, b *Term) *Term, a, b *Term) *Term {
	if a.Op == OIte && b.IsConst() && constTree(a, 8) > 0 {
		return Ite(a.A[0], f(a.A[1], b), f(a.A[2], b))
	}
	if b.Op == OIte && a.IsConst() && constTree(b, 8) > 0 {
		return Ite(b.A[0], f(a, b.A[1]), f(a, b.A[2]))
	}
	// two const-trees (e.g. the difference of two merged scales)
	if a.Op == OIte && b.Op == OIte {
		if la, lb := constTree(a, 8), constTree(b, 8); la > 0 && lb > 0 && la*lb <= 36 {
			return Ite(a.A[0], f(a.A[1], b), f(a.A[2], b))
		}
	}
	return nil
}

// constTree returns the number of leaves if t is a tree of ites whose leaves are all
// constants (at most max leaves), else 0. Such terms arise when a small concrete
// field (a quantity's scale, an enum) is merged over several paths.
func constTree(t *Term, max int) int {
	if t.IsConst() {
		return 1
	}
	if t.Op != OIte || max < 2 {
		return 0
	}
	l := constTree(t.A[1], max-1)
	if l == 0 {
		return 0
	}
	r := constTree(t.A[2], max-l)
	if r == 0 {
		return 0
	}
	return l + r
}

func Add(a, b *Term) *Term {
	sameSort(a, b)
	if c := constFold(OAdd, a.W, 0, a, b); c != nil {
		return c
	}
	if isZero(a) {
		return b
	}
	if isZero(b) {
		return a
	}
	if a.IsConst() { // constants to the right
		a, b = b, a
	}
	if r := liftIte(Add, a, b); r != nil {
		return r
	}
	// (x + c1) + c2
	if b.IsConst() && a.Op == OAdd && a.A[1].IsConst() {
		return Add(a.A[0], Add(a.A[1], b))
	}
	// (x + c1) + (y + c2)
	if a.Op == OAdd && a.A[1].IsConst() && b.Op == OAdd && b.A[1].IsConst() {
		return Add(Add(a.A[0], b.A[0]), Add(a.A[1], b.A[1]))
	}
	if a.Op == OAdd && a.A[1].IsConst() && !b.IsConst() {
		return Add(Add(a.A[0], b), a.A[1])
	}
	if b.Op == OAdd && b.A[1].IsConst() && !a.IsConst() {
		return Add(Add(a, b.A[0]), b.A[1])
	}
	// x + (y - x) = y ; (y - x) + x = y
	if b.Op == OSub && b.A[1] == a {
		return b.A[0]
	}
	if a.Op == OSub && a.A[1] == b {
		return a.A[0]
	}
	if !b.IsConst() && a.ID > b.ID { // canonical order for commutativity
		a, b = b, a
	}
	return intern(OAdd, a.W, 0, 0, 0, "", a, b)
}

func Sub(a, b *Term) *Term {
	sameSort(a, b)
	if c := constFold(OSub, a.W, 0, a, b); c != nil {
		return c
	}
	if isZero(b) {
		return a
	}
	if a == b {
		return BV(0, a.W).widen(a.W)
	}
	if r := liftIte(Sub, a, b); r != nil {
		return r
	}
	if b.IsConst() {
		return Add(a, Neg(b))
	}
	// (x + y) - y = x ; (x + y) - x = y
	if a.Op == OAdd {
		if a.A[1] == b {
			return a.A[0]
		}
		if a.A[0] == b {
			return a.A[1]
		}
	}
	// (x + c) - y = (x - y) + c
	if a.Op == OAdd && a.A[1].IsConst() {
		return Add(Sub(a.A[0], b), a.A[1])
	}
	// x - (y + c) = (x - y) - c
	if b.Op == OAdd && b.A[1].IsConst() {
		return Add(Sub(a, b.A[0]), Neg(b.A[1]))
	}
	return intern(OSub, a.W, 0, 0, 0, "", a, b)
}

func (t *Term) widen(w int) *Term {
	if t.W == w {
		return t
	}
	return BV128(t.Lo, t.Hi, w)
}

func Neg(a *Term) *Term {
	if c := constFold(ONeg, a.W, 0, a); c != nil {
		return c
	}
	if a.Op == ONeg {
		return a.A[0]
	}
	if a.Op == OIte && constTree(a, 8) > 0 {
		return Ite(a.A[0], Neg(a.A[1]), Neg(a.A[2]))
	}
	return intern(ONeg, a.W, 0, 0, 0, "", a)
}

func Mul(a, b *Term) *Term {
	sameSort(a, b)
	if c := constFold(OMul, a.W, 0, a, b); c != nil {
		return c
	}
	if a.IsConst() {
		a, b = b, a
	}
	if isZero(b) {
		return b
	}
	if isOne(b) {
		return a
	}
	if r := liftIte(Mul, a, b); r != nil {
		return r
	}
	if !b.IsConst() && a.ID > b.ID {
		a, b = b, a
	}
	return intern(OMul, a.W, 0, 0, 0, "", a, b)
}

func divLike(op Op, a, b *Term) *Term {
	sameSort(a, b)
	if c := constFold(op, a.W, 0, a, b); c != nil {
		return c
	}
	if isOne(b) {
		if op == OSDiv || op == OUDiv {
			return a
		}
		return BV128(0, 0, a.W)
	}
	return intern(op, a.W, 0, 0, 0, "", a, b)
}
func SDiv(a, b *Term) *Term { return divLike(OSDiv, a, b) }
func UDiv(a, b *Term) *Term { return divLike(OUDiv, a, b) }
func SRem(a, b *Term) *Term { return divLike(OSRem, a, b) }
func URem(a, b *Term) *Term { return divLike(OURem, a, b) }

func BvAnd(a, b *Term) *Term {
	sameSort(a, b)
	if c := constFold(OAnd, a.W, 0, a, b); c != nil {
		return c
	}
	if a.IsConst() {
		a, b = b, a
	}
	if isZero(b) {
		return b
	}
	if isAllOnes(b) || a == b {
		return a
	}
	if !b.IsConst() && a.ID > b.ID {
		a, b = b, a
	}
	return intern(OAnd, a.W, 0, 0, 0, "", a, b)
}
func BvOr(a, b *Term) *Term {
	sameSort(a, b)
	if c := constFold(OOr, a.W, 0, a, b); c != nil {
		return c
	}
	if a.IsConst() {
		a, b = b, a
	}
	if isZero(b) || a == b {
		return a
	}
	if isAllOnes(b) {
		return b
	}
	if !b.IsConst() && a.ID > b.ID {
		a, b = b, a
	}
	return intern(OOr, a.W, 0, 0, 0, "", a, b)
}
func BvXor(a, b *Term) *Term {
	sameSort(a, b)
	if c := constFold(OXor, a.W, 0, a, b); c != nil {
		return c
	}
	if a == b {
		return BV128(0, 0, a.W)
	}
	if a.IsConst() {
		a, b = b, a
	}
	if isZero(b) {
		return a
	}
	if !b.IsConst() && a.ID > b.ID {
		a, b = b, a
	}
	return intern(OXor, a.W, 0, 0, 0, "", a, b)
}
func BvNot(a *Term) *Term {
	if c := constFold(ONot, a.W, 0, a); c != nil {
		return c
	}
	if a.Op == ONot {
		return a.A[0]
	}
	return intern(ONot, a.W, 0, 0, 0, "", a)
}

func shiftLike(op Op, a, b *Term) *Term {
	sameSort(a, b)
	if c := constFold(op, a.W, 0, a, b); c != nil {
		return c
	}
	if isZero(b) {
		return a
	}
	return intern(op, a.W, 0, 0, 0, "", a, b)
}
func Shl(a, b *Term) *Term  { return shiftLike(OShl, a, b) }
func LShr(a, b *Term) *Term { return shiftLike(OLShr, a, b) }
func AShr(a, b *Term) *Term { return shiftLike(OAShr, a, b) }

func Eq(a, b *Term) *Term {
	sameSort(a, b)
	if a == b && a.W != FP64 {
		return True
	}
	if a.W == FP64 {
		panic("smt: Eq on FP; use FEq")
	}
	if c := constFold(OEq, 0, 0, a, b); c != nil {
		return c
	}
	if a.IsConst() {
		a, b = b, a
	}
	if a.W == 0 {
		if b.IsTrue() {
			return a
		}
		if b.IsFalse() {
			return Not(a)
		}
	}
	// ite(c, k1, k2) == k  with constants
	if b.IsConst() && a.Op == OIte {
		t, e := a.A[1], a.A[2]
		if t.IsConst() || e.IsConst() {
			return Ite(a.A[0], Eq(t, b), Eq(e, b))
		}
	}
	if a.Op == OIte && b.Op == OIte && a.W > 0 {
		if la, lb := constTree(a, 8), constTree(b, 8); la > 0 && lb > 0 && la*lb <= 36 {
			return Ite(a.A[0], Eq(a.A[1], b), Eq(a.A[2], b))
		}
	}
	// (x + c1) == c2  ->  x == c2-c1
	if b.IsConst() && a.Op == OAdd && a.A[1].IsConst() {
		return Eq(a.A[0], Sub(b, a.A[1]))
	}
	if !b.IsConst() && a.ID > b.ID {
		a, b = b, a
	}
	return intern(OEq, 0, 0, 0, 0, "", a, b)
}

func cmpLike(op Op, a, b *Term) *Term {
	sameSort(a, b)
	if c := constFold(op, 0, 0, a, b); c != nil {
		return c
	}
	if a == b {
		return BoolC(op == OSle || op == OUle)
	}
	if b.IsConst() && a.Op == OIte && constTree(a, 8) > 0 {
		return Ite(a.A[0], cmpLike(op, a.A[1], b), cmpLike(op, a.A[2], b))
	}
	if a.IsConst() && b.Op == OIte && constTree(b, 8) > 0 {
		return Ite(b.A[0], cmpLike(op, a, b.A[1]), cmpLike(op, a, b.A[2]))
	}
	if a.Op == OIte && b.Op == OIte {
		if la, lb := constTree(a, 8), constTree(b, 8); la > 0 && lb > 0 && la*lb <= 36 {
			return Ite(a.A[0], cmpLike(op, a.A[1], b), cmpLike(op, a.A[2], b))
		}
	}
	if op == OUlt && isZero(b) {
		return False
	}
	if op == OUle && isZero(a) {
		return True
	}
	return intern(op, 0, 0, 0, 0, "", a, b)
}
func Slt(a, b *Term) *Term { return cmpLike(OSlt, a, b) }
func Sle(a, b *Term) *Term { return cmpLike(OSle, a, b) }
func Ult(a, b *Term) *Term { return cmpLike(OUlt, a, b) }
func Ule(a, b *Term) *Term { return cmpLike(OUle, a, b) }

func Not(a *Term) *Term {
	if a.W != 0 {
		panic("smt: Not on non-bool")
	}
	if a.IsConst() {
		return BoolC(a.Lo == 0)
	}
	if a.Op == OBNot {
		return a.A[0]
	}
	return intern(OBNot, 0, 0, 0, 0, "", a)
}

func And(a, b *Term) *Term {
	if a.W != 0 || b.W != 0 {
		panic("smt: And on non-bool")
	}
	if a.IsFalse() || b.IsFalse() {
		return False
	}
	if a.IsTrue() {
		return b
	}
	if b.IsTrue() || a == b {
		return a
	}
	if a == Not(b) {
		return False
	}
	if a.ID > b.ID {
		a, b = b, a
	}
	return intern(OBAnd, 0, 0, 0, 0, "", a, b)
}
func Or(a, b *Term) *Term {
	if a.W != 0 || b.W != 0 {
		panic("smt: Or on non-bool")
	}
	if a.IsTrue() || b.IsTrue() {
		return True
	}
	if a.IsFalse() {
		return b
	}
	if b.IsFalse() || a == b {
		return a
	}
	if a == Not(b) {
		return True
	}
	if a.ID > b.ID {
		a, b = b, a
	}
	return intern(OBOr, 0, 0, 0, 0, "", a, b)
}
func Implies(a, b *Term) *Term { return Or(Not(a), b) }

func AndN(ts ...*Term) *Term {
	r := True
	for _, t := range ts {
		r = And(r, t)
	}
	return r
}

func Ite(c, a, b *Term) *Term {
	if c.W != 0 {
		panic("smt: Ite cond not bool")
	}
	sameSort(a, b)
	if c.IsTrue() {
		return a
	}
	if c.IsFalse() {
		return b
	}
	if a == b {
		return a
	}
	if c.Op == OBNot {
		return Ite(c.A[0], b, a)
	}
	if a.W == 0 {
		if a.IsTrue() && b.IsFalse() {
			return c
		}
		if a.IsFalse() && b.IsTrue() {
			return Not(c)
		}
		if a.IsTrue() {
			return Or(c, b)
		}
		if a.IsFalse() {
			return And(Not(c), b)
		}
		if b.IsTrue() {
			return Or(Not(c), a)
		}
		if b.IsFalse() {
			return And(c, a)
		}
	}
	// a tree of ites over few distinct constants (a merged scale or enum) is kept in
	// the normal form ite(c1, k1, ite(c2, k2, ... kn)) with the constants ascending
	if a.W > 0 && (a.Op == OIte || b.Op == OIte) {
		if la, lb := constTree(a, 64), constTree(b, 64); la > 0 && lb > 0 && la+lb > 2 {
			if r := normConstTree(c, a, b); r != nil {
				return r
			}
		}
	}
	// ite(c, x, ite(c, y, z)) = ite(c, x, z); ite(c, ite(c,x,y), z) = ite(c,x,z)
	if b.Op == OIte && b.A[0] == c {
		return Ite(c, a, b.A[2])
	}
	if a.Op == OIte && a.A[0] == c {
		return Ite(c, a.A[1], b)
	}
	// ite(c1, x, ite(c2, x, y)) = ite(c1 or c2, x, y)
	if b.Op == OIte && b.A[1] == a {
		return Ite(Or(c, b.A[0]), a, b.A[2])
	}
	return intern(OIte, a.W, 0, 0, 0, "", c, a, b)
}

func Extract(a *Term, hi, lo int) *Term {
	w := hi - lo + 1
	if lo == 0 && w == a.W {
		return a
	}
	if a.IsConst() {
		if c := constFold(OExtract, w, lo, a); c != nil {
			return c
		}
	}
	// extract of zext/sext that stays within the original
	if (a.Op == OZext || a.Op == OSext) && hi < a.A[0].W {
		return Extract(a.A[0], hi, lo)
	}
	if a.Op == OIte && constTree(a, 8) > 0 {
		return Ite(a.A[0], Extract(a.A[1], hi, lo), Extract(a.A[2], hi, lo))
	}
	return intern(OExtract, w, lo, 0, 0, "", a)
}

func Zext(a *Term, w int) *Term {
	if w == a.W {
		return a
	}
	if w < a.W {
		panic("smt: Zext narrows")
	}
	if c := constFold(OZext, w, 0, a); c != nil {
		return c
	}
	if a.Op == OIte && constTree(a, 8) > 0 {
		return Ite(a.A[0], Zext(a.A[1], w), Zext(a.A[2], w))
	}
	return intern(OZext, w, 0, 0, 0, "", a)
}
func Sext(a *Term, w int) *Term {
	if w == a.W {
		return a
	}
	if w < a.W {
		panic("smt: Sext narrows")
	}
	if c := constFold(OSext, w, 0, a); c != nil {
		return c
	}
	if a.Op == OIte && constTree(a, 8) > 0 {
		return Ite(a.A[0], Sext(a.A[1], w), Sext(a.A[2], w))
	}
	return intern(OSext, w, 0, 0, 0, "", a)
}
func Concat(hi, lo *Term) *Term {
	w := hi.W + lo.W
	if c := constFold(OConcat, w, 0, hi, lo); c != nil {
		return c
	}
	// concat(x[127:64], x[63:0]) = x
	if hi.Op == OExtract && lo.Op == OExtract && hi.A[0] == lo.A[0] && lo.Aux == 0 && hi.Aux == lo.W && hi.Aux+hi.W == hi.A[0].W {
		return hi.A[0]
	}
	// concat(0, x) = zext(x)
	if isZero(hi) {
		return Zext(lo, w)
	}
	return intern(OConcat, w, 0, 0, 0, "", hi, lo)
}

// ---- floating point ------------------------------------------------------------

func fpBin(op Op, a, b *Term) *Term {
	if a.W != FP64 || b.W != FP64 {
		panic("smt: fp op on non-fp")
	}
	if c := constFold(op, FP64, 0, a, b); c != nil {
		return c
	}
	return intern(op, FP64, 0, 0, 0, "", a, b)
}
func FAdd(a, b *Term) *Term { return fpBin(OFAdd, a, b) }
func FSub(a, b *Term) *Term { return fpBin(OFSub, a, b) }
func FMul(a, b *Term) *Term { return fpBin(OFMul, a, b) }
func FDiv(a, b *Term) *Term { return fpBin(OFDiv, a, b) }
func FMax(a, b *Term) *Term { return fpBin(OFMax, a, b) }
func FMin(a, b *Term) *Term { return fpBin(OFMin, a, b) }
func fpUn(op Op, aux int, a *Term) *Term {
	if c := constFold(op, FP64, aux, a); c != nil {
		return c
	}
	return intern(op, FP64, aux, 0, 0, "", a)
}
func FNeg(a *Term) *Term          { return fpUn(OFNeg, 0, a) }
func FAbs(a *Term) *Term          { return fpUn(OFAbs, 0, a) }
func FSqrt(a *Term) *Term         { return fpUn(OFSqrt, 0, a) }
func FRound(a *Term, m int) *Term { return fpUn(OFRound, m, a) }
func fpCmp(op Op, a, b *Term) *Term {
	if c := constFold(op, 0, 0, a, b); c != nil {
		return c
	}
	return intern(op, 0, 0, 0, 0, "", a, b)
}
func FLt(a, b *Term) *Term { return fpCmp(OFLt, a, b) }
func FLe(a, b *Term) *Term { return fpCmp(OFLe, a, b) }
func FEq(a, b *Term) *Term { return fpCmp(OFEq, a, b) }
func FIsNaN(a *Term) *Term {
	if c := constFold(OFIsNaN, 0, 0, a); c != nil {
		return c
	}
	return intern(OFIsNaN, 0, 0, 0, 0, "", a)
}
func FIsInf(a *Term) *Term {
	if c := constFold(OFIsInf, 0, 0, a); c != nil {
		return c
	}
	return intern(OFIsInf, 0, 0, 0, 0, "", a)
}
func FFromS(a *Term) *Term {
	if c := constFold(OFFromS, FP64, 0, a); c != nil {
		return c
	}
	return intern(OFFromS, FP64, 0, 0, 0, "", a)
}
func FFromU(a *Term) *Term {
	if c := constFold(OFFromU, FP64, 0, a); c != nil {
		return c
	}
	return intern(OFFromU, FP64, 0, 0, 0, "", a)
}
func FToS(a *Term, w int) *Term {
	if c := constFold(OFToS, w, 0, a); c != nil {
		return c
	}
	// finite * (+-0) = +-0, which converts to 0
	if a.Op == OFMul {
		for i := 0; i < 2; i++ {
			x, z := a.A[i], a.A[1-i]
			if (x.Op == OFFromS || x.Op == OFFromU) && z.IsConst() && z.Float() == 0 {
				return BV128(0, 0, w)
			}
		}
	}
	return intern(OFToS, w, 0, 0, 0, "", a)
}
func FToU(a *Term, w int) *Term {
	if c := constFold(OFToU, w, 0, a); c != nil {
		return c
	}
	return intern(OFToU, w, 0, 0, 0, "", a)
}
func FFromBits(a *Term) *Term {
	if c := constFold(OFFromBits, FP64, 0, a); c != nil {
		return c
	}
	return intern(OFFromBits, FP64, 0, 0, 0, "", a)
}

// ---- evaluation ---------------------------------------------------------------

type val struct{ lo, hi uint64 }

func norm(v val, w int) val {
	if w <= 0 {
		return v
	}
	return val{v.lo & maskLo(w), v.hi & maskHi(w)}
}

func isNeg(v val, w int) bool {
	if w <= 64 {
		return v.lo>>(uint(w)-1)&1 == 1
	}
	return v.hi>>(uint(w-64)-1)&1 == 1
}

func neg128(v val, w int) val {
	lo, c := bits.Sub64(0, v.lo, 0)
	hi, _ := bits.Sub64(0, v.hi, c)
	return norm(val{lo, hi}, w)
}

func ult128(a, b val) bool {
	if a.hi != b.hi {
		return a.hi < b.hi
	}
	return a.lo < b.lo
}

func udivrem128(a, b val) (q, r val) {
	if b.hi == 0 && a.hi == 0 {
		return val{a.lo / b.lo, 0}, val{a.lo % b.lo, 0}
	}
	if b.hi == 0 {
		qhi := a.hi / b.lo
		rhi := a.hi % b.lo
		qlo, rr := bits.Div64(rhi, a.lo, b.lo)
		return val{qlo, qhi}, val{rr, 0}
	}
	// slow path: shift-subtract
	var rem val
	for i := 127; i >= 0; i-- {
		rem.hi = rem.hi<<1 | rem.lo>>63
		rem.lo <<= 1
		var bit uint64
		if i >= 64 {
			bit = a.hi >> uint(i-64) & 1
		} else {
			bit = a.lo >> uint(i) & 1
		}
		rem.lo |= bit
		if !ult128(rem, b) {
			lo, c := bits.Sub64(rem.lo, b.lo, 0)
			hi, _ := bits.Sub64(rem.hi, b.hi, c)
			rem = val{lo, hi}
			if i >= 64 {
				q.hi |= 1 << uint(i-64)
			} else {
				q.lo |= 1 << uint(i)
			}
		}
	}
	return q, rem
}

func shl128(a val, n uint) val {
	if n >= 128 {
		return val{}
	}
	if n >= 64 {
		return val{0, a.lo << (n - 64)}
	}
	if n == 0 {
		return a
	}
	return val{a.lo << n, a.hi<<n | a.lo>>(64-n)}
}
func lshr128(a val, n uint) val {
	if n >= 128 {
		return val{}
	}
	if n >= 64 {
		return val{a.hi >> (n - 64), 0}
	}
	if n == 0 {
		return a
	}
	return val{a.lo>>n | a.hi<<(64-n), a.hi >> n}
}

func sext128(v val, w int) val { // sign extend from width w to 128
	if !isNeg(v, w) {
		return v
	}
	if w <= 64 {
		return val{v.lo | ^maskLo(w), ^uint64(0)}
	}
	return val{v.lo, v.hi | ^maskHi(w)}
}

func b2v(b bool) val {
	if b {
		return val{1, 0}
	}
	return val{}
}

func evalOp(op Op, w, aux int, ws [3]int, a [3]val, n int) (val, bool) {
	aw := ws[0]
	switch op {
	case OAdd:
		lo, c := bits.Add64(a[0].lo, a[1].lo, 0)
		hi, _ := bits.Add64(a[0].hi, a[1].hi, c)
		return norm(val{lo, hi}, w), true
	case OSub:
		lo, c := bits.Sub64(a[0].lo, a[1].lo, 0)
		hi, _ := bits.Sub64(a[0].hi, a[1].hi, c)
		return norm(val{lo, hi}, w), true
	case OMul:
		hi, lo := bits.Mul64(a[0].lo, a[1].lo)
		hi += a[0].hi*a[1].lo + a[0].lo*a[1].hi
		return norm(val{lo, hi}, w), true
	case OUDiv, OURem:
		if a[1].lo == 0 && a[1].hi == 0 {
			if op == OUDiv {
				return val{maskLo(w), maskHi(w)}, true
			}
			return a[0], true
		}
		q, r := udivrem128(a[0], a[1])
		if op == OUDiv {
			return norm(q, w), true
		}
		return norm(r, w), true
	case OSDiv, OSRem:
		x, y := a[0], a[1]
		nx, ny := isNeg(x, w), isNeg(y, w)
		if y.lo == 0 && y.hi == 0 {
			if op == OSDiv {
				if nx {
					return val{1, 0}, true
				}
				return val{maskLo(w), maskHi(w)}, true
			}
			return x, true
		}
		if nx {
			x = neg128(x, w)
		}
		if ny {
			y = neg128(y, w)
		}
		q, r := udivrem128(x, y)
		if op == OSDiv {
			if nx != ny {
				q = neg128(q, w)
			}
			return norm(q, w), true
		}
		if nx {
			r = neg128(r, w)
		}
		return norm(r, w), true
	case OAnd:
		return val{a[0].lo & a[1].lo, a[0].hi & a[1].hi}, true
	case OOr:
		return val{a[0].lo | a[1].lo, a[0].hi | a[1].hi}, true
	case OXor:
		return val{a[0].lo ^ a[1].lo, a[0].hi ^ a[1].hi}, true
	case ONot:
		return norm(val{^a[0].lo, ^a[0].hi}, w), true
	case ONeg:
		return neg128(a[0], w), true
	case OShl:
		if a[1].hi != 0 || a[1].lo >= uint64(w) {
			return val{}, true
		}
		return norm(shl128(a[0], uint(a[1].lo)), w), true
	case OLShr:
		if a[1].hi != 0 || a[1].lo >= uint64(w) {
			return val{}, true
		}
		return lshr128(a[0], uint(a[1].lo)), true
	case OAShr:
		n := uint64(w)
		if a[1].hi == 0 && a[1].lo < n {
			n = a[1].lo
		}
		x := sext128(a[0], w)
		// arithmetic shift on 128 bits
		neg := isNeg(a[0], w)
		r := lshr128(x, uint(n))
		if neg && n > 0 {
			if n >= 128 {
				r = val{^uint64(0), ^uint64(0)}
			} else {
				fill := shl128(val{^uint64(0), ^uint64(0)}, 128-uint(n))
				r = val{r.lo | fill.lo, r.hi | fill.hi}
			}
		}
		return norm(r, w), true
	case OEq:
		return b2v(a[0] == a[1]), true
	case OUlt:
		return b2v(ult128(a[0], a[1])), true
	case OUle:
		return b2v(!ult128(a[1], a[0])), true
	case OSlt, OSle:
		x, y := sext128(a[0], aw), sext128(a[1], aw)
		// flip sign bit for unsigned compare
		x.hi ^= 1 << 63
		y.hi ^= 1 << 63
		if op == OSlt {
			return b2v(ult128(x, y)), true
		}
		return b2v(!ult128(y, x)), true
	case OBNot:
		return b2v(a[0].lo == 0), true
	case OBAnd:
		return b2v(a[0].lo != 0 && a[1].lo != 0), true
	case OBOr:
		return b2v(a[0].lo != 0 || a[1].lo != 0), true
	case OIte:
		if a[0].lo != 0 {
			return a[1], true
		}
		return a[2], true
	case OExtract:
		return norm(lshr128(a[0], uint(aux)), w), true
	case OZext:
		return a[0], true
	case OSext:
		return norm(sext128(a[0], aw), w), true
	case OConcat:
		lw := ws[1]
		h := shl128(a[0], uint(lw))
		return norm(val{h.lo | a[1].lo, h.hi | a[1].hi}, w), true
	}
	// floating point
	f := func(i int) float64 { return math.Float64frombits(a[i].lo) }
	fv := func(x float64) (val, bool) { return val{math.Float64bits(x), 0}, true }
	switch op {
	case OFAdd:
		return fv(f(0) + f(1))
	case OFSub:
		return fv(f(0) - f(1))
	case OFMul:
		return fv(f(0) * f(1))
	case OFDiv:
		return fv(f(0) / f(1))
	case OFNeg:
		return fv(-f(0))
	case OFAbs:
		return fv(math.Abs(f(0)))
	case OFSqrt:
		return fv(math.Sqrt(f(0)))
	case OFMax:
		x, y := f(0), f(1)
		if math.IsNaN(x) || math.IsNaN(y) || (x == 0 && y == 0) {
			return val{}, false // SMT-LIB fp.max differs from math.Max here; do not fold
		}
		return fv(math.Max(x, y))
	case OFMin:
		x, y := f(0), f(1)
		if math.IsNaN(x) || math.IsNaN(y) || (x == 0 && y == 0) {
			return val{}, false
		}
		return fv(math.Min(x, y))
	case OFLt:
		return b2v(f(0) < f(1)), true
	case OFLe:
		return b2v(f(0) <= f(1)), true
	case OFEq:
		return b2v(f(0) == f(1)), true
	case OFIsNaN:
		return b2v(math.IsNaN(f(0))), true
	case OFIsInf:
		return b2v(math.IsInf(f(0), 0)), true
	case OFFromS:
		if aw > 64 {
			return val{}, false
		}
		sh := uint(64 - aw)
		return fv(float64(int64(a[0].lo<<sh) >> sh))
	case OFFromU:
		if aw > 64 {
			return val{}, false
		}
		return fv(float64(a[0].lo))
	case OFToS:
		x := f(0)
		if math.IsNaN(x) || w > 64 {
			return val{}, false
		}
		t := math.Trunc(x)
		lim := math.Ldexp(1, w-1)
		if t >= lim || t < -lim {
			return val{}, false
		}
		return norm(val{uint64(int64(t)), 0}, w), true
	case OFToU:
		x := f(0)
		if math.IsNaN(x) || w > 64 {
			return val{}, false
		}
		t := math.Trunc(x)
		if t < 0 || t >= math.Ldexp(1, w) {
			return val{}, false
		}
		return norm(val{uint64(t), 0}, w), true
	case OFRound:
		x := f(0)
		switch aux {
		case RNE:
			return fv(math.RoundToEven(x))
		case RNA:
			return fv(math.Round(x))
		case RTP:
			return fv(math.Ceil(x))
		case RTN:
			return fv(math.Floor(x))
		case RTZ:
			return fv(math.Trunc(x))
		}
	case OFFromBits:
		return val{a[0].lo, 0}, true
	}
	return val{}, false
}

// Model maps variable names to values (bit patterns; Bool as 0/1).
type Model map[string]Value

type Value struct{ Lo, Hi uint64 }

// Evaluator evaluates terms under one model with memoisation.
type Evaluator struct {
	M    Model
	memo map[uint64]val
	// Missing is set when a variable was not in the model (treated as zero).
	Missing bool
	Failed  bool // an operation could not be evaluated concretely
}

func NewEvaluator(m Model) *Evaluator { return &Evaluator{M: m, memo: make(map[uint64]val)} }

func (e *Evaluator) Eval(t *Term) Value {
	v := e.eval(t)
	return Value{v.lo, v.hi}
}

func (e *Evaluator) Bool(t *Term) bool { return e.eval(t).lo != 0 }

func (e *Evaluator) eval(t *Term) val {
	switch t.Op {
	case OConst:
		return val{t.Lo, t.Hi}
	case OVar:
		v, ok := e.M[t.Name]
		if !ok {
			e.Missing = true
		}
		return val{v.Lo, v.Hi}
	}
	if v, ok := e.memo[t.ID]; ok {
		return v
	}
	var a [3]val
	var ws [3]int
	if t.Op == OIte { // lazy: avoid evaluating the dead arm (deep chains)
		c := e.eval(t.A[0])
		var r val
		if c.lo != 0 {
			r = e.eval(t.A[1])
		} else {
			r = e.eval(t.A[2])
		}
		e.memo[t.ID] = r
		return r
	}
	for i := 0; i < t.N; i++ {
		a[i] = e.eval(t.A[i])
		ws[i] = t.A[i].W
	}
	r, ok := evalOp(t.Op, t.W, t.Aux, ws, a, t.N)
	if !ok {
		e.Failed = true
	}
	e.memo[t.ID] = r
	return r
}

// Vars collects the variables of t into set.
func Vars(t *Term, set map[*Term]bool, seen map[uint64]bool) {
	if !t.HasVar() || seen[t.ID] {
		return
	}
	seen[t.ID] = true
	if t.Op == OVar {
		set[t] = true
		return
	}
	for i := 0; i < t.N; i++ {
		Vars(t.A[i], set, seen)
	}
}

func collectLeaves(guard *Term, t *Term, out map[*Term]*Term) {
	if t.IsConst() {
		if g, ok := out[t]; ok {
			out[t] = Or(g, guard)
		} else {
			out[t] = guard
		}
		return
	}
	collectLeaves(And(guard, t.A[0]), t.A[1], out)
	collectLeaves(And(guard, Not(t.A[0])), t.A[2], out)
}

// normConstTree rebuilds ite(c, a, b), a and b const-trees, grouped by leaf value.
// It returns nil when that would not reduce the number of leaves.
func normConstTree(c, a, b *Term) *Term {
	leaves := map[*Term]*Term{}
	collectLeaves(c, a, leaves)
	collectLeaves(Not(c), b, leaves)
	total := constTree(a, 64) + constTree(b, 64)
	if len(leaves) >= total {
		return nil
	}
	ks := make([]*Term, 0, len(leaves))
	for k := range leaves {
		ks = append(ks, k)
	}
	// ascending by (Hi, Lo) for determinism
	for i := 1; i < len(ks); i++ {
		for j := i; j > 0 && (ks[j].Hi < ks[j-1].Hi || (ks[j].Hi == ks[j-1].Hi && ks[j].Lo < ks[j-1].Lo)); j-- {
			ks[j], ks[j-1] = ks[j-1], ks[j]
		}
	}
	r := ks[len(ks)-1]
	for i := len(ks) - 2; i >= 0; i-- {
		g := leaves[ks[i]]
		if g.IsTrue() {
			r = ks[i]
			continue
		}
		if g.IsFalse() {
			continue
		}
		r = intern(OIte, r.W, 0, 0, 0, "", g, ks[i], r)
	}
	return r
}
