#!/bin/bash
# usage: ./seedtest.sh <seed-dir-name> [tier]   e.g. ./seedtest.sh C09_A quick
# Applies /verif/seeded/<name>/patch.diff to /repo, runs the property's check, restores /repo.
set -u
cd "$(dirname "$0")"
name="$1"; tier="${2:-quick}"
id="${name%%_*}"
if ! git -C /repo diff --quiet; then echo "/repo is dirty"; exit 2; fi
git -C /repo apply "$PWD/seeded/$name/patch.diff" || { echo "patch does not apply"; exit 2; }
./check "$id" --tier "$tier" > "/tmp/seedtest_$name.log" 2>&1
code=$?
git -C /repo checkout -- .
grep -m3 "VIOLATION\|KNOWN-FINDING" "/tmp/seedtest_$name.log" | cut -c1-260
echo "seed=$name tier=$tier exit=$code"
