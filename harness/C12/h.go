package resourceexecutor

// C12 harness: LeveledUpdateBatch of the real executor over a small cgroup tree, with every updater
// wrapped so that the whole tree is examined after each individual MergeUpdate/update call (every prefix
// of the write sequence is a possible crash point). Overlay-only; see /verif/DESIGN.md 5/C12.

import (
	"path/filepath"
	"strconv"
	"strings"

	sysutil "github.com/koordinator-sh/koordinator/pkg/koordlet/util/system"
	"github.com/koordinator-sh/koordinator/pkg/util/cache"
	"github.com/koordinator-sh/koordinator/pkg/util/cpuset"
	"github.com/koordinator-sh/koordinator/pkg/zzverif"
)

type zzvNode struct {
	dir      string
	parent   int // index, -1 for the root of the subtree
	old, new int64
	oldSet   string
	newSet   string
}

type zzvTree struct {
	res    sysutil.ResourceType
	nodes  []*zzvNode
	writes int
	isSet  bool
	// unlimited is the numeric value that means "no limit" (-1 for cfs quota v1), or 0 if none
	unlimited int64
	v2quota   bool // cpu.max text
}

func (t *zzvTree) path(n *zzvNode) string {
	r, err := sysutil.GetCgroupResource(t.res)
	if err != nil {
		panic(err)
	}
	return r.Path(n.dir)
}

func (t *zzvTree) read(n *zzvNode) (int64, string) {
	s, ok := zzverif.GetFile(t.path(n))
	if !ok {
		zzverif.Fail("cgroup file disappeared")
		return 0, ""
	}
	if t.isSet {
		return 0, s
	}
	if t.v2quota {
		// "<quota|max> <period>" as the kernel renders it, or the bare quota that was last written
		fs := strings.Fields(s)
		if len(fs) == 0 {
			zzverif.Fail("cpu.max is empty")
			return 0, s
		}
		if fs[0] == sysutil.CgroupMaxSymbolStr {
			return -1, s
		}
		q, err := strconv.ParseInt(fs[0], 10, 64)
		if err != nil {
			zzverif.Fail("cpu.max does not parse")
		}
		return q, s
	}
	v, err := strconv.ParseInt(s, 10, 64)
	if err != nil {
		zzverif.Fail("cgroup file does not hold an integer")
	}
	return v, s
}

// le: a <= b where the "unlimited" value is larger than everything
func (t *zzvTree) le(a, b int64) bool {
	if t.unlimited == 0 {
		return a <= b
	}
	return zzverif.Or(b == t.unlimited, zzverif.And(a != t.unlimited, a <= b))
}

// checkValid: each child is within its parent
func (t *zzvTree) checkValid(when string) {
	for _, n := range t.nodes {
		if n.parent < 0 {
			continue
		}
		cv, cs := t.read(n)
		pv, ps := t.read(t.nodes[n.parent])
		if t.isSet {
			c, err1 := cpuset.Parse(cs)
			p, err2 := cpuset.Parse(ps)
			zzverif.Assert(err1 == nil && err2 == nil && c.IsSubsetOf(p), "after every single file write each child's CPU set is contained in its parent's")
		} else {
			zzverif.Assert(t.le(cv, pv), "after every single file write each child's value is no larger than its parent's")
		}
	}
}

type zzvWrapped struct {
	ResourceUpdater
	t *zzvTree
}

func (w *zzvWrapped) MergeUpdate() (ResourceUpdater, error) {
	r, err := w.ResourceUpdater.MergeUpdate()
	if r != nil && r != w.ResourceUpdater {
		zzverif.Reach("merge-pass-produced-another-updater")
	}
	w.t.checkValid("merge")
	return r, err
}
func (w *zzvWrapped) update() error {
	err := w.ResourceUpdater.update()
	w.t.checkValid("update")
	return err
}
func (w *zzvWrapped) Clone() ResourceUpdater {
	return &zzvWrapped{ResourceUpdater: w.ResourceUpdater.Clone(), t: w.t}
}

func (t *zzvTree) run() {
	sysutil.Conf.CgroupRootDir = filepath.Join(zzverif.TempRoot(), "cgroup")
	for _, n := range t.nodes {
		if t.isSet {
			zzverif.PutFile(t.path(n), n.oldSet)
		} else if t.v2quota {
			if n.old == -1 {
				zzverif.PutFile(t.path(n), "max 100000")
			} else {
				zzverif.PutFile(t.path(n), strconv.FormatInt(n.old, 10)+" 100000")
			}
		} else {
			zzverif.PutFile(t.path(n), strconv.FormatInt(n.old, 10))
		}
	}
	t.checkValid("start")
	e := &ResourceUpdateExecutorImpl{ResourceCache: cache.NewCacheDefault(), Config: NewDefaultConfig()}
	stop := make(chan struct{})
	defer close(stop)
	e.Run(stop) // as in production: starts the cache GC, without which nothing is cached
	// levels by depth
	var levels [][]ResourceUpdater
	depth := func(n *zzvNode) int {
		d := 0
		for n.parent >= 0 {
			n = t.nodes[n.parent]
			d++
		}
		return d
	}
	for _, n := range t.nodes {
		d := depth(n)
		for len(levels) <= d {
			levels = append(levels, nil)
		}
		val := n.newSet
		if !t.isSet {
			val = strconv.FormatInt(n.new, 10)
		}
		u, err := DefaultCgroupUpdaterFactory.New(t.res, n.dir, val, nil)
		if err != nil {
			panic(err)
		}
		levels[d] = append(levels[d], &zzvWrapped{ResourceUpdater: u, t: t})
	}
	e.LeveledUpdateBatch(levels)
	for _, n := range t.nodes {
		v, s := t.read(n)
		if t.isSet {
			got, err := cpuset.Parse(s)
			want, _ := cpuset.Parse(n.newSet)
			zzverif.Assert(err == nil && got.Equals(want), "when the rewrite completes every CPU set file holds its target value")
		} else {
			zzverif.Assert(v == n.new, "when the rewrite completes every file holds its target value")
		}
	}
	// files whose value is unchanged are not rewritten (by any pass: merge or exact)
	for _, n := range t.nodes {
		written := zzverif.FileWritten(t.path(n))
		if t.isSet {
			a, _ := cpuset.Parse(n.oldSet)
			b, _ := cpuset.Parse(n.newSet)
			if a.Equals(b) {
				zzverif.Assert(!written, "a CPU set file whose value is unchanged is not rewritten")
			}
		} else {
			zzverif.Assert(zzverif.Implies(n.old == n.new, !written), "a file whose value is unchanged is not rewritten")
		}
	}
	zzverif.Reach("end")
}

func zzvShape(depth int) []*zzvNode {
	if depth == 3 {
		return []*zzvNode{{dir: "kubepods", parent: -1}, {dir: "kubepods/podA", parent: 0}, {dir: "kubepods/podA/c1", parent: 1}, {dir: "kubepods/podA/c2", parent: 1}}
	}
	return []*zzvNode{{dir: "kubepods/podA", parent: -1}, {dir: "kubepods/podA/c1", parent: 0}, {dir: "kubepods/podA/c2", parent: 0}}
}

// ZzvC12Quota: cpu.cfs_quota_us (cgroups-v1) with symbolic old and new values, -1 meaning unlimited.
func ZzvC12Quota() {
	sysutil.UseCgroupsV2.Store(false)
	t := &zzvTree{res: sysutil.CPUCFSQuotaName, nodes: zzvShape(zzverif.Param("depth")), unlimited: -1}
	for i, n := range t.nodes {
		n.old = zzverif.Int64("old"+strconv.Itoa(i), -1, 1000000)
		n.new = zzverif.Int64("new"+strconv.Itoa(i), -1, 1000000)
		zzverif.Assume(n.old != 0 && n.new != 0)
	}
	for _, n := range t.nodes {
		if n.parent >= 0 {
			p := t.nodes[n.parent]
			zzverif.Assume(t.le(n.old, p.old)) // hierarchy-valid at start
			zzverif.Assume(t.le(n.new, p.new)) // and at target
		}
	}
	t.run()
}

// ZzvC12Memory: memory.min (cgroups-v2) with symbolic old and new values.
func ZzvC12Memory() {
	sysutil.UseCgroupsV2.Store(true)
	defer sysutil.UseCgroupsV2.Store(false)
	res := []sysutil.ResourceType{sysutil.MemoryMinName, sysutil.MemoryLowName, sysutil.MemoryHighName}[zzverif.Choice("file", 3)]
	t := &zzvTree{res: res, nodes: zzvShape(zzverif.Param("depth"))}
	for i, n := range t.nodes {
		n.old = zzverif.Int64("old"+strconv.Itoa(i), 0, 1<<40)
		n.new = zzverif.Int64("new"+strconv.Itoa(i), 0, 1<<40)
	}
	for _, n := range t.nodes {
		if n.parent >= 0 {
			p := t.nodes[n.parent]
			zzverif.Assume(n.old <= p.old)
			zzverif.Assume(n.new <= p.new)
		}
	}
	t.run()
}

var zzvQuotas = []int64{-1, 10000, 40000, 100000, 200000, 300000}

// ZzvC12QuotaV2: cpu.max on cgroups-v2, whose content is the text "<quota|max> <period>": values are
// drawn from a catalogue (the text is split with strings.Fields, so it cannot be a symbolic decimal).
func ZzvC12QuotaV2() {
	sysutil.UseCgroupsV2.Store(true)
	defer sysutil.UseCgroupsV2.Store(false)
	t := &zzvTree{res: sysutil.CPUCFSQuotaName, nodes: zzvShape(zzverif.Param("depth")), unlimited: -1, v2quota: true}
	for i, n := range t.nodes {
		n.old = zzvQuotas[zzverif.Choice("old"+strconv.Itoa(i), len(zzvQuotas))]
		n.new = zzvQuotas[zzverif.Choice("new"+strconv.Itoa(i), len(zzvQuotas))]
		if n.parent >= 0 {
			p := t.nodes[n.parent]
			if !t.le(n.old, p.old) || !t.le(n.new, p.new) {
				zzverif.Assume(false)
			}
		}
	}
	t.run()
}

var zzvSets = []string{"0-3", "0-1", "2-3", "4-7", "2-5", "0-7", "1", "4-5"}

// ZzvC12CPUSet: cpuset.cpus with old and new values drawn from a catalogue of CPU sets (shrinking,
// growing, shifting, disjoint), restricted to assignments that are hierarchy-valid at start and at target.
func ZzvC12CPUSet() {
	if zzverif.Choice("cgroupsV2", 2) == 1 {
		sysutil.UseCgroupsV2.Store(true)
		defer sysutil.UseCgroupsV2.Store(false)
	} else {
		sysutil.UseCgroupsV2.Store(false)
	}
	t := &zzvTree{res: sysutil.CPUSetCPUSName, nodes: zzvShape(zzverif.Param("depth")), isSet: true}
	ns := zzverif.Param("sets")
	for i, n := range t.nodes {
		n.oldSet = zzvSets[zzverif.Choice("old"+strconv.Itoa(i), ns)]
		n.newSet = zzvSets[zzverif.Choice("new"+strconv.Itoa(i), ns)]
		if n.parent >= 0 {
			p := t.nodes[n.parent]
			co, _ := cpuset.Parse(n.oldSet)
			po, _ := cpuset.Parse(p.oldSet)
			cn, _ := cpuset.Parse(n.newSet)
			pn, _ := cpuset.Parse(p.newSet)
			if !co.IsSubsetOf(po) || !cn.IsSubsetOf(pn) {
				zzverif.Assume(false)
			}
		}
	}
	t.run()
}

// ZzvC12Twin: must-fail twin (claims a child may be written before its parent grows).
func ZzvC12Twin() {
	sysutil.UseCgroupsV2.Store(false)
	t := &zzvTree{res: sysutil.CPUCFSQuotaName, nodes: zzvShape(2), unlimited: -1}
	sysutil.Conf.CgroupRootDir = filepath.Join(zzverif.TempRoot(), "cgroup")
	v := zzverif.Int64("new1", 1, 1000000)
	zzverif.PutFile(t.path(t.nodes[0]), "1000")
	zzverif.PutFile(t.path(t.nodes[1]), "1000")
	zzverif.PutFile(t.path(t.nodes[2]), "1000")
	u, err := DefaultCgroupUpdaterFactory.New(t.res, t.nodes[1].dir, strconv.FormatInt(v, 10), nil)
	if err != nil {
		panic(err)
	}
	u.update()
	t.checkValid("twin")
	zzverif.Reach("end")
}
