//go:build linux

package perf_group

import "os"

var EventsMap = map[string][]string{"CPICollector": {"cycles", "instructions"}}

type PerfGroupCollector struct{}

func InitBufferPool(eventsNums map[int]struct{}) {}
func LibInit()                                   {}
func LibFinalize()                               {}
func GetAndStartPerfGroupCollectorOnContainer(cgroupFile *os.File, cpus []int, events []string) (*PerfGroupCollector, error) {
	return nil, nil
}
func GetContainerPerfResult(collector *PerfGroupCollector) (map[string]float64, error) {
	return nil, nil
}
func GetContainerCyclesAndInstructionsGroup(collector *PerfGroupCollector) (float64, float64, error) {
	return 0, 0, nil
}
