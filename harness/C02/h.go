package core

// C02 harnesses: runtime quota sharing (largest-remainder split and two-phase
// water-filling). Overlay-only file; see /verif/DESIGN.md section 5/C02.

import (
	"github.com/koordinator-sh/koordinator/pkg/zzverif"
)

var zzvNames = []string{"a", "b", "c", "d"}

// ZzvC02Hamilton: computeHamiltonDeltas on N siblings with symbolic weights.
func ZzvC02Hamilton() {
	n := zzverif.Param("N")
	B := int64(1) << uint(zzverif.Param("bits"))
	T := zzverif.Int64("T", 1, B)
	w := make([]int64, n)
	nodes := make([]*quotaNode, n)
	W := int64(0)
	for i := 0; i < n; i++ {
		w[i] = zzverif.Int64("w"+zzvNames[i], 0, B)
		W += w[i]
		nodes[i] = NewQuotaNode(zzvNames[i], w[i], 0, 0, 0, true)
	}
	deltas := computeHamiltonDeltas(T, W, nodes)
	zzverif.Assert(len(deltas) == n, "one delta per node")
	sum := int64(0)
	for i := 0; i < n; i++ {
		sum += deltas[i]
		zzverif.Assert(deltas[i] >= 0, "delta >= 0")
		zzverif.Assert(zzverif.Implies(w[i] == 0, deltas[i] == 0), "zero weight gets nothing")
		// delta is floor(w*T/W) or that plus one (the quotient in plain unsigned 64-bit
		// arithmetic: inside the stated bound the product cannot wrap)
		if W > 0 {
			q := int64(uint64(w[i]) * uint64(T) / uint64(W))
			zzverif.Assert(zzverif.Or(deltas[i] == q, deltas[i] == q+1), "delta is floor(wT/W) or floor(wT/W)+1")
		}
	}
	zzverif.Assert(zzverif.Implies(W > 0, sum == T), "sum of deltas == total (no unit created or dropped)")
	zzverif.Assert(zzverif.Implies(W == 0, sum == 0), "nothing handed out without weights")
	// order independence: same nodes presented in another order give the same delta per name
	perm := zzverif.Choice("perm", zzverif.Param("perms"))
	order := zzvPerm(n, perm)
	nodes2 := make([]*quotaNode, n)
	for k := 0; k < n; k++ {
		nodes2[k] = NewQuotaNode(zzvNames[order[k]], w[order[k]], 0, 0, 0, true)
	}
	deltas2 := computeHamiltonDeltas(T, W, nodes2)
	for k := 0; k < n; k++ {
		zzverif.Assert(deltas2[k] == deltas[order[k]], "result per name independent of argument order")
	}
	zzverif.Observe("sum", sum)
	zzverif.Observe("d0", deltas[0])
	zzverif.Reach("end")
}

// zzvPerm returns the p-th permutation of 0..n-1 (lexicographic, p < n!).
func zzvPerm(n, p int) []int {
	avail := make([]int, n)
	for i := range avail {
		avail[i] = i
	}
	fact := 1
	for i := 2; i < n; i++ {
		fact *= i
	}
	out := make([]int, 0, n)
	for i := n - 1; i >= 0; i-- {
		k := 0
		if fact > 0 {
			k = p / fact
			p = p % fact
		}
		out = append(out, avail[k])
		avail = append(avail[:k], avail[k+1:]...)
		if i > 0 {
			fact /= i
		}
	}
	return out
}

type zzvSib struct {
	req, min, guar, w int64
	lend              bool
}

// ZzvC02Redistribute: redistribution(total) on N siblings, all inputs symbolic.
func ZzvC02Redistribute() {
	n := zzverif.Param("N")
	B := int64(1) << uint(zzverif.Param("bits"))
	WB := int64(1) << uint(zzverif.Param("wbits"))
	total := zzverif.Int64("total", -B, B)
	sib := make([]zzvSib, n)
	qt := NewQuotaTree()
	for i := 0; i < n; i++ {
		s := zzvNames[i]
		sib[i] = zzvSib{req: zzverif.Int64("req"+s, 0, B), lend: zzverif.Choice("lend"+s, zzverif.Param("lendModes")) == 0}
		if zzverif.Param("zeroMin") == 0 {
			sib[i].min = zzverif.Int64("min"+s, 0, B)
			sib[i].guar = zzverif.Int64("guar"+s, 0, B)
		}
		if uw := zzverif.Param("unitWeights"); uw == 1 {
			sib[i].w = 1 // equal concrete weights: the later water-filling rounds are the subject
		} else if uw == 2 {
			sib[i].w = int64(i + 1) // 1:2:3
		} else {
			sib[i].w = zzverif.Int64("w"+s, 0, WB)
		}
		qt.insert(s, sib[i].w, sib[i].req, sib[i].min, sib[i].guar, sib[i].lend)
	}
	qt.redistribution(total)
	rt := make([]int64, n)
	m := make([]int64, n)  // effective minimum max(min, guarantee)
	g0 := make([]int64, n) // first-phase grant
	var sumRt, sumG0, wantMore int64
	allPositiveW := true
	for i := 0; i < n; i++ {
		rt[i] = qt.quotaNodes[zzvNames[i]].runtimeQuota
		m[i] = zzverif.MaxInt64(sib[i].min, sib[i].guar)
		over := sib[i].req > m[i]
		if sib[i].lend {
			g0[i] = zzverif.MinInt64(sib[i].req, m[i])
		} else {
			g0[i] = m[i]
		}
		sumRt += rt[i]
		sumG0 += g0[i]
		wantMore += zzverif.IteInt64(zzverif.And(over, sib[i].w > 0), sib[i].req-m[i], 0)
		allPositiveW = zzverif.And(allPositiveW, zzverif.Or(!over, sib[i].w > 0))
		// (a) at least min(request, m), never more than max(request, m)
		zzverif.Assert(rt[i] >= zzverif.MinInt64(sib[i].req, m[i]), "(a) runtime >= min(request, guaranteed minimum)")
		zzverif.Assert(rt[i] <= zzverif.MaxInt64(sib[i].req, m[i]), "(a) runtime <= max(request, guaranteed minimum)")
		zzverif.Assert(rt[i] >= g0[i], "runtime never below the first-phase grant")
	}
	L := total - sumG0
	// (b) together never more than the parent has whenever the minimums fit
	zzverif.Assert(zzverif.Implies(sumG0 <= total, sumRt <= total), "(b) sum of runtimes <= total when the first-phase grants fit")
	// (d) nothing left after the minimums: everybody keeps the first-phase grant
	for i := 0; i < n; i++ {
		zzverif.Assert(zzverif.Implies(L <= 0, rt[i] == g0[i]), "(d) no leftover -> runtime == first-phase grant")
		zzverif.Assert(zzverif.Implies(zzverif.And(sib[i].req > m[i], sib[i].w == 0), rt[i] == g0[i]), "zero shared weight gets no leftover")
	}
	// (c) work conserving and (f) exact: the leftover handed out is min(L+, what is still wanted by weighted siblings)
	zzverif.Assert(zzverif.Implies(L > 0, sumRt-sumG0 == zzverif.MinInt64(L, wantMore)), "(c,f) handed out == min(leftover, unmet weighted demand): no unit created or lost")
	if zzverif.Param("noOrder") == 1 {
		zzverif.Observe("rt0", rt[0])
		zzverif.Observe("sumRt", sumRt)
		zzverif.Reach("end")
		return
	}
	// (g) order independence: the same siblings inserted in reverse order
	qt2 := NewQuotaTree()
	for i := n - 1; i >= 0; i-- {
		qt2.insert(zzvNames[i], sib[i].w, sib[i].req, sib[i].min, sib[i].guar, sib[i].lend)
	}
	qt2.redistribution(total)
	for i := 0; i < n; i++ {
		zzverif.Assert(qt2.quotaNodes[zzvNames[i]].runtimeQuota == rt[i], "(g) result independent of iteration order")
	}
	zzverif.Observe("rt0", rt[0])
	zzverif.Observe("sumRt", sumRt)
	zzverif.Reach("end")
}

// ZzvC02Fair: two siblings both still unsatisfied at the end received leftover in
// proportion to their weights up to rounding (one unit per round, at most N rounds).
func ZzvC02Fair() {
	B := int64(1) << uint(zzverif.Param("bits"))
	total := zzverif.Int64("total", 0, B)
	qt := NewQuotaTree()
	n := zzverif.Param("N")
	w := make([]int64, n)
	req := make([]int64, n)
	for i := 0; i < n; i++ {
		w[i] = zzverif.Int64("w"+zzvNames[i], 1, B)
		req[i] = zzverif.Int64("req"+zzvNames[i], 0, B)
		qt.insert(zzvNames[i], w[i], req[i], 0, 0, true)
	}
	qt.redistribution(total)
	for i := 0; i < n; i++ {
		for j := i + 1; j < n; j++ {
			ri, rj := qt.quotaNodes[zzvNames[i]].runtimeQuota, qt.quotaNodes[zzvNames[j]].runtimeQuota
			both := zzverif.And(ri < req[i], rj < req[j])
			d := ri*w[j] - rj*w[i]
			bound := int64(n) * (w[i] + w[j])
			zzverif.Assert(zzverif.Implies(both, zzverif.And(d <= bound, -d <= bound)), "(e) unsatisfied siblings share in proportion to weights up to rounding")
		}
	}
	zzverif.Reach("end")
}

// ZzvC02Twin: must-fail twin (claims the leftover is always handed out completely).
func ZzvC02Twin() {
	B := int64(1) << 20
	total := zzverif.Int64("total", 0, B)
	qt := NewQuotaTree()
	ra, rb := zzverif.Int64("reqa", 0, B), zzverif.Int64("reqb", 0, B)
	qt.insert("a", 1, ra, 0, 0, true)
	qt.insert("b", 1, rb, 0, 0, true)
	qt.redistribution(total)
	zzverif.Assert(qt.quotaNodes["a"].runtimeQuota+qt.quotaNodes["b"].runtimeQuota == total, "twin: runtimes always sum to total (false)")
	zzverif.Reach("end")
}

// ---- contract composition ------------------------------------------------------------
//
// zzvHamiltonContract replaces computeHamiltonDeltas (spec "redirect") by an arbitrary
// result constrained by exactly the contract that ZzvC02Hamilton proves for the real
// function: every delta is floor(w*T/W) or that plus one, zero weights get nothing and
// the deltas sum to T. With it the water-filling above the split is explored without
// the split's own case analysis (remainder comparisons), so three siblings are in reach.
var zzvContractCalls int

func zzvHamiltonContract(totalRes, totalSharedWeight int64, nodes []*quotaNode) []int64 {
	deltas := make([]int64, len(nodes))
	if totalSharedWeight <= 0 || totalRes <= 0 || len(nodes) == 0 {
		return deltas
	}
	zzvContractCalls++
	sum := int64(0)
	for i, node := range nodes {
		q := int64(uint64(zzverif.MaxInt64(node.sharedWeight, 0)) * uint64(totalRes) / uint64(totalSharedWeight))
		extra := zzverif.Int64("hd"+string(rune('0'+zzvContractCalls))+node.quotaName, 0, 1)
		deltas[i] = zzverif.IteInt64(node.sharedWeight <= 0, 0, q+extra)
		sum += deltas[i]
	}
	zzverif.Assume(sum == totalRes)
	return deltas
}

// ZzvC02RedistributeContract: ZzvC02Redistribute with the split replaced by its contract.
func ZzvC02RedistributeContract() {
	zzvContractCalls = 0
	ZzvC02Redistribute()
}
