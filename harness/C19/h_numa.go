package nodenumaresource

// C19 harness, CPU sets and per-NUMA amounts: what PreBind persists on the pod is read back unchanged, and a
// freshly started scheduler that only sees the annotated pods rebuilds the node's NodeAllocation exactly.
// Overlay-only file; see /verif/DESIGN.md section 5/C19.
//
// encoding/json and resource.Quantity's JSON text are the engine's models (engine/interp/ext_json.go);
// witness paths are replayed against the real libraries.

import (
	"context"
	"strconv"

	corev1 "k8s.io/api/core/v1"
	"k8s.io/apimachinery/pkg/api/resource"
	metav1 "k8s.io/apimachinery/pkg/apis/meta/v1"
	"k8s.io/apimachinery/pkg/types"
	fwktype "k8s.io/kube-scheduler/framework"
	"k8s.io/kubernetes/pkg/scheduler/framework"

	"github.com/koordinator-sh/koordinator/apis/extension"
	schedulingconfig "github.com/koordinator-sh/koordinator/pkg/scheduler/apis/config"
	"github.com/koordinator-sh/koordinator/pkg/scheduler/frameworkext"
	"github.com/koordinator-sh/koordinator/pkg/util/cpuset"
	"github.com/koordinator-sh/koordinator/pkg/zzverif"
)

// the scheduler as PreBind sees it: a snapshot with the one node
type zzvC19Handle struct {
	frameworkext.ExtendedHandle
	node fwktype.NodeInfo
}

func (h *zzvC19Handle) SnapshotSharedLister() fwktype.SharedLister { return h }
func (h *zzvC19Handle) NodeInfos() fwktype.NodeInfoLister          { return h }
func (h *zzvC19Handle) StorageInfos() fwktype.StorageInfoLister    { return nil }
func (h *zzvC19Handle) List() ([]fwktype.NodeInfo, error)          { return []fwktype.NodeInfo{h.node}, nil }
func (h *zzvC19Handle) HavePodsWithAffinityList() ([]fwktype.NodeInfo, error) {
	return nil, nil
}
func (h *zzvC19Handle) HavePodsWithRequiredAntiAffinityList() ([]fwktype.NodeInfo, error) {
	return nil, nil
}
func (h *zzvC19Handle) Get(name string) (fwktype.NodeInfo, error) { return h.node, nil }

func zzvC19Topology() *CPUTopology {
	// 2 NUMA nodes x 2 cores x 2 threads = 8 CPUs, CPU ids 0..7 (siblings i, i+4)
	t := &CPUTopology{NumCPUs: 8, NumCores: 4, NumNodes: 2, NumSockets: 1, CPUDetails: CPUDetails{}}
	for core := 0; core < 4; core++ {
		for _, id := range []int{core, core + 4} {
			t.CPUDetails[id] = CPUInfo{CPUID: id, CoreID: core, NodeID: core / 2, SocketID: 0}
		}
	}
	return t
}

// CPU-set catalogues: odd shapes (gaps, single CPUs, runs, everything, nothing); the two pods draw from
// disjoint halves as the allocator would have given them
var zzvC19Sets = [][][]int{
	{{}, {1, 5}, {0, 1, 4}, {0, 1, 4, 5}, {0}, {5}},
	{{}, {3, 6}, {2, 3, 7}, {2, 3, 6, 7}, {2}, {6, 7}},
}

func zzvC19Amount(l corev1.ResourceList, name corev1.ResourceName) int64 {
	q, ok := l[name]
	if !ok {
		return -1
	}
	return q.MilliValue()
}

func zzvC19SameList(a, b corev1.ResourceList, what string) {
	for _, name := range []corev1.ResourceName{corev1.ResourceCPU, corev1.ResourceMemory} {
		zzverif.Assert(zzvC19Amount(a, name) == zzvC19Amount(b, name), what)
	}
	zzverif.Assert(len(a) == len(b), what+" (same resource names)")
}

func zzvC19SamePod(a, b PodAllocation, what string) {
	zzverif.Assert(a.CPUSet.Equals(b.CPUSet), what+": CPU set")
	zzverif.Assert(a.CPUExclusivePolicy == b.CPUExclusivePolicy, what+": exclusive policy")
	zzverif.Assert(a.Namespace == b.Namespace && a.Name == b.Name && a.UID == b.UID, what+": identity")
	zzverif.Assert(len(a.NUMANodeResources) == len(b.NUMANodeResources), what+": NUMA nodes")
	if len(a.NUMANodeResources) == len(b.NUMANodeResources) {
		for k := range a.NUMANodeResources {
			zzverif.Assert(a.NUMANodeResources[k].Node == b.NUMANodeResources[k].Node, what+": NUMA nodes")
			zzvC19SameList(a.NUMANodeResources[k].Resources, b.NUMANodeResources[k].Resources, what+": per-NUMA amounts")
		}
	}
}

// ZzvC19NUMA: `pods` pods get a CPU set and per-NUMA amounts from a live scheduler (Reserve's ledger
// update, PreBind's annotations through the real preBindObject); a second scheduler starts empty and is
// fed the annotated pods in an arbitrary order with duplicate adds and no-change updates.
func ZzvC19NUMA() {
	B := int64(1) << uint(zzverif.Param("bits"))
	topo := zzvC19Topology()
	tom := NewTopologyOptionsManager()
	tom.UpdateTopologyOptions("node", func(o *TopologyOptions) {
		o.CPUTopology = topo
		o.MaxRefCount = 1
	})
	node := &corev1.Node{ObjectMeta: metav1.ObjectMeta{Name: "node"}}
	ni := framework.NewNodeInfo()
	ni.SetNode(node)
	liveRM := &resourceManager{numaAllocateStrategy: schedulingconfig.NUMAMostAllocated, topologyOptionsManager: tom, nodeAllocations: map[string]*NodeAllocation{}}
	pl := &Plugin{handle: &zzvC19Handle{node: ni}, resourceManager: liveRM, topologyOptionsManager: tom}

	np := zzverif.Param("pods")
	pods := make([]*corev1.Pod, np)
	allocs := make([]*PodAllocation, np)
	for p := 0; p < np; p++ {
		ps := strconv.Itoa(p)
		pod := &corev1.Pod{ObjectMeta: metav1.ObjectMeta{Namespace: "ns", Name: "pod" + ps, UID: types.UID("uid" + ps)}}
		excl := schedulingconfig.CPUExclusivePolicy("")
		if zzverif.Choice("pod"+ps+"_exclusive", 2) == 1 {
			excl = schedulingconfig.CPUExclusivePolicyPCPULevel
			// the policy comes from the pod's own resource spec
			_ = extension.SetResourceSpec(pod, &extension.ResourceSpec{PreferredCPUExclusivePolicy: extension.CPUExclusivePolicyPCPULevel})
		}
		cat := zzvC19Sets[p%2]
		cpus := cpuset.NewCPUSet(cat[zzverif.Choice("pod"+ps+"_cpuset", zzverif.Param("sets"))]...)
		a := &PodAllocation{UID: pod.UID, Namespace: pod.Namespace, Name: pod.Name, CPUSet: cpus, CPUExclusivePolicy: excl}
		for n := 0; n < 2; n++ {
			ns := strconv.Itoa(n)
			if zzverif.Choice("pod"+ps+"_onNUMA"+ns, 2) == 1 {
				a.NUMANodeResources = append(a.NUMANodeResources, NUMANodeResource{Node: n, Resources: corev1.ResourceList{
					corev1.ResourceCPU:    *resource.NewMilliQuantity(zzverif.Int64("pod"+ps+"_cpu"+ns, 0, B), resource.DecimalSI),
					corev1.ResourceMemory: *resource.NewQuantity(zzverif.Int64("pod"+ps+"_mem"+ns, 0, B), resource.BinarySI),
				}})
			}
		}
		if cpus.IsEmpty() && len(a.NUMANodeResources) == 0 {
			a.NUMANodeResources = append(a.NUMANodeResources, NUMANodeResource{Node: 0, Resources: corev1.ResourceList{
				corev1.ResourceCPU: *resource.NewMilliQuantity(zzverif.Int64("pod"+ps+"_cpu0", 0, B), resource.DecimalSI)}})
		}
		// Reserve
		liveRM.Update("node", a)
		// PreBind
		cs := framework.NewCycleState()
		cs.Write(stateKey, &preFilterState{requestCPUBind: !cpus.IsEmpty(), preferredCPUExclusivePolicy: excl, numCPUsNeeded: cpus.Size(), allocation: a,
			requests: corev1.ResourceList{corev1.ResourceCPU: *resource.NewQuantity(int64(cpus.Size()), resource.DecimalSI)}})
		st := pl.preBindObject(context.TODO(), cs, pod, "node")
		zzverif.Assert(st.IsSuccess(), "the allocation can be persisted")
		pod.Spec.NodeName = "node"
		pods[p], allocs[p] = pod, a

		// ---- the codec
		rs, err := extension.GetResourceStatus(pod.Annotations)
		zzverif.Assert(err == nil && rs != nil, "the persisted allocation can be read back")
		if err == nil && rs != nil {
			back, perr := cpuset.Parse(rs.CPUSet)
			zzverif.Assert(perr == nil && back.Equals(cpus), "the CPU set read back is the CPU set written")
			zzverif.Assert(len(rs.NUMANodeResources) == len(a.NUMANodeResources), "the NUMA nodes read back are those written")
			if len(rs.NUMANodeResources) == len(a.NUMANodeResources) {
				for k := range a.NUMANodeResources {
					zzverif.Assert(int(rs.NUMANodeResources[k].Node) == a.NUMANodeResources[k].Node, "the NUMA nodes read back are those written")
					zzvC19SameList(rs.NUMANodeResources[k].Resources, a.NUMANodeResources[k].Resources, "the per-NUMA amounts read back are those written")
				}
			}
		}
	}

	// ---- restart
	freshRM := &resourceManager{numaAllocateStrategy: schedulingconfig.NUMAMostAllocated, topologyOptionsManager: tom, nodeAllocations: map[string]*NodeAllocation{}}
	eh := &podEventHandler{resourceManager: freshRM}
	delivered := make([]bool, np)
	for e := 0; e < zzverif.Param("events"); e++ {
		es := strconv.Itoa(e)
		p := zzverif.Choice("event"+es+"_pod", np)
		if !delivered[p] {
			eh.OnAdd(pods[p], true)
			delivered[p] = true
		} else if zzverif.Choice("event"+es+"_kind", 2) == 0 {
			eh.OnAdd(pods[p], false)
		} else {
			eh.OnUpdate(pods[p], pods[p].DeepCopy())
		}
	}
	for p := range delivered {
		zzverif.Assume(delivered[p])
	}
	zzverif.Reach("all-delivered")

	a, b := liveRM.GetNodeAllocation("node"), freshRM.GetNodeAllocation("node")
	zzverif.Assert(len(a.allocatedPods) == len(b.allocatedPods), "the same pods hold allocations after the restart")
	for p := range pods {
		pa, ina := a.allocatedPods[pods[p].UID]
		pb, inb := b.allocatedPods[pods[p].UID]
		zzverif.Assert(ina && inb, "every pod's allocation is known before and after the restart")
		if ina && inb {
			zzvC19SamePod(pa, pb, "the pod's allocation after the restart == before it")
		}
	}
	taken := int64(0)
	for id := 0; id < 8; id++ {
		ca, ina := a.allocatedCPUs[id]
		cb, inb := b.allocatedCPUs[id]
		zzverif.Assert(ina == inb, "no CPU taken before the restart is free after it (and none is taken that was free)")
		if ina && inb {
			zzverif.Assert(ca.RefCount == cb.RefCount && ca.ExclusivePolicy == cb.ExclusivePolicy, "each CPU's reference count and exclusive policy after the restart == before it")
			taken += int64(cb.RefCount)
		}
	}
	var sum int64
	for n := 0; n < 2; n++ {
		ra, ina := a.allocatedResources[n]
		rb, inb := b.allocatedResources[n]
		zzverif.Assert(ina == inb, "the same NUMA nodes carry amounts after the restart")
		if ina && inb {
			zzvC19SameList(ra.Resources, rb.Resources, "the per-NUMA ledger after the restart == before it")
			sum += zzvC19Amount(rb.Resources, corev1.ResourceCPU)
		}
	}
	zzverif.Observe("cpusTaken", taken)
	zzverif.Observe("numaCPU", sum)
	zzverif.Reach("end")
}

// ZzvC19NUMATwin: must-fail twin: claims a restarted scheduler sees a taken CPU as free.
func ZzvC19NUMATwin() {
	tom := NewTopologyOptionsManager()
	tom.UpdateTopologyOptions("node", func(o *TopologyOptions) {
		o.CPUTopology = zzvC19Topology()
		o.MaxRefCount = 1
	})
	pod := &corev1.Pod{ObjectMeta: metav1.ObjectMeta{Namespace: "ns", Name: "pod", UID: "uid"}, Spec: corev1.PodSpec{NodeName: "node"}}
	m := zzverif.Int64("milli", 1, 1000)
	_ = extension.SetResourceStatus(pod, &extension.ResourceStatus{CPUSet: "1,5", NUMANodeResources: []extension.NUMANodeResource{{Node: 0, Resources: corev1.ResourceList{corev1.ResourceCPU: *resource.NewMilliQuantity(m, resource.DecimalSI)}}}})
	rm := &resourceManager{topologyOptionsManager: tom, nodeAllocations: map[string]*NodeAllocation{}}
	(&podEventHandler{resourceManager: rm}).OnAdd(pod, true)
	_, taken := rm.GetNodeAllocation("node").allocatedCPUs[5]
	zzverif.Assert(!taken, "twin: a CPU taken before the restart is free after it")
	zzverif.Assert(zzvC19Amount(rm.GetNodeAllocation("node").allocatedResources[0].Resources, corev1.ResourceCPU) == 0, "twin: an amount taken before the restart is free after it")
	zzverif.Reach("end")
}
