package deviceshare

// C19 harness, device share: what PreBind persists on the pod is read back unchanged, and a freshly started
// scheduler that only sees the annotated pods rebuilds the node's device ledger exactly. Overlay-only file;
// see /verif/DESIGN.md section 5/C19.
//
// encoding/json and resource.Quantity's JSON text are the engine's models (engine/interp/ext_json.go);
// witness paths are replayed against the real libraries.

import (
	"context"
	"strconv"

	corev1 "k8s.io/api/core/v1"
	"k8s.io/apimachinery/pkg/api/resource"
	metav1 "k8s.io/apimachinery/pkg/apis/meta/v1"
	"k8s.io/apimachinery/pkg/types"
	"k8s.io/kubernetes/pkg/scheduler/framework"

	apiext "github.com/koordinator-sh/koordinator/apis/extension"
	schedulingv1alpha1 "github.com/koordinator-sh/koordinator/apis/scheduling/v1alpha1"
	koordinformers "github.com/koordinator-sh/koordinator/pkg/client/informers/externalversions"
	schedinformers "github.com/koordinator-sh/koordinator/pkg/client/informers/externalversions/scheduling"
	schedv1informers "github.com/koordinator-sh/koordinator/pkg/client/informers/externalversions/scheduling/v1alpha1"
	schedlisters "github.com/koordinator-sh/koordinator/pkg/client/listers/scheduling/v1alpha1"
	"github.com/koordinator-sh/koordinator/pkg/scheduler/frameworkext"
	"github.com/koordinator-sh/koordinator/pkg/zzverif"
)

// the scheduler as PreBind sees it: a Device lister that knows the one node
type zzvC19DevHandle struct {
	frameworkext.ExtendedHandle
	dev *schedulingv1alpha1.Device
}
type zzvC19Factory struct {
	koordinformers.SharedInformerFactory
	dev *schedulingv1alpha1.Device
}
type zzvC19Sched struct {
	schedinformers.Interface
	dev *schedulingv1alpha1.Device
}
type zzvC19SchedV1 struct {
	schedv1informers.Interface
	dev *schedulingv1alpha1.Device
}
type zzvC19DevInformer struct {
	schedv1informers.DeviceInformer
	dev *schedulingv1alpha1.Device
}
type zzvC19DevLister struct {
	schedlisters.DeviceLister
	dev *schedulingv1alpha1.Device
}

func (h *zzvC19DevHandle) KoordinatorSharedInformerFactory() koordinformers.SharedInformerFactory {
	return &zzvC19Factory{dev: h.dev}
}
func (f *zzvC19Factory) Scheduling() schedinformers.Interface { return &zzvC19Sched{dev: f.dev} }
func (s *zzvC19Sched) V1alpha1() schedv1informers.Interface   { return &zzvC19SchedV1{dev: s.dev} }
func (v *zzvC19SchedV1) Devices() schedv1informers.DeviceInformer {
	return &zzvC19DevInformer{dev: v.dev}
}
func (i *zzvC19DevInformer) Lister() schedlisters.DeviceLister { return &zzvC19DevLister{dev: i.dev} }
func (l *zzvC19DevLister) Get(name string) (*schedulingv1alpha1.Device, error) {
	return l.dev, nil
}

func zzvGPURes(core, mem int64) corev1.ResourceList {
	return corev1.ResourceList{
		apiext.ResourceGPUCore:        *resource.NewQuantity(core, resource.DecimalSI),
		apiext.ResourceGPUMemoryRatio: *resource.NewQuantity(mem, resource.DecimalSI),
	}
}

func zzvAmount(l corev1.ResourceList, name corev1.ResourceName) int64 {
	q, ok := l[name]
	if !ok {
		return -1
	}
	return q.Value()
}

// zzvSameList: the two lists name the same resources with the same amounts
func zzvSameList(a, b corev1.ResourceList, what string) {
	for _, name := range []corev1.ResourceName{apiext.ResourceGPUCore, apiext.ResourceGPUMemoryRatio, apiext.ResourceRDMA} {
		zzverif.Assert(zzvAmount(a, name) == zzvAmount(b, name), what)
	}
	zzverif.Assert(len(a) == len(b), what+" (same resource names)")
}

// ZzvC19Device: `pods` pods are allocated GPU shares (one or two devices each, amounts arbitrary, zero
// included) by a live scheduler: Reserve's ledger update, PreBind's annotation, and the informer's own
// update event for the bound pod. Then a second scheduler starts with an empty cache and receives the
// Device object and the annotated pods in an arbitrary order, with duplicate add events and update events
// that carry the same allocation.
func ZzvC19Device() {
	B := int64(1) << uint(zzverif.Param("bits"))
	const gpu = schedulingv1alpha1.GPU
	ng := 2
	dev := &schedulingv1alpha1.Device{ObjectMeta: metav1.ObjectMeta{Name: "node"}}
	total := make([]int64, ng)
	for i := 0; i < ng; i++ {
		minor := int32(i)
		total[i] = zzverif.Int64("total"+strconv.Itoa(i), 0, B)
		dev.Spec.Devices = append(dev.Spec.Devices, schedulingv1alpha1.DeviceInfo{Type: gpu, Minor: &minor, UUID: "gpu-" + strconv.Itoa(i), Health: true, Resources: zzvGPURes(total[i], total[i])})
	}

	const rdma = schedulingv1alpha1.RDMA
	rdmaMinor := int32(0)
	dev.Spec.Devices = append(dev.Spec.Devices, schedulingv1alpha1.DeviceInfo{Type: rdma, Minor: &rdmaMinor, UUID: "0000:5f:00.0", Health: true,
		Resources: corev1.ResourceList{apiext.ResourceRDMA: *resource.NewQuantity(100, resource.DecimalSI)}})
	vfs := []string{"0000:5f:00.2", "0000:5f:00.3", "0000:5f:00.4"}
	pl := &Plugin{handle: &zzvC19DevHandle{dev: dev}}

	live := newNodeDeviceCache()
	live.updateNodeDevice("node", dev)
	np := zzverif.Param("pods")
	pods := make([]*corev1.Pod, np)
	written := make([]apiext.DeviceAllocations, np)
	usedCore := make([]int64, ng)
	usedMem := make([]int64, ng)
	for p := 0; p < np; p++ {
		ps := strconv.Itoa(p)
		pods[p] = &corev1.Pod{ObjectMeta: metav1.ObjectMeta{Namespace: "ns", Name: "pod" + ps, UID: types.UID("uid" + ps)}}
		var allocs []*apiext.DeviceAllocation
		first := zzverif.Choice("pod"+ps+"_firstMinor", ng)
		minors := []int{first}
		if zzverif.Choice("pod"+ps+"_twoDevices", zzverif.Param("multi")) == 1 {
			minors = append(minors, 1-first)
		}
		for _, m := range minors {
			ms := strconv.Itoa(m)
			core := zzverif.Int64("pod"+ps+"_core"+ms, 0, B)
			mem := zzverif.Int64("pod"+ps+"_mem"+ms, 0, B)
			// the allocator only hands out what is free
			zzverif.Assume(zzverif.And(usedCore[m]+core <= total[m], usedMem[m]+mem <= total[m]))
			usedCore[m] += core
			usedMem[m] += mem
			allocs = append(allocs, &apiext.DeviceAllocation{Minor: int32(m), Resources: zzvGPURes(core, mem)})
		}
		written[p] = apiext.DeviceAllocations{gpu: allocs}
		hasVF := zzverif.Choice("pod"+ps+"_virtualFunction", zzverif.Param("vf")) == 1
		if hasVF {
			// pod p holds virtual function p (and, by choice, one more) of the RDMA device
			ext := &apiext.DeviceAllocationExtension{VirtualFunctions: []apiext.VirtualFunction{{Minor: p, BusID: vfs[p]}}}
			if p == 0 && zzverif.Choice("pod"+ps+"_secondVF", 2) == 1 {
				ext.VirtualFunctions = append(ext.VirtualFunctions, apiext.VirtualFunction{Minor: 2, BusID: vfs[2]})
			}
			written[p][rdma] = []*apiext.DeviceAllocation{{Minor: 0, Resources: corev1.ResourceList{apiext.ResourceRDMA: *resource.NewQuantity(1, resource.DecimalSI)}, Extension: ext}}
		}

		// Reserve
		n := live.getNodeDevice("node", false)
		n.updateCacheUsed(written[p], pods[p], true)
		// PreBind
		unbound := pods[p].DeepCopy()
		cs := framework.NewCycleState()
		cs.Write(stateKey, &preFilterState{allocationResult: written[p]})
		st := pl.preBindObject(context.TODO(), cs, pods[p], "node")
		zzverif.Assert(st.IsSuccess(), "the allocation can be persisted")
		pods[p].Spec.NodeName = "node"
		// the informer reports the bound pod to the scheduler that bound it
		live.onPodUpdate(unbound, pods[p])

		// ---- the codec: what was written is what is read
		got, err := apiext.GetDeviceAllocations(pods[p].Annotations)
		zzverif.Assert(err == nil && got != nil, "the persisted allocation can be read back")
		zzverif.Assert(len(got) == len(written[p]) && len(got[gpu]) == len(allocs), "the same devices are read back")
		if len(got[gpu]) == len(allocs) {
			for k := range allocs {
				zzverif.Assert(got[gpu][k].Minor == allocs[k].Minor && got[gpu][k].ID == "gpu-"+strconv.Itoa(int(allocs[k].Minor)), "the same device minor and id are read back")
				zzvSameList(got[gpu][k].Resources, allocs[k].Resources, "the amounts read back are the amounts written")
			}
		}
		if hasVF {
			want := written[p][rdma][0]
			ok := len(got[rdma]) == 1 && got[rdma][0].Extension != nil && len(got[rdma][0].Extension.VirtualFunctions) == len(want.Extension.VirtualFunctions)
			zzverif.Assert(ok, "the virtual functions read back are those written")
			if ok {
				for k, vf := range want.Extension.VirtualFunctions {
					zzverif.Assert(got[rdma][0].Extension.VirtualFunctions[k] == vf, "the virtual functions read back are those written")
				}
				zzverif.Assert(got[rdma][0].ID == "0000:5f:00.0" && got[rdma][0].Minor == 0, "the same device minor and id are read back")
			}
		}
	}

	// ---- restart: an empty cache, the persisted objects only
	fresh := newNodeDeviceCache()
	crAt := zzverif.Choice("deviceObjectArrivesAfter", np+1) // the Device object arrives after this many pod events
	delivered := make([]bool, np)
	ne := zzverif.Param("events")
	for e := 0; e < ne; e++ {
		if e == crAt {
			fresh.updateNodeDevice("node", dev)
		}
		es := strconv.Itoa(e)
		p := zzverif.Choice("event"+es+"_pod", np)
		if !delivered[p] {
			fresh.onPodAdd(pods[p]) // the initial list
			delivered[p] = true
		} else if zzverif.Choice("event"+es+"_kind", 2) == 0 {
			fresh.onPodAdd(pods[p]) // a duplicate add
		} else {
			fresh.onPodUpdate(pods[p], pods[p].DeepCopy()) // an update that carries the same allocation
		}
	}
	if crAt >= ne {
		fresh.updateNodeDevice("node", dev)
	}
	for p := range delivered {
		zzverif.Assume(delivered[p]) // every surviving object is delivered at least once
	}
	zzverif.Reach("all-delivered")

	a, b := live.getNodeDevice("node", false), fresh.getNodeDevice("node", false)
	zzverif.Assert(b != nil, "the restarted scheduler knows the node")
	if b == nil {
		return
	}
	var sumCore, sumMem int64
	for m := 0; m < ng; m++ {
		zzvSameList(a.deviceUsed[gpu][m], b.deviceUsed[gpu][m], "in-use per device after the restart == in-use before it")
		zzvSameList(a.deviceFree[gpu][m], b.deviceFree[gpu][m], "free per device after the restart == free before it")
		zzvSameList(a.deviceTotal[gpu][m], b.deviceTotal[gpu][m], "total per device after the restart == total before it")
		// and nothing that was taken is considered free
		zzverif.Assert(zzvAmount(b.deviceFree[gpu][m], apiext.ResourceGPUCore) == total[m]-usedCore[m], "no device share taken before the restart is free after it")
		zzverif.Assert(zzvAmount(b.deviceFree[gpu][m], apiext.ResourceGPUMemoryRatio) == total[m]-usedMem[m], "no device share taken before the restart is free after it")
		sumCore += zzvAmount(b.deviceUsed[gpu][m], apiext.ResourceGPUCore)
		sumMem += zzvAmount(b.deviceFree[gpu][m], apiext.ResourceGPUMemoryRatio)
	}
	for p := range pods {
		key := types.NamespacedName{Namespace: "ns", Name: pods[p].Name}
		zzverif.Assert(len(a.allocateSet[gpu][key]) == len(b.allocateSet[gpu][key]), "the same pods hold the same devices after the restart")
		for m := 0; m < ng; m++ {
			_, ina := a.allocateSet[gpu][key][m]
			_, inb := b.allocateSet[gpu][key][m]
			zzverif.Assert(ina == inb, "the same pods hold the same devices after the restart")
			if ina && inb {
				zzvSameList(a.allocateSet[gpu][key][m], b.allocateSet[gpu][key][m], "each pod's recorded share after the restart == before it")
			}
		}
	}
	for _, vf := range vfs {
		var ina, inb bool
		if v := a.vfAllocations[rdma]; v != nil {
			ina = v.allocatedVFs[0].Has(vf)
		}
		if v := b.vfAllocations[rdma]; v != nil {
			inb = v.allocatedVFs[0].Has(vf)
		}
		zzverif.Assert(ina == inb, "no virtual function taken before the restart is free after it (and none is taken that was free)")
	}
	zzvSameList(a.deviceUsed[rdma][0], b.deviceUsed[rdma][0], "in-use per device after the restart == in-use before it")
	zzverif.Observe("usedCore", sumCore)
	zzverif.Observe("freeMem", sumMem)
	zzverif.Reach("end")
}

// ZzvC19Twin: must-fail twin: claims the restarted scheduler sees the device as unused.
func ZzvC19Twin() {
	const gpu = schedulingv1alpha1.GPU
	minor := int32(0)
	dev := &schedulingv1alpha1.Device{ObjectMeta: metav1.ObjectMeta{Name: "node"}, Spec: schedulingv1alpha1.DeviceSpec{Devices: []schedulingv1alpha1.DeviceInfo{
		{Type: gpu, Minor: &minor, UUID: "gpu-0", Health: true, Resources: zzvGPURes(100, 100)}}}}
	a := zzverif.Int64("amount", 1, 100)
	pod := &corev1.Pod{ObjectMeta: metav1.ObjectMeta{Namespace: "ns", Name: "pod"}, Spec: corev1.PodSpec{NodeName: "node"}}
	_ = apiext.SetDeviceAllocations(pod, apiext.DeviceAllocations{gpu: {{Minor: 0, Resources: zzvGPURes(a, a)}}})
	fresh := newNodeDeviceCache()
	fresh.updateNodeDevice("node", dev)
	fresh.onPodAdd(pod)
	n := fresh.getNodeDevice("node", false)
	zzverif.Assert(zzvAmount(n.deviceFree[gpu][0], apiext.ResourceGPUCore) == 100, "twin: a share taken before the restart is free after it")
	zzverif.Reach("end")
}

// ZzvC19Codec: the engine's models of encoding/json and of resource.Quantity's JSON text against the real
// libraries on hand-written device-allocation annotations (quantity spellings, nulls, wrong types,
// unparsable amounts, extensions), read by GetDeviceAllocations and replayed into an empty cache. Every path
// is replayed natively and everything observable is observed: a disagreement makes the run inconclusive.
func ZzvC19Codec() {
	const gpu = schedulingv1alpha1.GPU
	docs := []string{
		`{"gpu":[{"minor":0,"resources":{"koordinator.sh/gpu-core":"100"}}]}`,
		`{"gpu":[{"minor":1,"resources":{"koordinator.sh/gpu-core":"50","koordinator.sh/gpu-memory-ratio":"8Gi"},"id":"x","extension":{"vfs":[{"minor":2,"busID":"0000:01:00.2"}]}}]}`,
		`{"gpu":null}`,
		`{}`,
		`null`,
		`{"rdma":[{"minor":1,"resources":null}]}`,
		`{"gpu":[null]}`,
		`{"gpu":[{"minor":"1"}]}`,
		`{"gpu":[{"minor":1,"resources":{"koordinator.sh/gpu-core":"abc"}}]}`,
		`{"gpu":[{"minor":1,"resources":{"koordinator.sh/gpu-core":1500}}]}`,
		`{"gpu":[{"minor":1,"resources":{"koordinator.sh/gpu-core":"1.5"}}]}`,
		`{"gpu":[{"minor":0,"resources":{"koordinator.sh/gpu-core":"100m"}},{"minor":1,"resources":{"koordinator.sh/gpu-core":"1e3"}}]}`,
		`{"gpu":[{"minor":0,"resources":{"koordinator.sh/gpu-core":"0"}},{"minor":0,"resources":{"koordinator.sh/gpu-core":"-5"}}]}`,
		`{"gpu":[{"minor":0,"resources":{"koordinator.sh/gpu-core":" 7 "}}]}`,
		`{"gpu":[{"minor":0,"resources":{"koordinator.sh/gpu-core":null}}]}`,
		`{"gpu":[{"Minor":1,"RESOURCES":{"koordinator.sh/gpu-core":"3"}}]}`,
		`{"gpu":[{"minor":1,"resources":{"koordinator.sh/gpu-core":"3"}}]`,
		`{"gpu":[{"minor":2147483648}]}`,
	}
	k := zzverif.Choice("doc", len(docs))
	pod := &corev1.Pod{ObjectMeta: metav1.ObjectMeta{Namespace: "ns", Name: "pod", Annotations: map[string]string{apiext.AnnotationDeviceAllocated: docs[k]}}, Spec: corev1.PodSpec{NodeName: "node"}}
	got, err := apiext.GetDeviceAllocations(pod.Annotations)
	b2i := func(b bool) int64 {
		if b {
			return 1
		}
		return 0
	}
	zzverif.Observe("err", b2i(err != nil))
	zzverif.Observe("nil", b2i(got == nil))
	zzverif.Observe("types", int64(len(got)))
	for _, t := range []schedulingv1alpha1.DeviceType{gpu, schedulingv1alpha1.RDMA} {
		zzverif.Observe(string(t)+"_n", int64(len(got[t])))
		for i, a := range got[t] {
			is := string(t) + strconv.Itoa(i)
			if a == nil {
				zzverif.Observe(is+"_nil", 1)
				continue
			}
			zzverif.Observe(is+"_minor", int64(a.Minor))
			zzverif.Observe(is+"_resources", int64(len(a.Resources)))
			zzverif.Observe(is+"_hasExtension", b2i(a.Extension != nil))
			zzverif.Observe(is+"_idLen", int64(len(a.ID)))
			for name, q := range a.Resources {
				zzverif.Observe(is+"_"+string(name)+"_milli", q.MilliValue())
				zzverif.Observe(is+"_"+string(name)+"_value", q.Value())
			}
		}
	}
	if err == nil && len(got[gpu]) > 0 && got[gpu][0] != nil {
		minor := int32(0)
		minor1 := int32(1)
		dev := &schedulingv1alpha1.Device{ObjectMeta: metav1.ObjectMeta{Name: "node"}, Spec: schedulingv1alpha1.DeviceSpec{Devices: []schedulingv1alpha1.DeviceInfo{
			{Type: gpu, Minor: &minor, UUID: "gpu-0", Health: true, Resources: zzvGPURes(100, 100)},
			{Type: gpu, Minor: &minor1, UUID: "gpu-1", Health: true, Resources: zzvGPURes(100, 100)}}}}
		fresh := newNodeDeviceCache()
		fresh.updateNodeDevice("node", dev)
		fresh.onPodAdd(pod)
		n := fresh.getNodeDevice("node", false)
		for m := 0; m < 2; m++ {
			q := n.deviceUsed[gpu][m][apiext.ResourceGPUCore]
			zzverif.Observe("used"+strconv.Itoa(m)+"_milli", q.MilliValue())
			f := n.deviceFree[gpu][m][apiext.ResourceGPUCore]
			zzverif.Observe("free"+strconv.Itoa(m)+"_milli", f.MilliValue())
		}
	}
	zzverif.Reach("end")
}
