package reservation

// C19 harness, reservation assignment: the assignment PreBind persists on the pod is read back unchanged,
// and a freshly started scheduler that lists the reservations and then the annotated pods rebuilds each
// reservation's assigned pods and allocated amounts exactly. Overlay-only file; see /verif/DESIGN.md
// section 5/C19.

import (
	"strconv"

	corev1 "k8s.io/api/core/v1"
	"k8s.io/apimachinery/pkg/api/resource"
	metav1 "k8s.io/apimachinery/pkg/apis/meta/v1"
	"k8s.io/apimachinery/pkg/types"

	apiext "github.com/koordinator-sh/koordinator/apis/extension"
	schedulingv1alpha1 "github.com/koordinator-sh/koordinator/apis/scheduling/v1alpha1"
	"github.com/koordinator-sh/koordinator/pkg/zzverif"
)

func zzvC19Requests(tag string, B int64) (corev1.ResourceList, int64, int64) {
	req := corev1.ResourceList{}
	var cpu, mem int64
	if zzverif.Choice(tag+"_hasCPU", 2) == 1 {
		cpu = zzverif.Int64(tag+"_cpu", 0, B)
		req[corev1.ResourceCPU] = *resource.NewMilliQuantity(cpu, resource.DecimalSI)
	}
	if zzverif.Choice(tag+"_hasMem", 2) == 1 {
		mem = zzverif.Int64(tag+"_mem", 0, B)
		req[corev1.ResourceMemory] = *resource.NewQuantity(mem, resource.BinarySI)
	}
	return req, cpu, mem
}

func zzvC19Reservation(name string, B int64) *schedulingv1alpha1.Reservation {
	req := corev1.ResourceList{
		corev1.ResourceCPU:    *resource.NewMilliQuantity(zzverif.Int64(name+"_cpu", 1, B), resource.DecimalSI),
		corev1.ResourceMemory: *resource.NewQuantity(zzverif.Int64(name+"_mem", 1, B), resource.BinarySI),
	}
	r := &schedulingv1alpha1.Reservation{ObjectMeta: metav1.ObjectMeta{Name: name, UID: types.UID("uid-" + name)}}
	r.Spec.Template = &corev1.PodTemplateSpec{Spec: corev1.PodSpec{Containers: []corev1.Container{{Name: "c", Resources: corev1.ResourceRequirements{Requests: req}}}}}
	once := false
	r.Spec.AllocateOnce = &once
	r.Spec.Owners = []schedulingv1alpha1.ReservationOwner{{Object: &corev1.ObjectReference{Namespace: "ns", Name: "owner"}}}
	r.Status.NodeName = "node"
	r.Status.Phase = schedulingv1alpha1.ReservationAvailable
	r.Status.Allocatable = req.DeepCopy()
	return r
}

// ZzvC19Reservation: two available reservations on one node; `pods` pods with arbitrary requests are
// assigned to one of them by a live scheduler (Reserve's assumePod, PreBind's annotation, the informer's
// update event for the bound pod). A second scheduler starts: reservations are listed first (the order
// the plugin constructor enforces), then the pods arrive in any order with duplicate adds and no-change
// updates.
func ZzvC19Reservation() {
	B := int64(1) << uint(zzverif.Param("bits"))
	rs := []*schedulingv1alpha1.Reservation{zzvC19Reservation("r0", B), zzvC19Reservation("r1", B)}
	live := newReservationCache(nil)
	liveH := &podEventHandler{cache: live, nominator: newNominator(nil, nil)}
	for _, r := range rs {
		live.updateReservation(r)
	}
	np := zzverif.Param("pods")
	pods := make([]*corev1.Pod, np)
	owner := make([]int, np)
	wantCPU, wantMem := make([]int64, 2), make([]int64, 2)
	for p := 0; p < np; p++ {
		ps := strconv.Itoa(p)
		req, cpu, mem := zzvC19Requests("pod"+ps, B)
		pod := &corev1.Pod{ObjectMeta: metav1.ObjectMeta{Namespace: "ns", Name: "pod" + ps, UID: types.UID("uid-pod" + ps)},
			Spec: corev1.PodSpec{Containers: []corev1.Container{{Name: "c", Resources: corev1.ResourceRequirements{Requests: req}}}}}
		owner[p] = zzverif.Choice("pod"+ps+"_reservation", 2)
		r := rs[owner[p]]
		wantCPU[owner[p]] += cpu
		wantMem[owner[p]] += mem
		// Reserve
		err := live.assumePod(r.UID, pod)
		zzverif.Assert(err == nil, "an available reservation accepts the pod")
		// PreBind
		unbound := pod.DeepCopy()
		apiext.SetReservationAllocated(pod, r)
		pod.Spec.NodeName = "node"
		liveH.OnUpdate(unbound, pod)
		pods[p] = pod

		got, gerr := apiext.GetReservationAllocated(pod)
		zzverif.Assert(gerr == nil && got != nil, "the persisted assignment can be read back")
		if got != nil {
			zzverif.Assert(got.UID == r.UID && got.Name == r.Name, "the assignment read back is the assignment written")
		}
	}

	fresh := newReservationCache(nil)
	freshH := &podEventHandler{cache: fresh, nominator: newNominator(nil, nil)}
	for _, r := range rs {
		fresh.updateReservation(r)
	}
	delivered := make([]bool, np)
	for e := 0; e < zzverif.Param("events"); e++ {
		es := strconv.Itoa(e)
		p := zzverif.Choice("event"+es+"_pod", np)
		if !delivered[p] {
			freshH.OnAdd(pods[p], true)
			delivered[p] = true
		} else if zzverif.Choice("event"+es+"_kind", 2) == 0 {
			freshH.OnAdd(pods[p], false)
		} else {
			freshH.OnUpdate(pods[p], pods[p].DeepCopy())
		}
	}
	for p := range delivered {
		zzverif.Assume(delivered[p])
	}
	zzverif.Reach("all-delivered")

	var sum int64
	for k, r := range rs {
		a, b := live.getReservationInfoByUID(r.UID), fresh.getReservationInfoByUID(r.UID)
		zzverif.Assert(a != nil && b != nil, "both schedulers know the reservation")
		if a == nil || b == nil {
			continue
		}
		zzverif.Assert(len(a.AssignedPods) == len(b.AssignedPods), "the same pods are assigned to the reservation after the restart")
		for p := range pods {
			_, ina := a.AssignedPods[pods[p].UID]
			_, inb := b.AssignedPods[pods[p].UID]
			zzverif.Assert(ina == inb && ina == (owner[p] == k), "the same pods are assigned to the reservation after the restart")
		}
		ac, bc := a.Allocated[corev1.ResourceCPU], b.Allocated[corev1.ResourceCPU]
		am, bm := a.Allocated[corev1.ResourceMemory], b.Allocated[corev1.ResourceMemory]
		zzverif.Assert(ac.MilliValue() == bc.MilliValue() && am.Value() == bm.Value(), "allocated amounts of the reservation after the restart == before it")
		zzverif.Assert(bc.MilliValue() == wantCPU[k] && bm.Value() == wantMem[k], "no reserved amount taken before the restart is free after it")
		sum += bc.MilliValue() + bm.Value()
	}
	_, liveAllocated := live.allocatedOnNode["node"]
	_, freshAllocated := fresh.allocatedOnNode["node"]
	zzverif.Assert(liveAllocated == freshAllocated && len(live.allocatedOnNode["node"]) == len(fresh.allocatedOnNode["node"]), "the per-node index of allocated reservations is the same after the restart")
	zzverif.Observe("allocated", sum)
	zzverif.Reach("end")
}
