package elasticquota

// C15 harness: admitted quota objects form a well-formed tree. Overlay-only.

import (
	"context"

	corev1 "k8s.io/api/core/v1"
	"k8s.io/apimachinery/pkg/api/resource"
	metav1 "k8s.io/apimachinery/pkg/apis/meta/v1"
	"sigs.k8s.io/controller-runtime/pkg/client"

	"github.com/koordinator-sh/koordinator/apis/extension"
	"github.com/koordinator-sh/koordinator/apis/thirdparty/scheduler-plugins/pkg/apis/scheduling/v1alpha1"
	"github.com/koordinator-sh/koordinator/pkg/zzverif"
)

// zzvClient: the pods bound to a quota are a harness input.
type zzvClient struct {
	client.Client
	hasPods map[string]bool // by quota name (field selector label.quotaName) or namespace
}

func (c *zzvClient) List(ctx context.Context, list client.ObjectList, opts ...client.ListOption) error {
	lo := &client.ListOptions{}
	for _, o := range opts {
		o.ApplyToList(lo)
	}
	key := lo.Namespace
	if lo.FieldSelector != nil {
		if v, ok := lo.FieldSelector.RequiresExactMatch("label.quotaName"); ok {
			key = v
		}
	}
	pl := list.(*corev1.PodList)
	pl.Items = nil
	if c.hasPods[key] {
		pl.Items = []corev1.Pod{{ObjectMeta: metav1.ObjectMeta{Name: "pod-of-" + key}}}
	}
	return nil
}

type zzvSpec struct {
	name, parent string
	isParent     bool
	hasMin       bool
	hasMax       bool
	min, max     int64
	ns           string // "" or a namespace bound through the annotation
}

func (s zzvSpec) object() *v1alpha1.ElasticQuota {
	q := &v1alpha1.ElasticQuota{ObjectMeta: metav1.ObjectMeta{Name: s.name, Labels: map[string]string{}, Annotations: map[string]string{}}}
	q.Labels[extension.LabelQuotaParent] = s.parent
	q.Labels[extension.LabelQuotaIsParent] = "false"
	if s.isParent {
		q.Labels[extension.LabelQuotaIsParent] = "true"
	}
	if s.ns != "" {
		q.Annotations[extension.AnnotationQuotaNamespaces] = "[\"" + s.ns + "\"]"
	}
	q.Spec.Max = corev1.ResourceList{}
	if s.hasMax {
		q.Spec.Max[corev1.ResourceCPU] = *resource.NewQuantity(s.max, resource.DecimalSI)
	}
	q.Spec.Min = corev1.ResourceList{}
	if s.hasMin {
		q.Spec.Min[corev1.ResourceCPU] = *resource.NewQuantity(s.min, resource.DecimalSI)
	}
	return q
}

var zzvQuotaNames = []string{"A", "B", "C"}
var zzvNamespaces = []string{"", "ns1", "ns2"}

// zzvSymSpec: a quota object with a symbolic parent (among cands), flags and amounts.
func zzvSymSpec(tag, name string, parents []string, B int64) zzvSpec {
	return zzvSpec{
		name:     name,
		parent:   parents[zzverif.Choice(tag+".parent", len(parents))],
		isParent: zzverif.Choice(tag+".isParent", 2) == 1,
		hasMin:   zzverif.Choice(tag+".hasMin", 2) == 1,
		hasMax:   zzverif.Choice(tag+".noMax", zzverif.Param("maxModes")) == 0,
		min:      zzverif.Int64(tag+".min", -1, B),
		max:      zzverif.Int64(tag+".max", -1, B),
		ns:       zzvNamespaces[zzverif.Choice(tag+".ns", zzverif.Param("namespaces"))],
	}
}

func zzvCPU(l corev1.ResourceList) (int64, bool) {
	q, ok := l[corev1.ResourceCPU]
	if !ok {
		return 0, false
	}
	return q.Value(), true
}

// zzvWellFormed asserts the statement's conditions on the recorded topology.
func zzvWellFormed(qt *quotaTopology, specs map[string]zzvSpec) {
	n := len(qt.quotaInfoMap)
	for name, qi := range qt.quotaInfoMap {
		// parent exists and is marked as a parent
		if qi.ParentName != extension.RootQuotaName {
			p, ok := qt.quotaInfoMap[qi.ParentName]
			zzverif.Assert(ok, "every parent exists")
			if ok {
				zzverif.Assert(p.IsParent, "every parent is marked as a parent")
			}
		}
		// following parent links reaches the root: no cycle
		cur, steps := name, 0
		for cur != extension.RootQuotaName && steps <= n {
			q, ok := qt.quotaInfoMap[cur]
			if !ok {
				break
			}
			cur = q.ParentName
			steps++
		}
		zzverif.Assert(cur == extension.RootQuotaName, "following parent links from any quota reaches the root (no cycles)")
		// min <= max, min only for dimensions max declares
		mn, hasMin := zzvCPU(qi.CalculateInfo.Min)
		mx, hasMax := zzvCPU(qi.CalculateInfo.Max)
		zzverif.Assert(!hasMin || hasMax, "min is declared only for dimensions max declares")
		if hasMin && hasMax {
			zzverif.Assert(mn <= mx, "min never exceeds max")
		}
		zzverif.Assert(zzverif.And(mn >= 0, mx >= 0), "no negative min or max")
		// children's mins sum to at most the parent's min
		var sum int64
		for child := range qt.quotaHierarchyInfo[name] {
			c, ok := qt.quotaInfoMap[child]
			zzverif.Assert(ok && c.ParentName == name, "hierarchy index lists exactly the children")
			if ok {
				cm, _ := zzvCPU(c.CalculateInfo.Min)
				sum += cm
			}
		}
		zzverif.Assert(sum <= mn, "the children's mins sum to at most the parent's min")
		_, listed := qt.quotaHierarchyInfo[qi.ParentName][name]
		zzverif.Assert(listed, "every quota is listed under its parent")
	}
	// a namespace is bound to at most one quota, and the binding matches the objects
	for ns, q := range qt.namespaceToQuotaMap {
		s, ok := specs[q]
		zzverif.Assert(ok && s.ns == ns, "a namespace is bound to the quota that names it")
	}
	seen := map[string]string{}
	for name, s := range specs {
		if s.ns != "" {
			_, dup := seen[s.ns]
			zzverif.Assert(!dup, "a namespace is bound to at most one quota")
			seen[s.ns] = name
			zzverif.Assert(qt.namespaceToQuotaMap[s.ns] == name, "namespace binding recorded")
		}
	}
}

type zzvSnap struct {
	parent   string
	isParent bool
	min, max int64
	hasMin   bool
}

func zzvSnapshot(qt *quotaTopology) (map[string]zzvSnap, map[string]string, int) {
	m := map[string]zzvSnap{}
	for name, qi := range qt.quotaInfoMap {
		mn, hm := zzvCPU(qi.CalculateInfo.Min)
		mx, _ := zzvCPU(qi.CalculateInfo.Max)
		m[name] = zzvSnap{qi.ParentName, qi.IsParent, mn, mx, hm}
	}
	ns := map[string]string{}
	for k, v := range qt.namespaceToQuotaMap {
		ns[k] = v
	}
	links := 0
	for _, c := range qt.quotaHierarchyInfo {
		links += len(c)
	}
	return m, ns, links
}

// ZzvC15Step: a reachable topology (accepted creations of up to Param("pre") quotas, parent
// first) followed by one arbitrary create / update / delete request.
func ZzvC15Step() {
	B := int64(1) << uint(zzverif.Param("bits"))
	cl := &zzvClient{hasPods: map[string]bool{}}
	qt := NewQuotaTopology(cl)
	specs := map[string]zzvSpec{}
	pre := zzverif.Param("pre")
	parents := []string{extension.RootQuotaName}
	for i := 0; i < pre; i++ {
		s := zzvSymSpec("pre"+zzvQuotaNames[i], zzvQuotaNames[i], parents, B)
		err := qt.ValidAddQuota(s.object())
		zzverif.Assume(err == nil) // the pre-state consists of accepted requests
		specs[s.name] = s
		parents = append(parents, s.name)
	}
	zzvWellFormed(qt, specs)
	before, nsBefore, linksBefore := zzvSnapshot(qt)
	// the request
	op := zzverif.Choice("op", 3)
	allParents := append(append([]string{}, parents...), "missing")
	var err error
	switch op {
	case 0: // create the next name under any parent (incl. a non-existent one)
		s := zzvSymSpec("req", zzvQuotaNames[pre], allParents, B)
		err = qt.ValidAddQuota(s.object())
		if err == nil {
			specs[s.name] = s
		}
	case 1: // update any existing quota: any field incl. the parent (also itself or a descendant)
		who := zzvQuotaNames[zzverif.Choice("req.who", pre)]
		s := zzvSymSpec("req", who, allParents, B)
		if zzverif.Choice("req.hasPods", 2) == 1 {
			cl.hasPods[who] = true
		}
		err = qt.ValidUpdateQuota(specs[who].object(), s.object())
		if err == nil {
			specs[who] = s
		}
	case 2: // delete
		who := zzvQuotaNames[zzverif.Choice("req.who", pre)]
		hasPods := zzverif.Choice("req.hasPods", 2) == 1
		if hasPods {
			cl.hasPods[who] = true
		}
		hadChildren := len(qt.quotaHierarchyInfo[who]) > 0
		err = qt.ValidDeleteQuota(specs[who].object())
		if err == nil {
			zzverif.Assert(!hadChildren, "a quota with children is not deleted")
			zzverif.Assert(!hasPods, "a quota with pods is not deleted")
			delete(specs, who)
		}
	}
	if err == nil {
		zzvWellFormed(qt, specs)
	} else {
		after, nsAfter, linksAfter := zzvSnapshot(qt)
		same := len(after) == len(before) && len(nsAfter) == len(nsBefore) && linksAfter == linksBefore
		zzverif.Assert(same, "a rejected request leaves the recorded topology unchanged (sizes)")
		for name, b := range before {
			a, ok := after[name]
			zzverif.Assert(ok && a.parent == b.parent && a.isParent == b.isParent && a.hasMin == b.hasMin, "a rejected request leaves the recorded topology unchanged (links, flags)")
			zzverif.Assert(zzverif.And(a.min == b.min, a.max == b.max), "a rejected request leaves the recorded topology unchanged (amounts)")
		}
		for k, v := range nsBefore {
			zzverif.Assert(nsAfter[k] == v, "a rejected request leaves the namespace bindings unchanged")
		}
	}
	zzverif.Observe("accepted", zzverif.IteInt64(err == nil, 1, 0))
	zzverif.Reach("end")
}

// ZzvC15Twin: must-fail twin (claims a child's max never exceeds its parent's max).
func ZzvC15Twin() {
	B := int64(1) << 20
	qt := NewQuotaTopology(&zzvClient{hasPods: map[string]bool{}})
	a := zzvSpec{name: "A", parent: extension.RootQuotaName, isParent: true, hasMin: true, hasMax: true, min: zzverif.Int64("A.min", 0, B), max: zzverif.Int64("A.max", 0, B)}
	b := zzvSpec{name: "B", parent: "A", hasMin: true, hasMax: true, min: zzverif.Int64("B.min", 0, B), max: zzverif.Int64("B.max", 0, B)}
	zzverif.Assume(qt.ValidAddQuota(a.object()) == nil)
	if qt.ValidAddQuota(b.object()) == nil {
		zzverif.Assert(b.max <= a.max, "twin: child max <= parent max (false: only the mins are compared)")
	}
	zzverif.Reach("end")
}
