package nodeslo

// C20 harnesses: NodeSLO layering default < cluster < first matching node entry. Overlay-only file (never
// written into the repository); see /verif/DESIGN.md section 5/C20.
//
// The ConfigMap text is produced by json.Marshal of a configuration struct whose optional fields are set or
// unset by choice and whose numbers are symbolic, and is consumed by the real handler
// (syncNodeSLOSpecIfChanged -> calculate*CfgMerged -> util.MergeCfg) and the real reconciler
// (getNodeSLOSpec -> get*Spec). encoding/json is the engine's model (engine/interp/ext_json.go); the
// witness paths are replayed against the real library.

import (
	corev1 "k8s.io/api/core/v1"
	"k8s.io/apimachinery/pkg/api/resource"
	metav1 "k8s.io/apimachinery/pkg/apis/meta/v1"
	"k8s.io/client-go/tools/record"

	"encoding/json"
	"strconv"

	"github.com/koordinator-sh/koordinator/apis/configuration"
	slov1alpha1 "github.com/koordinator-sh/koordinator/apis/slo/v1alpha1"
	"github.com/koordinator-sh/koordinator/pkg/util/sloconfig"
	"github.com/koordinator-sh/koordinator/pkg/zzverif"
)

const zzvB = int64(1) << 40

// A slot is one optional scalar of a strategy, seen as (present, value).
type zzvSlot[S any] struct {
	name string
	// mk returns a fresh arbitrary value of the slot's kind, tagged for the input names
	mk  func(tag string) int64
	set func(s *S, v int64)
	get func(s *S) (bool, int64)
}

func zzvI64[S any](name string, f func(s *S) **int64) zzvSlot[S] {
	return zzvSlot[S]{
		name: name,
		mk:   func(tag string) int64 { return zzverif.Int64(tag, -zzvB, zzvB) },
		set:  func(s *S, v int64) { *f(s) = &v },
		get: func(s *S) (bool, int64) {
			if p := *f(s); p != nil {
				return true, *p
			}
			return false, 0
		},
	}
}

func zzvI32[S any](name string, f func(s *S) **int32) zzvSlot[S] {
	return zzvSlot[S]{
		name: name,
		mk:   func(tag string) int64 { return int64(zzverif.Int32(tag, -1<<30, 1<<30)) },
		set:  func(s *S, v int64) { w := int32(v); *f(s) = &w },
		get: func(s *S) (bool, int64) {
			if p := *f(s); p != nil {
				return true, int64(*p)
			}
			return false, 0
		},
	}
}

func zzvBool[S any](name string, f func(s *S) **bool) zzvSlot[S] {
	return zzvSlot[S]{
		name: name,
		mk: func(tag string) int64 {
			if zzverif.Bool(tag) {
				return 1
			}
			return 0
		},
		set: func(s *S, v int64) { b := v != 0; *f(s) = &b },
		get: func(s *S) (bool, int64) {
			if p := *f(s); p != nil {
				if *p {
					return true, 1
				}
				return true, 0
			}
			return false, 0
		},
	}
}

// a string-valued field with omitempty: "" is "not set"; the catalogue is the field's documented values
func zzvStr[S any](name string, f func(s *S) *string, vals []string) zzvSlot[S] {
	return zzvSlot[S]{
		name: name,
		mk:   func(tag string) int64 { return int64(zzverif.Choice(tag, len(vals))) + 1 },
		set:  func(s *S, v int64) { *f(s) = vals[v-1] },
		get: func(s *S) (bool, int64) {
			for i := range vals {
				if *f(s) == vals[i] {
					return true, int64(i) + 1
				}
			}
			return *f(s) != "", -1
		},
	}
}

// a resource.Quantity held by value with omitempty: zero is "not set"
func zzvQty[S any](name string, f func(s *S) *resource.Quantity) zzvSlot[S] {
	return zzvSlot[S]{
		name: name,
		mk:   func(tag string) int64 { return zzverif.Int64(tag, 1, zzvB) },
		set:  func(s *S, v int64) { *f(s) = *resource.NewQuantity(v, resource.DecimalSI) },
		get: func(s *S) (bool, int64) {
			q := f(s)
			return !q.IsZero(), q.Value()
		},
	}
}

type zzvTS = slov1alpha1.ResourceThresholdStrategy

func zzvThresholdSlots() []zzvSlot[zzvTS] {
	return []zzvSlot[zzvTS]{
		zzvI64("cpuSuppressThresholdPercent", func(s *zzvTS) **int64 { return &s.CPUSuppressThresholdPercent }),
		zzvBool("enable", func(s *zzvTS) **bool { return &s.Enable }),
		zzvStr("cpuSuppressPolicy", func(s *zzvTS) *string { return (*string)(&s.CPUSuppressPolicy) }, []string{string(slov1alpha1.CPUSetPolicy), string(slov1alpha1.CPUCfsQuotaPolicy)}),
		zzvI64("memoryEvictThresholdPercent", func(s *zzvTS) **int64 { return &s.MemoryEvictThresholdPercent }),
		zzvI64("cpuSuppressMinPercent", func(s *zzvTS) **int64 { return &s.CPUSuppressMinPercent }),
		zzvI32("evictEnabledPriorityThreshold", func(s *zzvTS) **int32 { return &s.EvictEnabledPriorityThreshold }),
		zzvI64("memoryEvictLowerPercent", func(s *zzvTS) **int64 { return &s.MemoryEvictLowerPercent }),
		zzvStr("cpuEvictPolicy", func(s *zzvTS) *string { return (*string)(&s.CPUEvictPolicy) }, []string{string(slov1alpha1.EvictByRealLimitPolicy), string(slov1alpha1.EvictByAllocatablePolicy)}),
		zzvI64("memoryAllocatableEvictThresholdPercent", func(s *zzvTS) **int64 { return &s.MemoryAllocatableEvictThresholdPercent }),
		zzvI64("memoryAllocatableEvictLowerPercent", func(s *zzvTS) **int64 { return &s.MemoryAllocatableEvictLowerPercent }),
		zzvI64("cpuEvictBESatisfactionUpperPercent", func(s *zzvTS) **int64 { return &s.CPUEvictBESatisfactionUpperPercent }),
		zzvI64("cpuEvictBESatisfactionLowerPercent", func(s *zzvTS) **int64 { return &s.CPUEvictBESatisfactionLowerPercent }),
		zzvI64("cpuEvictBEUsageThresholdPercent", func(s *zzvTS) **int64 { return &s.CPUEvictBEUsageThresholdPercent }),
		zzvI64("cpuEvictTimeWindowSeconds", func(s *zzvTS) **int64 { return &s.CPUEvictTimeWindowSeconds }),
		zzvI64("cpuEvictThresholdPercent", func(s *zzvTS) **int64 { return &s.CPUEvictThresholdPercent }),
		zzvI64("cpuEvictLowerPercent", func(s *zzvTS) **int64 { return &s.CPUEvictLowerPercent }),
		zzvI64("cpuAllocatableEvictThresholdPercent", func(s *zzvTS) **int64 { return &s.CPUAllocatableEvictThresholdPercent }),
		zzvI64("cpuAllocatableEvictLowerPercent", func(s *zzvTS) **int64 { return &s.CPUAllocatableEvictLowerPercent }),
		zzvI32("allocatableEvictPriorityThreshold", func(s *zzvTS) **int32 { return &s.AllocatableEvictPriorityThreshold }),
	}
}

type zzvSS = slov1alpha1.SystemStrategy

func zzvSystemSlots() []zzvSlot[zzvSS] {
	return []zzvSlot[zzvSS]{
		zzvI64("minFreeKbytesFactor", func(s *zzvSS) **int64 { return &s.MinFreeKbytesFactor }),
		zzvI64("watermarkScaleFactor", func(s *zzvSS) **int64 { return &s.WatermarkScaleFactor }),
		zzvI64("memcgReapBackGround", func(s *zzvSS) **int64 { return &s.MemcgReapBackGround }),
		zzvI64("schedGroupIdentityEnabled", func(s *zzvSS) **int64 { return &s.SchedGroupIdentityEnabled }),
		zzvI64("schedIdleSaverWmark", func(s *zzvSS) **int64 { return &s.SchedIdleSaverWmark }),
		zzvQty("totalNetworkBandwidth", func(s *zzvSS) *resource.Quantity { return &s.TotalNetworkBandwidth }),
		zzvI64("pageCacheLimitEnabled", func(s *zzvSS) **int64 { return &s.PageCacheLimitEnabled }),
	}
}

type zzvBS = slov1alpha1.CPUBurstStrategy

func zzvBurstSlots() []zzvSlot[zzvBS] {
	return []zzvSlot[zzvBS]{
		zzvI64("cpuBurstPercent", func(s *zzvBS) **int64 { return &s.CPUBurstPercent }),
		zzvStr("policy", func(s *zzvBS) *string { return (*string)(&s.Policy) }, []string{string(slov1alpha1.CPUBurstNone), string(slov1alpha1.CPUBurstOnly), string(slov1alpha1.CFSQuotaBurstOnly), string(slov1alpha1.CPUBurstAuto)}),
		zzvI64("sharePoolThresholdPercent", func(s *zzvBS) **int64 { return &s.SharePoolThresholdPercent }),
		zzvI64("cfsQuotaBurstPercent", func(s *zzvBS) **int64 { return &s.CFSQuotaBurstPercent }),
		zzvI64("cfsQuotaBurstPeriodSeconds", func(s *zzvBS) **int64 { return &s.CFSQuotaBurstPeriodSeconds }),
	}
}

type zzvQS = slov1alpha1.ResourceQOSStrategy

// nested field paths; the intermediate structs are allocated on the way (an allocated but empty
// intermediate sets no field)
func zzvCPUQ(class func(s *zzvQS) **slov1alpha1.ResourceQOS) func(s *zzvQS) *slov1alpha1.CPUQOSCfg {
	return func(s *zzvQS) *slov1alpha1.CPUQOSCfg {
		c := class(s)
		if *c == nil {
			*c = &slov1alpha1.ResourceQOS{}
		}
		if (*c).CPUQOS == nil {
			(*c).CPUQOS = &slov1alpha1.CPUQOSCfg{}
		}
		return (*c).CPUQOS
	}
}

func zzvMemQ(class func(s *zzvQS) **slov1alpha1.ResourceQOS) func(s *zzvQS) *slov1alpha1.MemoryQOSCfg {
	return func(s *zzvQS) *slov1alpha1.MemoryQOSCfg {
		c := class(s)
		if *c == nil {
			*c = &slov1alpha1.ResourceQOS{}
		}
		if (*c).MemoryQOS == nil {
			(*c).MemoryQOS = &slov1alpha1.MemoryQOSCfg{}
		}
		return (*c).MemoryQOS
	}
}

func zzvQOSSlots() []zzvSlot[zzvQS] {
	ls := func(s *zzvQS) **slov1alpha1.ResourceQOS { return &s.LSClass }
	be := func(s *zzvQS) **slov1alpha1.ResourceQOS { return &s.BEClass }
	lsr := func(s *zzvQS) **slov1alpha1.ResourceQOS { return &s.LSRClass }
	lsCPU, beCPU, lsrCPU, beMem, lsMem := zzvCPUQ(ls), zzvCPUQ(be), zzvCPUQ(lsr), zzvMemQ(be), zzvMemQ(ls)
	return []zzvSlot[zzvQS]{
		zzvI64("lsClass.cpuQOS.groupIdentity", func(s *zzvQS) **int64 { return &lsCPU(s).GroupIdentity }),
		zzvI64("lsClass.cpuQOS.schedIdle", func(s *zzvQS) **int64 { return &lsCPU(s).SchedIdle }),
		zzvBool("lsClass.cpuQOS.enable", func(s *zzvQS) **bool { return &lsCPU(s).Enable }),
		zzvI64("beClass.cpuQOS.groupIdentity", func(s *zzvQS) **int64 { return &beCPU(s).GroupIdentity }),
		zzvI64("beClass.memoryQOS.minLimitPercent", func(s *zzvQS) **int64 { return &beMem(s).MinLimitPercent }),
		zzvI64("beClass.memoryQOS.wmarkRatio", func(s *zzvQS) **int64 { return &beMem(s).WmarkRatio }),
		zzvBool("lsrClass.cpuQOS.coreExpeller", func(s *zzvQS) **bool { return &lsrCPU(s).CoreExpeller }),
		zzvI64("lsClass.memoryQOS.lowLimitPercent", func(s *zzvQS) **int64 { return &lsMem(s).LowLimitPercent }),
		zzvBool("beClass.memoryQOS.enable", func(s *zzvQS) **bool { return &beMem(s).Enable }),
	}
}

// one layer of a section as the harness chose it: strategy present or not, and per slot under test
// whether it is set and to what
type zzvLayer struct {
	present bool
	set     []bool
	val     []int64
}

func zzvChooseLayer[S any](tag string, slots []zzvSlot[S], mayBeAbsent bool) (zzvLayer, *S) {
	l := zzvLayer{present: true, set: make([]bool, len(slots)), val: make([]int64, len(slots))}
	if mayBeAbsent && zzverif.Choice(tag+"_absent", 2) == 1 {
		l.present = false
		return l, nil
	}
	s := new(S)
	for i, sl := range slots {
		if zzverif.Choice(tag+"_"+sl.name+"_set", 2) == 1 {
			l.set[i] = true
			l.val[i] = sl.mk(tag + "_" + sl.name)
			sl.set(s, l.val[i])
		}
	}
	return l, s
}

// selector catalogue: 0 {a=1}, 1 {b=1}, 2 {} (everything), 3 nil (nothing)
func zzvSelector(tag string) (*metav1.LabelSelector, int) {
	k := zzverif.Choice(tag, zzverif.Param("selectors"))
	switch k {
	case 0:
		return &metav1.LabelSelector{MatchLabels: map[string]string{"a": "1"}}, k
	case 1:
		return &metav1.LabelSelector{MatchLabels: map[string]string{"b": "1"}}, k
	case 2:
		return &metav1.LabelSelector{}, k
	}
	return nil, k
}

// node label catalogue: 0 {a=1}, 1 {b=1}, 2 {a=1,b=1}, 3 none
func zzvNode(tag string) (*corev1.Node, int) {
	k := zzverif.Choice(tag, zzverif.Param("labelSets"))
	n := &corev1.Node{ObjectMeta: metav1.ObjectMeta{Name: tag}}
	switch k {
	case 0:
		n.Labels = map[string]string{"a": "1"}
	case 1:
		n.Labels = map[string]string{"b": "1"}
	case 2:
		n.Labels = map[string]string{"a": "1", "b": "1"}
	}
	return n, k
}

// the statement's meaning of "selector matches the node's labels", written from the catalogues
func zzvMatches(sel, labels int) bool {
	switch sel {
	case 0:
		return labels == 0 || labels == 2
	case 1:
		return labels == 1 || labels == 2
	case 2:
		return true
	}
	return false
}

func zzvPickSlots[S any](all []zzvSlot[S]) []zzvSlot[S] {
	k, g := zzverif.Param("fields"), zzverif.Param("group")
	var out []zzvSlot[S]
	for i := 0; i < k; i++ {
		out = append(out, all[(g*k+i)%len(all)])
	}
	return out
}

type zzvDoc struct {
	cluster zzvLayer
	nodes   []zzvLayer
	sels    []int
}

// expected value of slot i on a node with the given label set, by the statement: first matching entry if
// it sets the field, else the cluster value if set, else the built-in default
func (d *zzvDoc) expect(i int, labels int, defSet bool, defVal int64) (bool, int64) {
	for e := range d.nodes {
		if zzvMatches(d.sels[e], labels) {
			if d.nodes[e].present && d.nodes[e].set[i] {
				return true, d.nodes[e].val[i]
			}
			break
		}
	}
	if d.cluster.present && d.cluster.set[i] {
		return true, d.cluster.val[i]
	}
	return defSet, defVal
}

func zzvHandler() (*SLOCfgHandlerForConfigMapEvent, *NodeSLOReconciler) {
	h := NewSLOCfgHandlerForConfigMapEvent(nil, DefaultSLOCfg(), &record.FakeRecorder{})
	return h, &NodeSLOReconciler{sloCfgCache: h, Recorder: &record.FakeRecorder{}}
}

func zzvCM(key, text string, has bool) *corev1.ConfigMap {
	cm := &corev1.ConfigMap{ObjectMeta: metav1.ObjectMeta{Namespace: sloconfig.ConfigNameSpace, Name: sloconfig.SLOCtrlConfigMap}, Data: map[string]string{}}
	if has {
		cm.Data[key] = text
	}
	return cm
}

// zzvSection drives one section through a sequence of ConfigMap events and checks the strategy delivered to
// a node after each.
func zzvSection[S any](
	key string,
	all []zzvSlot[S],
	def *S,
	marshal func(cluster *S, sels []*metav1.LabelSelector, nodes []*S) []byte,
	delivered func(spec *slov1alpha1.NodeSLOSpec) *S,
	typeErrDoc string,
) {
	slots := zzvPickSlots(all)
	doc := &zzvDoc{}
	var cluster *S
	doc.cluster, cluster = zzvChooseLayer("cluster", slots, true)
	var sels []*metav1.LabelSelector
	var nodes []*S
	for e := 0; e < zzverif.Param("entries"); e++ {
		tag := "entry" + string(rune('0'+e))
		sel, k := zzvSelector(tag + "_selector")
		l, s := zzvChooseLayer(tag, slots, true)
		doc.nodes, doc.sels = append(doc.nodes, l), append(doc.sels, k)
		sels, nodes = append(sels, sel), append(nodes, s)
	}
	text := marshal(cluster, sels, nodes)

	h, r := zzvHandler()
	h.syncNodeSLOSpecIfChanged(zzvCM(key, string(text), true))

	var theNodes []*corev1.Node
	var theLabels []int
	for n := 0; n < zzverif.Param("nodes"); n++ {
		node, labels := zzvNode("node" + string(rune('0'+n)))
		theNodes, theLabels = append(theNodes, node), append(theLabels, labels)
	}
	check := func(d *zzvDoc, when string) {
		for n, node := range theNodes {
			labels := theLabels[n]
			spec, err := r.getNodeSLOSpec(node, nil)
			zzverif.Assert(err == nil && spec != nil, "a node always gets a spec")
			got := delivered(spec)
			zzverif.Assert(got != nil, "the section is always delivered "+when)
			if got == nil {
				return
			}
			sum := int64(0)
			for i, sl := range slots {
				ds, dv := sl.get(def)
				ws, wv := ds, dv
				if d != nil {
					ws, wv = d.expect(i, labels, ds, dv)
				}
				gs, gv := sl.get(got)
				zzverif.Assert(gs == ws, "a field is delivered exactly when some layer (first matching entry, cluster, default) sets it "+when)
				if gs && ws {
					zzverif.Assert(gv == wv, "the delivered value is the first matching entry's, else the cluster's, else the default "+when)
				}
				sum += gv
			}
			// the fields not under test come from no layer but the default
			for j, sl := range all {
				under := false
				for _, u := range slots {
					under = under || u.name == sl.name
				}
				if under {
					continue
				}
				_ = j
				ds, dv := sl.get(def)
				gs, gv := sl.get(got)
				zzverif.Assert(gs == ds && (!gs || gv == dv), "a field no layer sets has its default "+when)
			}
			zzverif.Observe("sum_"+string(rune('0'+n)), sum)
		}
	}
	check(doc, "after a well-formed update")
	zzverif.Reach("first-update-checked")

	// further events, one after the other on the same handler
	if zzverif.Param("history") != 0 {
		h.syncNodeSLOSpecIfChanged(zzvCM(key, "{\"clusterStrategy\":", true))
		check(doc, "after a malformed update")
		zzverif.Reach("malformed-checked")

		h.syncNodeSLOSpecIfChanged(zzvCM(key, typeErrDoc, true))
		check(doc, "after an update of the wrong shape")
		zzverif.Reach("wrong-shape-checked")

		h.syncNodeSLOSpecIfChanged(zzvCM(key, "", false))
		check(nil, "after the section was removed")
		zzverif.Reach("absent-checked")

		h.syncNodeSLOSpecIfChanged(zzvCM(key, "{\"clusterStrategy\":", true))
		check(nil, "after a malformed update that follows the removal")

		h.syncNodeSLOSpecIfChanged(zzvCM(key, string(text), true))
		check(doc, "after the section came back")

		h.syncNodeSLOSpecIfChanged(nil)
		check(nil, "after the ConfigMap was deleted")
		zzverif.Reach("deleted-checked")
	}
	zzverif.Reach("end")
}

func zzvProfile(e int, sel *metav1.LabelSelector) configuration.NodeCfgProfile {
	return configuration.NodeCfgProfile{Name: "entry" + string(rune('0'+e)), NodeSelector: sel}
}

// ZzvC20Threshold: the resource-threshold section.
func ZzvC20Threshold() {
	zzvSection(configuration.ResourceThresholdConfigKey, zzvThresholdSlots(), sloconfig.DefaultResourceThresholdStrategy(),
		func(cluster *zzvTS, sels []*metav1.LabelSelector, nodes []*zzvTS) []byte {
			cfg := configuration.ResourceThresholdCfg{ClusterStrategy: cluster}
			for e := range nodes {
				cfg.NodeStrategies = append(cfg.NodeStrategies, configuration.NodeResourceThresholdStrategy{NodeCfgProfile: zzvProfile(e, sels[e]), ResourceThresholdStrategy: nodes[e]})
			}
			b, err := json.Marshal(cfg)
			zzverif.Assume(err == nil)
			return b
		},
		func(spec *slov1alpha1.NodeSLOSpec) *zzvTS { return spec.ResourceUsedThresholdWithBE },
		"{\"clusterStrategy\":{\"cpuSuppressThresholdPercent\":\"sixty\",\"memoryEvictThresholdPercent\":12}}")
}

// ZzvC20System: the system section.
func ZzvC20System() {
	zzvSection(configuration.SystemConfigKey, zzvSystemSlots(), sloconfig.DefaultSystemStrategy(),
		func(cluster *zzvSS, sels []*metav1.LabelSelector, nodes []*zzvSS) []byte {
			cfg := configuration.SystemCfg{ClusterStrategy: cluster}
			for e := range nodes {
				cfg.NodeStrategies = append(cfg.NodeStrategies, configuration.NodeSystemStrategy{NodeCfgProfile: zzvProfile(e, sels[e]), SystemStrategy: nodes[e]})
			}
			b, err := json.Marshal(cfg)
			zzverif.Assume(err == nil)
			return b
		},
		func(spec *slov1alpha1.NodeSLOSpec) *zzvSS { return spec.SystemStrategy },
		"{\"clusterStrategy\":{\"minFreeKbytesFactor\":[1],\"watermarkScaleFactor\":12}}")
}

// ZzvC20Burst: the CPU-burst section (fields of an embedded struct).
func ZzvC20Burst() {
	zzvSection(configuration.CPUBurstConfigKey, zzvBurstSlots(), sloconfig.DefaultCPUBurstStrategy(),
		func(cluster *zzvBS, sels []*metav1.LabelSelector, nodes []*zzvBS) []byte {
			cfg := configuration.CPUBurstCfg{ClusterStrategy: cluster}
			for e := range nodes {
				cfg.NodeStrategies = append(cfg.NodeStrategies, configuration.NodeCPUBurstCfg{NodeCfgProfile: zzvProfile(e, sels[e]), CPUBurstStrategy: nodes[e]})
			}
			b, err := json.Marshal(cfg)
			zzverif.Assume(err == nil)
			return b
		},
		func(spec *slov1alpha1.NodeSLOSpec) *zzvBS { return spec.CPUBurstStrategy },
		"{\"clusterStrategy\":{\"cpuBurstPercent\":true,\"sharePoolThresholdPercent\":12}}")
}

// ZzvC20QOS: the resource-QoS section (nested field paths, merged level by level).
func ZzvC20QOS() {
	zzvSection(configuration.ResourceQOSConfigKey, zzvQOSSlots(), &zzvQS{},
		func(cluster *zzvQS, sels []*metav1.LabelSelector, nodes []*zzvQS) []byte {
			cfg := configuration.ResourceQOSCfg{ClusterStrategy: cluster}
			for e := range nodes {
				cfg.NodeStrategies = append(cfg.NodeStrategies, configuration.NodeResourceQOSStrategy{NodeCfgProfile: zzvProfile(e, sels[e]), ResourceQOSStrategy: nodes[e]})
			}
			b, err := json.Marshal(cfg)
			zzverif.Assume(err == nil)
			return b
		},
		func(spec *slov1alpha1.NodeSLOSpec) *zzvQS { return spec.ResourceQOSStrategy },
		"{\"clusterStrategy\":{\"lsClass\":{\"cpuQOS\":{\"groupIdentity\":\"two\",\"schedIdle\":1}}}}")
}

// ZzvC20Twin: must-fail twin: a node entry that does not match still wins.
func ZzvC20Twin() {
	slots := zzvThresholdSlots()[:1]
	v := zzverif.Int64("v", -zzvB, zzvB)
	s := &zzvTS{}
	slots[0].set(s, v)
	cfg := configuration.ResourceThresholdCfg{NodeStrategies: []configuration.NodeResourceThresholdStrategy{{
		NodeCfgProfile:            zzvProfile(0, &metav1.LabelSelector{MatchLabels: map[string]string{"a": "1"}}),
		ResourceThresholdStrategy: s,
	}}}
	b, _ := json.Marshal(cfg)
	h, r := zzvHandler()
	h.syncNodeSLOSpecIfChanged(zzvCM(configuration.ResourceThresholdConfigKey, string(b), true))
	spec, _ := r.getNodeSLOSpec(&corev1.Node{ObjectMeta: metav1.ObjectMeta{Name: "n", Labels: map[string]string{"b": "1"}}}, nil)
	_, got := slots[0].get(spec.ResourceUsedThresholdWithBE)
	zzverif.Assert(got == v, "twin: an entry that does not select the node decides its value")
	zzverif.Reach("end")
}

// ZzvC20Codec: the engine's encoding/json model against the real library on documents json.Marshal would
// not produce (nulls, case-variant and duplicate keys, wrong types, overflow, unknown keys, syntax errors)
// decoded over values that are already populated, the way util.MergeCfg and the section parsers do.
// Every path is replayed natively (spec: validate >= number of documents) and everything observable is
// observed, so any disagreement between the model and the library makes the run inconclusive.
func ZzvC20Codec() {
	v := zzverif.Int64("v", -zzvB, zzvB)
	docs := []string{
		`{}`,
		`null`,
		`{"enable":null,"cpuSuppressThresholdPercent":7}`,
		`{"ENABLE":true,"CpuSuppressThresholdPercent":8}`,
		`{"cpuSuppressThresholdPercent":1,"cpuSuppressThresholdPercent":2}`,
		`{"cpuSuppressThresholdPercent":1.5,"memoryEvictThresholdPercent":3}`,
		`{"cpuSuppressThresholdPercent":"x","memoryEvictThresholdPercent":3}`,
		`{"unknown":{"a":[1,2,{"b":null}]},"memoryEvictThresholdPercent":4}`,
		`[1,2]`,
		`{"cpuSuppressPolicy":5,"cpuEvictPolicy":"evictByAllocatable"}`,
		`{"evictEnabledPriorityThreshold":3000000000,"allocatableEvictPriorityThreshold":-5}`,
		" {\"enable\" : true ,\n\t\"cpuEvictTimeWindowSeconds\":-0 } ",
		`{"enable":true}x`,
		`{"cpuEvictPolicy":"evict<&>"}`,
		`{"enable":true`,
		`{"memoryEvictThresholdPercent":12345678901234567890}`,
		`{"memoryEvictThresholdPercent":1e2}`,
		`"text"`,
		`{"cpuSuppressThresholdPercent":null,"cpuSuppressPolicy":null}`,
	}
	k := zzverif.Choice("doc", len(docs))
	slots := zzvThresholdSlots()
	observe := func(tag string, s *zzvTS) {
		if s == nil {
			zzverif.Observe(tag+"_nil", 1)
			return
		}
		for _, sl := range slots {
			set, val := sl.get(s)
			if set {
				zzverif.Observe(tag+"_"+sl.name, val)
			} else {
				zzverif.Observe(tag+"_"+sl.name+"_unset", 1)
			}
		}
	}
	b2i := func(b bool) int64 {
		if b {
			return 1
		}
		return 0
	}

	// 1. over a populated strategy held in an interface, as util.MergeCfg does
	base := sloconfig.DefaultResourceThresholdStrategy()
	base.CPUEvictTimeWindowSeconds = &v
	var target interface{} = base
	err := json.Unmarshal([]byte(docs[k]), &target)
	zzverif.Observe("merge_err", b2i(err != nil))
	got, isStrategy := target.(*zzvTS)
	zzverif.Observe("merge_sameType", b2i(isStrategy))
	if isStrategy {
		zzverif.Observe("merge_samePointer", b2i(got == base))
		observe("merge", got)
	}

	// 2. as the strategy of a node entry (embedded pointer, inline profile) inside a section with two
	// existing entries: elements below the old length are decoded in place, the rest is cut or appended
	w := v
	cfg := configuration.ResourceThresholdCfg{NodeStrategies: []configuration.NodeResourceThresholdStrategy{
		{NodeCfgProfile: zzvProfile(0, &metav1.LabelSelector{MatchLabels: map[string]string{"a": "1"}}), ResourceThresholdStrategy: &zzvTS{CPUEvictTimeWindowSeconds: &w}},
		{NodeCfgProfile: zzvProfile(1, nil)},
	}}
	entries := []int{0, 1, 3}[zzverif.Choice("entries", 3)]
	section := `{"clusterStrategy":` + docs[k] + `,"nodeStrategies":[`
	for e := 0; e < entries; e++ {
		if e > 0 {
			section += ","
		}
		switch e {
		case 0:
			section += `{"name":"first","enable":false}`
		case 1:
			section += `{"nodeSelector":{"matchLabels":{"b":"2"}},"cpuSuppressMinPercent":` + `5}`
		default:
			section += `{"name":"third"}`
		}
	}
	section += `]}`
	err = json.Unmarshal([]byte(section), &cfg)
	zzverif.Observe("section_err", b2i(err != nil))
	zzverif.Observe("section_entries", int64(len(cfg.NodeStrategies)))
	observe("section_cluster", cfg.ClusterStrategy)
	for e := range cfg.NodeStrategies {
		es := string(rune('0' + e))
		ns := cfg.NodeStrategies[e]
		observe("section_entry"+es, ns.ResourceThresholdStrategy)
		zzverif.Observe("section_entry"+es+"_named", b2i(ns.Name != ""))
		if ns.NodeSelector != nil {
			zzverif.Observe("section_entry"+es+"_labels", int64(len(ns.NodeSelector.MatchLabels)))
		} else {
			zzverif.Observe("section_entry"+es+"_noselector", 1)
		}
	}

	// 3. what Marshal writes, Unmarshal reads (symbolic numbers included), and omitempty drops exactly the
	// unset fields
	if err == nil {
		text, merr := json.Marshal(cfg)
		zzverif.Assert(merr == nil, "a decoded section can be encoded")
		var back configuration.ResourceThresholdCfg
		zzverif.Assert(json.Unmarshal(text, &back) == nil, "an encoded section can be decoded")
		zzverif.Observe("back_entries", int64(len(back.NodeStrategies)))
		observe("back_cluster", back.ClusterStrategy)
		for e := range back.NodeStrategies {
			observe("back_entry"+string(rune('0'+e)), back.NodeStrategies[e].ResourceThresholdStrategy)
		}
	}
	zzverif.Reach("end")
}

// ZzvC20Docs: hand-written resource-threshold documents of the kinds json.Marshal never produces (explicit
// nulls, case-variant, escaped and duplicate keys, unknown keys, null selector / strategy / entry list) with
// two symbolic numbers spliced into the text; the expected layering is written out per document.
func ZzvC20Docs() {
	v := zzverif.Int64("v", -zzvB, zzvB)
	w := zzverif.Int64("w", -zzvB, zzvB)
	V, W := strconv.FormatInt(v, 10), strconv.FormatInt(w, 10)
	const sel = `"nodeSelector":{"matchLabels":{"a":"1"}}`
	def := sloconfig.DefaultResourceThresholdStrategy()
	dCPU, dMem := *def.CPUSuppressThresholdPercent, *def.MemoryEvictThresholdPercent
	type want struct {
		cpu, mem int64
		enable   bool
	}
	type doc struct {
		text               string
		matched, unmatched want // node {a=1}, node without labels
	}
	docs := []doc{
		// explicit null at the cluster layer sets nothing; a case-variant key in the entry sets the field
		{`{"clusterStrategy":{"cpuSuppressThresholdPercent":null,"memoryEvictThresholdPercent":` + V + `},"nodeStrategies":[{` + sel + `,"CPUSUPPRESSTHRESHOLDPERCENT":` + W + `}]}`,
			want{w, v, false}, want{dCPU, v, false}},
		// duplicate keys: the last one counts
		{`{"clusterStrategy":{"memoryEvictThresholdPercent":` + V + `},"nodeStrategies":[{` + sel + `,"memoryEvictThresholdPercent":1,"memoryEvictThresholdPercent":` + W + `}]}`,
			want{dCPU, w, false}, want{dCPU, v, false}},
		// unknown keys at every level are ignored
		{`{"x":[1,{"y":null}],"clusterStrategy":{"x":{"enable":true},"memoryEvictThresholdPercent":` + V + `},"nodeStrategies":[{"x":"y",` + sel + `,"cpuSuppressThresholdPercent":` + W + `}]}`,
			want{w, v, false}, want{dCPU, v, false}},
		// null in an entry is "not set": the cluster value shows through
		{`{"clusterStrategy":{"enable":true,"cpuSuppressThresholdPercent":` + V + `},"nodeStrategies":[{` + sel + `,"enable":null,"cpuSuppressThresholdPercent":null,"memoryEvictThresholdPercent":` + W + `}]}`,
			want{v, w, true}, want{v, dMem, true}},
		// a null selector selects nothing
		{`{"clusterStrategy":{"cpuSuppressThresholdPercent":` + V + `},"nodeStrategies":[{"name":"n","nodeSelector":null,"cpuSuppressThresholdPercent":` + W + `}]}`,
			want{v, dMem, false}, want{v, dMem, false}},
		// a null cluster strategy: entries are layered over the defaults
		{`{"clusterStrategy":null,"nodeStrategies":[{` + sel + `,"memoryEvictThresholdPercent":` + W + `}]}`,
			want{dCPU, w, false}, want{dCPU, dMem, false}},
		// a null entry list
		{`{"clusterStrategy":{"memoryEvictThresholdPercent":` + V + `,"enable":true},"nodeStrategies":null}`,
			want{dCPU, v, true}, want{dCPU, v, true}},
		// escaped key, white space, an empty selector (everything) after a non-matching entry
		{"{ \"clusterStrategy\" : { \"\\u0065nable\" : true } ,\n \"nodeStrategies\" : [ {\"nodeSelector\":{\"matchLabels\":{\"b\":\"1\"}},\"cpuSuppressThresholdPercent\":1}, {\"nodeSelector\":{},\"cpuSuppressThresholdPercent\":" + W + "} ] }",
			want{w, dMem, true}, want{w, dMem, true}},
	}
	k := zzverif.Choice("doc", len(docs))
	h, r := zzvHandler()
	h.syncNodeSLOSpecIfChanged(zzvCM(configuration.ResourceThresholdConfigKey, docs[k].text, true))
	for n, labels := range []map[string]string{{"a": "1"}, nil} {
		spec, err := r.getNodeSLOSpec(&corev1.Node{ObjectMeta: metav1.ObjectMeta{Name: "n", Labels: labels}}, nil)
		zzverif.Assert(err == nil && spec != nil && spec.ResourceUsedThresholdWithBE != nil, "a node always gets the section")
		got := spec.ResourceUsedThresholdWithBE
		wt := docs[k].matched
		if n == 1 {
			wt = docs[k].unmatched
		}
		zzverif.Assert(got.CPUSuppressThresholdPercent != nil && *got.CPUSuppressThresholdPercent == wt.cpu, "hand-written document: cpuSuppressThresholdPercent is layered as stated")
		zzverif.Assert(got.MemoryEvictThresholdPercent != nil && *got.MemoryEvictThresholdPercent == wt.mem, "hand-written document: memoryEvictThresholdPercent is layered as stated")
		zzverif.Assert(got.Enable != nil && *got.Enable == wt.enable, "hand-written document: enable is layered as stated")
		zzverif.Observe("cpu"+string(rune('0'+n)), *got.CPUSuppressThresholdPercent)
		zzverif.Observe("mem"+string(rune('0'+n)), *got.MemoryEvictThresholdPercent)
	}
	zzverif.Reach("end")
}
