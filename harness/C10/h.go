package cpusuppress

// C10 harnesses. Overlay-only; see /verif/DESIGN.md 5/C10.

import (
	"strconv"

	topov1alpha1 "github.com/k8stopologyawareschedwg/noderesourcetopology-api/pkg/apis/topology/v1alpha1"
	corev1 "k8s.io/api/core/v1"
	"k8s.io/apimachinery/pkg/api/resource"
	metav1 "k8s.io/apimachinery/pkg/apis/meta/v1"
	"k8s.io/apimachinery/pkg/types"

	apiext "github.com/koordinator-sh/koordinator/apis/extension"
	slov1alpha1 "github.com/koordinator-sh/koordinator/apis/slo/v1alpha1"
	"github.com/koordinator-sh/koordinator/pkg/koordlet/metriccache"
	"github.com/koordinator-sh/koordinator/pkg/koordlet/resourceexecutor"
	"github.com/koordinator-sh/koordinator/pkg/koordlet/statesinformer"
	koordletutil "github.com/koordinator-sh/koordinator/pkg/koordlet/util"
	"github.com/koordinator-sh/koordinator/pkg/util/cpuset"
	"github.com/koordinator-sh/koordinator/pkg/zzverif"
)

// ---- H3: calculateBESuppressCPUSetPolicy ----------------------------------------

func zzvProcessors(n int) []koordletutil.ProcessorInfo {
	// n logical CPUs, two threads per core, two NUMA nodes when n >= 4
	var ps []koordletutil.ProcessorInfo
	for c := 0; c < n; c++ {
		node := int32(0)
		if n >= 4 && c >= n/2 {
			node = 1
		}
		ps = append(ps, koordletutil.ProcessorInfo{CPUID: int32(c), CoreID: int32(c / 2), SocketID: node, NodeID: node})
	}
	return ps
}

// ZzvC10Policy: the CPU list is made of distinct existing CPUs and has exactly the requested size
// whenever that many CPUs are offered; an arbitrary subset of the processors may be offered.
func ZzvC10Policy() {
	n := zzverif.Param("cpus")
	all := zzvProcessors(n)
	var offered []koordletutil.ProcessorInfo
	for _, p := range all {
		if zzverif.Choice("offered"+strconv.Itoa(int(p.CPUID)), 2) == 1 {
			offered = append(offered, p)
		}
	}
	want := zzverif.Int32("cpus", -1, int32(n+2))
	got := calculateBESuppressCPUSetPolicy(want, offered)
	seen := map[int32]bool{}
	for _, id := range got {
		zzverif.Assert(!seen[id], "the CPU list has no duplicates")
		seen[id] = true
		ok := false
		for _, p := range offered {
			if p.CPUID == id {
				ok = true
			}
		}
		zzverif.Assert(ok, "only offered CPUs are used")
	}
	zzverif.Assert(int32(len(got)) <= zzverif.MaxInt32(want, 0), "never more CPUs than budgeted")
	zzverif.Assert(zzverif.Implies(zzverif.And(want >= 0, want <= int32(len(offered))), int32(len(got)) == want), "exactly the budgeted number whenever enough CPUs are offered")
	zzverif.Reach("end")
}

// ---- H2: adjustByCPUSet end to end ---------------------------------------------------

type zzvReader struct {
	resourceexecutor.CgroupReader
	old cpuset.CPUSet
}

func (r *zzvReader) ReadCPUSet(parentDir string) (*cpuset.CPUSet, error) { return &r.old, nil }

type zzvInformer struct {
	statesinformer.StatesInformer
	pods []*statesinformer.PodMeta
	topo *topov1alpha1.NodeResourceTopology
}

func (i *zzvInformer) GetAllPods() []*statesinformer.PodMeta           { return i.pods }
func (i *zzvInformer) GetNodeTopo() *topov1alpha1.NodeResourceTopology { return i.topo }

var zzvApplied struct {
	called  bool
	be, old []int32
}

// zzvRecordApply replaces CPUSuppress.applyBESuppressCPUSet (spec "redirect"): the cgroup write
// protocol is C12's subject; here the CPU list handed over is the observable.
func zzvRecordApply(r *CPUSuppress, beCPUSet []int32, oldCPUSet []int32) error {
	zzvApplied.called = true
	zzvApplied.be = append([]int32(nil), beCPUSet...)
	zzvApplied.old = append([]int32(nil), oldCPUSet...)
	return nil
}

// roles of a CPU
const (
	zzvFree = iota
	zzvLSE
	zzvLSR
	zzvReserved
	zzvSystem
)

func zzvSetStr(ids []int) string {
	s := ""
	for k, id := range ids {
		if k > 0 {
			s += ","
		}
		s += strconv.Itoa(id)
	}
	return s
}

// ZzvC10CPUSet: adjustByCPUSet on a small processor list where every CPU is free, owned by an LSE pod,
// owned by an LSR pod, reserved for the node or exclusive to system QoS.
func ZzvC10CPUSet() {
	n := zzverif.Param("cpus")
	procs := zzvProcessors(n)
	role := make([]int, n)
	var lse, lsr, reserved, system []int
	eligible := 0
	for c := 0; c < n; c++ {
		role[c] = zzverif.Choice("role"+strconv.Itoa(c), zzverif.Param("roles"))
		switch role[c] {
		case zzvLSE:
			lse = append(lse, c)
		case zzvLSR:
			lsr = append(lsr, c)
			eligible++
		case zzvReserved:
			reserved = append(reserved, c)
		case zzvSystem:
			system = append(system, c)
		default:
			eligible++
		}
	}
	mkPod := func(name string, qos apiext.QoSClass, cpus []int) *statesinformer.PodMeta {
		p := &corev1.Pod{ObjectMeta: metav1.ObjectMeta{Namespace: "ns", Name: name, UID: types.UID(name), Labels: map[string]string{apiext.LabelPodQoS: string(qos)}, Annotations: map[string]string{}}}
		p.Annotations[apiext.AnnotationResourceStatus] = "{\"cpuset\":\"" + zzvSetStr(cpus) + "\"}"
		return &statesinformer.PodMeta{Pod: p}
	}
	inf := &zzvInformer{topo: &topov1alpha1.NodeResourceTopology{ObjectMeta: metav1.ObjectMeta{Name: "n", Annotations: map[string]string{}}}}
	if len(lse) > 0 {
		inf.pods = append(inf.pods, mkPod("lse", apiext.QoSLSE, lse))
	}
	if len(lsr) > 0 {
		inf.pods = append(inf.pods, mkPod("lsr", apiext.QoSLSR, lsr))
	}
	if len(reserved) > 0 {
		inf.topo.Annotations[apiext.AnnotationNodeReservation] = "{\"reservedCPUs\":\"" + zzvSetStr(reserved) + "\"}"
	}
	if len(system) > 0 {
		inf.topo.Annotations[apiext.AnnotationNodeSystemQOSResource] = "{\"cpuset\":\"" + zzvSetStr(system) + "\"}"
	}
	oldSize := zzverif.Choice("oldSize", n+1)
	var old []int
	for c := 0; c < oldSize; c++ {
		old = append(old, c)
	}
	r := &CPUSuppress{statesInformer: inf, cgroupReader: &zzvReader{old: cpuset.NewCPUSet(old...)}}
	budget := zzverif.Int64("budgetMilli", 0, int64(n+2)*1000)
	zzvApplied.called, zzvApplied.be, zzvApplied.old = false, nil, nil
	r.adjustByCPUSet(resource.NewMilliQuantity(budget, resource.DecimalSI), &metriccache.NodeCPUInfo{ProcessorInfos: procs})
	// (reaching this line at all is the "never crashes the agent" clause)
	seen := map[int32]bool{}
	for _, id := range zzvApplied.be {
		zzverif.Assert(!seen[id], "the BE CPU set has no duplicates")
		seen[id] = true
		zzverif.Assert(id >= 0 && int(id) < n, "only existing CPUs")
		if id >= 0 && int(id) < n {
			zzverif.Assert(role[id] != zzvLSE, "never a CPU exclusively owned by an LSE pod")
			zzverif.Assert(role[id] != zzvReserved, "never a CPU reserved for the node")
			zzverif.Assert(role[id] != zzvSystem, "never a CPU exclusive to system QoS")
		}
	}
	// budgeted size: ceil(budget), at least two, growing by at most the step limit (ceil(10% of the processors)) per round
	want := (budget + 999) / 1000
	want = zzverif.MaxInt64(want, 2)
	step := int64((n + 9) / 10)
	want = zzverif.MinInt64(want, int64(oldSize)+step)
	size := int64(len(zzvApplied.be))
	if size > 0 {
		zzverif.Reach("a-be-cpu-set-was-applied")
	}
	zzverif.Assert(size <= want, "never more CPUs than budgeted (at least two, step-limited)")
	zzverif.Assert(zzverif.Implies(int64(eligible) >= want, size == want), "exactly the budgeted number whenever enough eligible CPUs exist")
	if eligible == 0 {
		zzverif.Assert(len(zzvApplied.be) == 0, "nothing is handed to the cgroup writer when no CPU is eligible")
	}
	zzverif.Observe("size", size)
	zzverif.Reach("end")
}

// ---- H1: the budget formula -----------------------------------------------------------

func zzvEighths(name string, hi int64) (int64, float64) {
	k := zzverif.Int64(name, 0, hi)
	return k, float64(k) / 8
}

// ZzvC10Budget: calculateBESuppressCPU against the formula of the property, with usage metrics that are
// arbitrary multiples of 1/8 core (so that the float sums are exact and the comparison is an identity, not
// an approximation) and a symbolic capacity, threshold and minimum percentage.
func ZzvC10Budget() {
	np := zzverif.Param("pods")
	var capMilli int64
	if zzverif.Param("symCap") == 1 {
		capMilli = zzverif.Int64("capacityMilli", 1000, 1<<20)
	} else {
		// (capacity * percentage is non-linear; the quick tier fixes the capacity)
		capMilli = []int64{2000, 7500, 64000}[zzverif.Choice("capacity", 3)]
	}
	thr := zzverif.Int64("thresholdPercent", 0, 100)
	node := &corev1.Node{ObjectMeta: metav1.ObjectMeta{Name: "n", Annotations: map[string]string{}}}
	node.Status.Capacity = corev1.ResourceList{corev1.ResourceCPU: *resource.NewMilliQuantity(capMilli, resource.DecimalSI)}
	node.Status.Allocatable = corev1.ResourceList{corev1.ResourceCPU: *resource.NewMilliQuantity(capMilli, resource.DecimalSI)}
	reserved8 := int64(0)
	switch zzverif.Choice("reservation", 4) {
	case 1:
		node.Annotations[apiext.AnnotationNodeReservation] = "{\"resources\":{\"cpu\":\"500m\"}}"
		reserved8 = 4
	case 2:
		node.Annotations[apiext.AnnotationNodeReservation] = "{\"resources\":{\"cpu\":\"2\"}}"
		reserved8 = 16
	case 3:
		node.Annotations[apiext.AnnotationNodeReservation] = "{\"reservedCPUs\":\"0-3\"}"
		reserved8 = 32
	}
	podMetrics := map[string]float64{}
	var podMetas []*statesinformer.PodMeta
	var all8, nonBE8 int64
	var k0 int64
	first := ""
	for i := 0; i < np; i++ {
		uid := "pod" + strconv.Itoa(i)
		k, f := zzvEighths("podUsed8_"+strconv.Itoa(i), 8*64)
		podMetrics[uid] = f
		all8 += k
		p := &corev1.Pod{ObjectMeta: metav1.ObjectMeta{Namespace: "ns", Name: uid, UID: types.UID(uid), Labels: map[string]string{}}}
		switch zzverif.Choice("podClass"+strconv.Itoa(i), 3) {
		case 0: // latency-sensitive, burstable
			p.Labels[apiext.LabelPodQoS] = string(apiext.QoSLS)
			p.Status.QOSClass = corev1.PodQOSBurstable
			podMetas = append(podMetas, &statesinformer.PodMeta{Pod: p})
			nonBE8 += k
			if first == "" {
				first, k0 = uid, k
			}
		case 1: // best effort
			p.Labels[apiext.LabelPodQoS] = string(apiext.QoSBE)
			p.Status.QOSClass = corev1.PodQOSBestEffort
			podMetas = append(podMetas, &statesinformer.PodMeta{Pod: p})
		default: // metric without pod meta: counted as non-BE
			nonBE8 += k
		}
	}
	hostApps := []slov1alpha1.HostApplicationSpec{{Name: "app"}}
	hostMetrics := map[string]float64{}
	var hostAll8, hostNonBE8 int64
	hk, hf := zzvEighths("hostAppUsed8", 8*16)
	switch zzverif.Choice("hostAppClass", 3) {
	case 0: // LS host application
		hostApps[0].QoS = apiext.QoSLS
		hostMetrics["app"] = hf
		hostAll8, hostNonBE8 = hk, hk
	case 1: // BE host application under the best-effort cgroup
		hostApps[0].QoS = apiext.QoSBE
		hostApps[0].CgroupPath = &slov1alpha1.CgroupPath{Base: slov1alpha1.CgroupBaseTypeKubeBesteffort}
		hostMetrics["app"] = hf
		hostAll8 = hk
	default: // no metric
	}
	nk, nf := zzvEighths("nodeUsed8", 8*256)
	var minPtr *int64
	minPct := int64(-1)
	if zzverif.Choice("hasMin", 2) == 1 {
		minPct = zzverif.Int64("minPercent", 0, 100)
		minPtr = &minPct
	}
	r := &CPUSuppress{}
	got := r.calculateBESuppressCPU(node, nf, podMetrics, podMetas, hostApps, hostMetrics, thr, minPtr).MilliValue()

	sys8 := zzverif.MaxInt64(zzverif.MaxInt64(nk-all8-hostAll8, 0), reserved8)
	want := capMilli*thr/100 - 125*(nonBE8+hostNonBE8+sys8)
	if minPtr != nil {
		want = zzverif.MaxInt64(want, capMilli*minPct/100)
	}
	zzverif.Assert(got == want, "budget = capacity*threshold - non-BE pods - non-BE host applications - max(system, reservation), floored by the minimum")
	if first != "" && zzverif.Param("mono") == 1 {
		// growing consumption of one non-BE pod never grows the budget
		d := zzverif.Int64("growth8", 0, 8*64)
		podMetrics[first] = float64(k0+d) / 8
		got2 := r.calculateBESuppressCPU(node, nf, podMetrics, podMetas, hostApps, hostMetrics, thr, minPtr).MilliValue()
		zzverif.Assert(got2 <= got, "the budget does not grow when a non-BE pod uses more")
	}
	zzverif.Reach("end")
}

// ---- H4: quota mode -----------------------------------------------------------------------

type zzvQuotaReader struct {
	resourceexecutor.CgroupReader
	current int64
}

func (r *zzvQuotaReader) ReadCPUQuota(parentDir string) (int64, error) { return r.current, nil }

type zzvExecutor struct {
	resourceexecutor.ResourceUpdateExecutor
	written []string
}

func (e *zzvExecutor) Update(cacheable bool, u resourceexecutor.ResourceUpdater) (bool, error) {
	e.written = append(e.written, u.Value())
	return true, nil
}

// ZzvC10Quota: adjustByCfsQuota with a symbolic budget and a symbolic current quota: what is written is
// the budget times the CFS period (100 ms) floored by the minimum quota, except that growth is limited to
// 10% of the node per round once a quota is set and that changes below 1% of the node may be skipped.
func ZzvC10Quota() {
	cores := []int64{2, 8, 64}[zzverif.Choice("capacityCores", 3)]
	node := &corev1.Node{ObjectMeta: metav1.ObjectMeta{Name: "n"}}
	node.Status.Capacity = corev1.ResourceList{corev1.ResourceCPU: *resource.NewQuantity(cores, resource.DecimalSI)}
	budget := zzverif.Int64("budgetMilli", 0, 64000)
	current := zzverif.Int64("currentQuota", -1, 6400000)
	zzverif.Assume(current != 0)
	ex := &zzvExecutor{}
	r := &CPUSuppress{cgroupReader: &zzvQuotaReader{current: current}, executor: ex}
	r.adjustByCfsQuota(resource.NewMilliQuantity(budget, resource.DecimalSI), node)
	target := zzverif.MaxInt64(budget*100, 2000) // milli * 100000 us / 1000, floored by beMinQuota
	step := cores * 10000                        // 10% of the node per round
	bypass := cores * 1000                       // changes below 1% of the node may be skipped
	zzverif.Assert(len(ex.written) <= 1, "at most one quota write per round")
	if len(ex.written) == 1 {
		zzverif.Reach("quota-written")
		v, err := strconv.ParseInt(ex.written[0], 10, 64)
		zzverif.Assert(err == nil, "the written quota is a decimal integer")
		limited := zzverif.And(current != -1, target-current > step)
		zzverif.Assert(zzverif.Implies(!limited, v == target), "the quota equals the budget times the CFS period, floored by the minimum quota")
		zzverif.Assert(zzverif.Implies(limited, v == current+step), "growth of a quota that is already set is limited to the step per round")
		zzverif.Assert(v >= 2000, "the quota is never below the minimum quota")
	} else {
		zzverif.Reach("quota-write-skipped")
		diff := target - current
		zzverif.Assert(zzverif.And(zzverif.And(diff < bypass, -diff < bypass), target != 2000), "the write is skipped only for a change below the bypass delta that does not go to the minimum quota")
	}
	zzverif.Reach("end")
}

// ZzvC10Twin: must-fail twin (claims the policy always returns an even number of CPUs).
func ZzvC10Twin() {
	want := zzverif.Int32("cpus", 0, 4)
	got := calculateBESuppressCPUSetPolicy(want, zzvProcessors(4))
	zzverif.Assert(len(got)%2 == 0, "twin: always an even number of CPUs (false)")
	zzverif.Reach("end")
}
