package loadaware

// C08 harnesses. Overlay-only; see /verif/DESIGN.md 5/C08.

import (
	"time"

	corev1 "k8s.io/api/core/v1"
	"k8s.io/apimachinery/pkg/api/resource"
	metav1 "k8s.io/apimachinery/pkg/apis/meta/v1"
	"k8s.io/apimachinery/pkg/types"

	"github.com/koordinator-sh/koordinator/apis/extension"
	slov1alpha1 "github.com/koordinator-sh/koordinator/apis/slo/v1alpha1"
	"github.com/koordinator-sh/koordinator/pkg/scheduler/apis/config"
	"github.com/koordinator-sh/koordinator/pkg/zzverif"
)

// zzvEstimator returns the harness-chosen estimate of each pod (by name).
type zzvEstimator struct {
	est map[string]map[corev1.ResourceName]int64
}

func (e *zzvEstimator) Name() string { return "zzv" }
func (e *zzvEstimator) EstimatePod(pod *corev1.Pod) (map[corev1.ResourceName]int64, error) {
	return e.est[pod.Name], nil
}
func (e *zzvEstimator) EstimateNode(node *corev1.Node) (corev1.ResourceList, error) { return nil, nil }

type zzvPodSpec struct {
	name      string
	prod      bool
	estCPU    int64
	hasEst    bool
	scheduled int64 // PodScheduled transition time (unix seconds)
}

func (s zzvPodSpec) pod() *corev1.Pod {
	p := &corev1.Pod{ObjectMeta: metav1.ObjectMeta{Namespace: "ns", Name: s.name, UID: types.UID("uid-" + s.name), Labels: map[string]string{}}}
	if s.prod {
		p.Labels[extension.LabelPodPriorityClass] = string(extension.PriorityProd)
	} else {
		p.Labels[extension.LabelPodPriorityClass] = string(extension.PriorityBatch)
	}
	p.Status.Conditions = []corev1.PodCondition{{Type: corev1.PodScheduled, Status: corev1.ConditionTrue, LastTransitionTime: metav1.Time{Time: time.Unix(s.scheduled, 0)}}}
	return p
}

type zzvReport struct {
	updateTime int64
	interval   int64
	nodeCPU    int64
	usage      []int64 // reported usage per pod, -1: not reported
	prodFlag   []bool
}

func (r zzvReport) metric(names []string) *slov1alpha1.NodeMetric {
	m := &slov1alpha1.NodeMetric{ObjectMeta: metav1.ObjectMeta{Name: "n"}}
	iv := r.interval
	m.Spec.CollectPolicy = &slov1alpha1.NodeMetricCollectPolicy{ReportIntervalSeconds: &iv}
	m.Status.UpdateTime = &metav1.Time{Time: time.Unix(r.updateTime, 0)}
	m.Status.NodeMetric = &slov1alpha1.NodeMetricInfo{}
	m.Status.NodeMetric.NodeUsage.ResourceList = corev1.ResourceList{corev1.ResourceCPU: *resource.NewMilliQuantity(r.nodeCPU, resource.DecimalSI)}
	for i, n := range names {
		if r.usage[i] >= 0 {
			pr := extension.PriorityBatch
			if r.prodFlag[i] {
				pr = extension.PriorityProd
			}
			m.Status.PodsMetric = append(m.Status.PodsMetric, &slov1alpha1.PodMetricInfo{Namespace: "ns", Name: n, Priority: pr,
				PodUsage: slov1alpha1.ResourceMap{ResourceList: corev1.ResourceList{corev1.ResourceCPU: *resource.NewMilliQuantity(r.usage[i], resource.DecimalSI)}}})
		}
	}
	return m
}

func zzvSymReport(tag string, n int, B, T0 int64) zzvReport {
	r := zzvReport{updateTime: zzverif.Int64(tag+".updateTime", T0, T0+3600), interval: zzverif.Int64(tag+".interval", 1, 600), nodeCPU: zzverif.Int64(tag+".nodeCPU", 0, B)}
	for i := 0; i < n; i++ {
		is := string(rune('0' + i))
		u := int64(-1)
		if zzverif.Choice(tag+".reported"+is, 2) == 1 {
			u = zzverif.Int64(tag+".usage"+is, 0, B)
		}
		r.usage = append(r.usage, u)
		r.prodFlag = append(r.prodFlag, zzverif.Choice(tag+".reportedProd"+is, 2) == 1)
	}
	return r
}

func zzvVec(c *podAssignCache, prod bool) (int64, bool) {
	_, est, _, err := c.GetNodeMetricAndEstimatedOfExisting("n", prod, metav1.Duration{}, "", false)
	if err != nil || len(est) == 0 {
		return 0, false
	}
	return est[0], true
}

// ZzvC08Incremental: after any sequence of assign / unassign / pod update / metric report the
// estimate kept for the node equals the one a fresh cache computes from the current report
// and the pods currently assigned.
func ZzvC08Incremental() {
	B := int64(1) << uint(zzverif.Param("bits"))
	const T0 = int64(1790000000)
	n := zzverif.Param("pods")
	names := []string{"p0", "p1"}[:n]
	vec := NewResourceVectorizer(corev1.ResourceCPU)
	args := &config.LoadAwareSchedulingArgs{}
	if zzverif.Choice("estimateAfterScheduled", 2) == 1 {
		s := zzverif.Int64("estimatedSecondsAfterPodScheduled", 1, 600)
		args.EstimatedSecondsAfterPodScheduled = &s
	}
	est := &zzvEstimator{est: map[string]map[corev1.ResourceName]int64{}}
	cache := newPodAssignCache(est, vec, args)
	specs := make([]zzvPodSpec, n)
	assigned := make([]bool, n)
	var report *zzvReport
	newSpec := func(tag string, i int) zzvPodSpec {
		s := zzvPodSpec{name: names[i], prod: zzverif.Choice(tag+".prod", 2) == 1, hasEst: zzverif.Choice(tag+".hasEstimate", 2) == 1, scheduled: zzverif.Int64(tag+".scheduled", T0, T0+3600)}
		if s.hasEst {
			s.estCPU = zzverif.Int64(tag+".estimate", 1, B)
		}
		return s
	}
	setEst := func(e *zzvEstimator, s zzvPodSpec) {
		if s.hasEst {
			e.est[s.name] = map[corev1.ResourceName]int64{corev1.ResourceCPU: s.estCPU}
		} else {
			delete(e.est, s.name)
		}
	}
	steps := zzverif.Param("steps")
	for st := 0; st < steps; st++ {
		ss := string(rune('a' + st))
		switch zzverif.Choice("op"+ss, 3) {
		case 0: // assign a pod, or update it (spec, priority, schedule time, estimate)
			i := zzverif.Choice("who"+ss, n)
			specs[i] = newSpec("s"+ss, i)
			setEst(est, specs[i])
			cache.assign("n", specs[i].pod())
			assigned[i] = true
		case 1: // roll-back / delete
			i := zzverif.Choice("who"+ss, n)
			if assigned[i] {
				cache.unAssign("n", specs[i].pod())
				assigned[i] = false
			}
		case 2: // a metric report arrives
			r := zzvSymReport("r"+ss, n, B, T0)
			report = &r
			cache.AddOrUpdateNodeMetric(r.metric(names))
		}
		if report == nil {
			continue
		}
		// from scratch: a fresh cache fed the current report and the surviving pods
		est2 := &zzvEstimator{est: map[string]map[corev1.ResourceName]int64{}}
		fresh := newPodAssignCache(est2, vec, args)
		fresh.AddOrUpdateNodeMetric(report.metric(names))
		for i := 0; i < n; i++ {
			if assigned[i] {
				setEst(est2, specs[i])
				fresh.assign("n", specs[i].pod())
			}
		}
		for _, prod := range []bool{false, true} {
			a, okA := zzvVec(cache, prod)
			b, okB := zzvVec(fresh, prod)
			zzverif.Assert(okA == okB, "estimate available exactly when a fresh cache has one")
			if okA && okB {
				if prod {
					zzverif.Assert(a == b, "prod estimate == from-scratch computation")
				} else {
					zzverif.Assert(a == b, "node estimate == from-scratch computation")
				}
			}
		}
	}
	zzverif.Reach("end")
}

// ZzvC08Composition: the estimate handed to the threshold check is last reported usage plus, for every
// pod not yet reflected, the amount by which its estimate exceeds its reported usage.
func ZzvC08Composition() {
	B := int64(1) << uint(zzverif.Param("bits"))
	const T0 = int64(1790000000)
	names := []string{"p0"}
	vec := NewResourceVectorizer(corev1.ResourceCPU)
	args := &config.LoadAwareSchedulingArgs{}
	after := zzverif.Int64("estimatedSecondsAfterPodScheduled", 0, 600)
	if after > 0 {
		args.EstimatedSecondsAfterPodScheduled = &after
	}
	est := &zzvEstimator{est: map[string]map[corev1.ResourceName]int64{}}
	cache := newPodAssignCache(est, vec, args)
	s := zzvPodSpec{name: "p0", hasEst: true, estCPU: zzverif.Int64("estimate", 1, B), scheduled: zzverif.Int64("scheduled", T0, T0+3600)}
	est.est["p0"] = map[corev1.ResourceName]int64{corev1.ResourceCPU: s.estCPU}
	r := zzvSymReport("r", 1, B, T0)
	cache.AddOrUpdateNodeMetric(r.metric(names))
	cache.assign("n", s.pod())
	got, ok := zzvVec(cache, false)
	zzverif.Assert(ok, "estimate available")
	// not yet reflected: not reported, or scheduled inside the last report interval, or still before its estimation deadline
	reflected := zzverif.And(r.usage[0] >= 0, zzverif.And(r.updateTime-r.interval >= s.scheduled, zzverif.Or(after == 0, s.scheduled+after <= r.updateTime)))
	reported := zzverif.MaxInt64(r.usage[0], 0)
	want := r.nodeCPU + zzverif.IteInt64(reflected, 0, zzverif.MaxInt64(s.estCPU-reported, 0))
	zzverif.Assert(got == want, "estimate == reported usage + max(0, estimate - reported) for pods the report does not reflect yet")
	zzverif.Reach("end")
}

// ZzvC08Twin: must-fail twin (claims the estimate never exceeds the reported node usage).
func ZzvC08Twin() {
	const T0 = int64(1790000000)
	vec := NewResourceVectorizer(corev1.ResourceCPU)
	est := &zzvEstimator{est: map[string]map[corev1.ResourceName]int64{"p0": {corev1.ResourceCPU: zzverif.Int64("estimate", 1, 1<<20)}}}
	cache := newPodAssignCache(est, vec, &config.LoadAwareSchedulingArgs{})
	r := zzvReport{updateTime: T0 + 100, interval: 60, nodeCPU: zzverif.Int64("nodeCPU", 0, 1<<20), usage: []int64{-1}, prodFlag: []bool{false}}
	cache.AddOrUpdateNodeMetric(r.metric([]string{"p0"}))
	cache.assign("n", zzvPodSpec{name: "p0", scheduled: T0 + 90}.pod())
	got, _ := zzvVec(cache, false)
	zzverif.Assert(got <= r.nodeCPU, "twin: estimate <= reported usage (false)")
	zzverif.Reach("end")
}

// ZzvC08Filter: the threshold test of the filter. For allocatable amounts that are powers of two the float
// computation round(estimated/total*100) is exact, so the verdict must be: pass iff in every thresholded
// resource 200*estimated < (2*threshold+1)*total (utilisation rounded to a whole percent is at or below
// the configured percentage).
func ZzvC08Filter() {
	p := &Plugin{vectorizer: NewResourceVectorizer(corev1.ResourceCPU, corev1.ResourceMemory)}
	pod := &corev1.Pod{ObjectMeta: metav1.ObjectMeta{Namespace: "ns", Name: "p"}}
	n := 2
	thr := make(ResourceVector, n)
	est := make(ResourceVector, n)
	alloc := make(ResourceVector, n)
	pass := true
	for i := 0; i < n; i++ {
		is := string(rune('0' + i))
		thr[i] = zzverif.Int64("threshold"+is, 0, 100)
		est[i] = zzverif.Int64("estimated"+is, 0, 1<<40)
		alloc[i] = []int64{0, 1 << 12, 1 << 16, 1 << 35}[zzverif.Choice("allocatable"+is, 4)]
		if alloc[i] != 0 {
			within := zzverif.Or(thr[i] == 0, 200*est[i] < (2*thr[i]+1)*alloc[i])
			pass = zzverif.And(pass, within)
		}
	}
	status := p.filterNodeUsage("n", pod, thr, est, alloc, zzverif.Choice("aggregated", 2) == 1)
	if status == nil {
		zzverif.Reach("passes")
	} else {
		zzverif.Reach("rejected")
	}
	zzverif.Assert(zzverif.Iff(status == nil, pass), "the filter passes exactly when the estimated utilisation, rounded to a whole percent, is at or below the threshold in every thresholded resource")
	zzverif.Reach("end")
}
