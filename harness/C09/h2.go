package batchresource

// C09-H2/H3: calculateOnNode aggregation and degradation. Overlay-only.

import (
	"time"

	corev1 "k8s.io/api/core/v1"
	"k8s.io/apimachinery/pkg/api/resource"
	metav1 "k8s.io/apimachinery/pkg/apis/meta/v1"
	fakeclock "k8s.io/utils/clock/testing"

	"github.com/koordinator-sh/koordinator/apis/configuration"
	"github.com/koordinator-sh/koordinator/apis/extension"
	slov1alpha1 "github.com/koordinator-sh/koordinator/apis/slo/v1alpha1"
	"github.com/koordinator-sh/koordinator/pkg/slo-controller/noderesource/framework"
	"github.com/koordinator-sh/koordinator/pkg/zzverif"
)

type zzvRL struct{ cpu, mem int64 }

func (r zzvRL) list() corev1.ResourceList {
	return corev1.ResourceList{
		corev1.ResourceCPU:    *resource.NewMilliQuantity(r.cpu, resource.DecimalSI),
		corev1.ResourceMemory: *resource.NewQuantity(r.mem, resource.BinarySI),
	}
}

// zzvSym: param "dim" selects which dimension is symbolic (0 cpu, 1 memory, 2 both);
// the other one is the concrete zero, which halves every merged term.
func zzvSym(name string, B int64) zzvRL {
	var r zzvRL
	d := zzverif.Param("dim")
	if d == 0 || d == 2 {
		r.cpu = zzverif.Int64(name+".cpu", 0, B)
	}
	if d == 1 || d == 2 {
		r.mem = zzverif.Int64(name+".mem", 0, B)
	}
	return r
}
func zzvMax(a, b zzvRL) zzvRL {
	return zzvRL{zzverif.MaxInt64(a.cpu, b.cpu), zzverif.MaxInt64(a.mem, b.mem)}
}
func (a zzvRL) add(b zzvRL) zzvRL { return zzvRL{a.cpu + b.cpu, a.mem + b.mem} }

type zzvPod struct {
	prio      int // 0 prod, 1 mid, 2 batch, 3 free, 4 none (defaults to prod for LS)
	lse       bool
	phase     int // 0 running, 1 pending, 2 succeeded
	hasMetric bool
	req, used zzvRL
}

var zzvPrios = []extension.PriorityClass{extension.PriorityProd, extension.PriorityMid, extension.PriorityBatch, extension.PriorityFree, extension.PriorityNone}
var zzvPhases = []corev1.PodPhase{corev1.PodRunning, corev1.PodPending, corev1.PodSucceeded}

// ZzvC09OnNode: the amounts published by calculateOnNode charge every high-priority
// pod at least what the configured policy says, a pod without metrics at its request.
func ZzvC09OnNode() {
	n := zzverif.Param("N")
	B := int64(1) << uint(zzverif.Param("bits"))
	strategy := &configuration.ColocationStrategy{}
	hundred := int64(100)
	strategy.CPUReclaimThresholdPercent = &hundred // no safety margin: margin is exercised in H1
	strategy.MemoryReclaimThresholdPercent = &hundred
	cpuPol := zzverif.Choice("cpuPolicy", 2) // 0 usage, 1 maxUsageRequest
	memPol := zzverif.Choice("memPolicy", 3) // 0 usage, 1 request, 2 maxUsageRequest
	if cpuPol == 1 {
		p := configuration.CalculateByPodMaxUsageRequest
		strategy.CPUCalculatePolicy = &p
	}
	switch memPol {
	case 1:
		p := configuration.CalculateByPodRequest
		strategy.MemoryCalculatePolicy = &p
	case 2:
		p := configuration.CalculateByPodMaxUsageRequest
		strategy.MemoryCalculatePolicy = &p
	}
	capacity := zzvSym("cap", B)
	kubeletReserved := zzvSym("kres", B)
	zzverif.Assume(zzverif.And(kubeletReserved.cpu <= capacity.cpu, kubeletReserved.mem <= capacity.mem))
	sys := zzvSym("sys", B)
	node := &corev1.Node{ObjectMeta: metav1.ObjectMeta{Name: "n"}}
	node.Status.Capacity = capacity.list()
	node.Status.Allocatable = zzvRL{capacity.cpu - kubeletReserved.cpu, capacity.mem - kubeletReserved.mem}.list()
	nm := &slov1alpha1.NodeMetric{ObjectMeta: metav1.ObjectMeta{Name: "n"}}
	nm.Status.NodeMetric = &slov1alpha1.NodeMetricInfo{}
	nm.Status.NodeMetric.SystemUsage.ResourceList = sys.list()
	podList := &corev1.PodList{}
	pods := make([]zzvPod, n)
	names := []string{"p0", "p1", "p2"}
	for i := 0; i < n; i++ {
		s := names[i]
		pd := zzvPod{
			prio:      zzverif.Choice("prio"+s, zzverif.Param("prios")),
			lse:       zzverif.Choice("lse"+s, 2) == 1,
			phase:     zzverif.Choice("phase"+s, zzverif.Param("phases")),
			hasMetric: zzverif.Choice("metric"+s, 2) == 1,
			req:       zzvSym("req"+s, B),
			used:      zzvSym("used"+s, B),
		}
		pods[i] = pd
		pod := corev1.Pod{ObjectMeta: metav1.ObjectMeta{Namespace: "ns", Name: s, Labels: map[string]string{}}}
		if zzvPrios[pd.prio] != extension.PriorityNone {
			pod.Labels[extension.LabelPodPriorityClass] = string(zzvPrios[pd.prio])
		}
		if pd.lse {
			pod.Labels[extension.LabelPodQoS] = string(extension.QoSLSE)
		} else {
			pod.Labels[extension.LabelPodQoS] = string(extension.QoSLS)
		}
		pod.Status.Phase = zzvPhases[pd.phase]
		pod.Spec.Containers = []corev1.Container{{Name: "c", Resources: corev1.ResourceRequirements{Requests: pd.req.list(), Limits: pd.req.list()}}}
		podList.Items = append(podList.Items, pod)
		if pd.hasMetric {
			nm.Status.PodsMetric = append(nm.Status.PodsMetric, &slov1alpha1.PodMetricInfo{Namespace: "ns", Name: s, PodUsage: slov1alpha1.ResourceMap{ResourceList: pd.used.list()}, Priority: zzvPrios[pd.prio]})
		}
	}
	// one metric of a pod that is no longer listed
	dangling := zzverif.Choice("dangling", 3) // 0 none, 1 prod, 2 batch
	dUsed := zzvRL{}
	if dangling > 0 {
		dUsed = zzvSym("dangling", B)
		pr := extension.PriorityProd
		if dangling == 2 {
			pr = extension.PriorityBatch
		}
		nm.Status.PodsMetric = append(nm.Status.PodsMetric, &slov1alpha1.PodMetricInfo{Namespace: "ns", Name: "gone", PodUsage: slov1alpha1.ResourceMap{ResourceList: dUsed.list()}, Priority: pr})
	}
	// one host application: none / prod (counted as system usage) / batch (not charged)
	hostApp := zzverif.Choice("hostApp", 3)
	hUsed := zzvRL{}
	if hostApp > 0 {
		hUsed = zzvSym("hostApp", B)
		pr := extension.PriorityProd
		if hostApp == 2 {
			pr = extension.PriorityBatch
		}
		nm.Status.HostApplicationMetric = append(nm.Status.HostApplicationMetric, &slov1alpha1.HostApplicationMetricInfo{Name: "app", Priority: pr, Usage: slov1alpha1.ResourceMap{ResourceList: hUsed.list()}})
	}
	p := &Plugin{}
	out, _, _ := p.calculateOnNode(strategy, node, podList, &framework.ResourceMetrics{NodeMetric: nm})
	cpu, mem := out.Cpu().MilliValue(), out.Memory().Value()
	// what the statement requires to be charged
	var chargedCPU, chargedMem int64
	for i := 0; i < n; i++ {
		pd := pods[i]
		if pd.phase == 2 || pd.prio == 2 || pd.prio == 3 { // finished, batch and free pods are not charged
			continue
		}
		var c, m int64
		if !pd.hasMetric { // not reported yet: charged at its request under every policy
			c, m = pd.req.cpu, pd.req.mem
		} else {
			// cpu: usage (LSE pods do not reclaim cpu: request) or max(usage, request)
			if cpuPol == 1 {
				c = zzverif.MaxInt64(pd.req.cpu, pd.used.cpu)
			} else if pd.lse {
				c = pd.req.cpu
			} else {
				c = pd.used.cpu
			}
			switch memPol {
			case 0:
				m = pd.used.mem
			case 1:
				m = pd.req.mem
			case 2:
				m = zzverif.MaxInt64(pd.req.mem, pd.used.mem)
			}
		}
		chargedCPU += c
		chargedMem += m
	}
	if dangling == 1 {
		chargedCPU += dUsed.cpu
		if memPol != 1 {
			chargedMem += dUsed.mem
		}
	}
	sysCPU, sysMem := sys.cpu, sys.mem
	if hostApp == 1 { // a high-priority host application consumes the node's reserved/system share
		sysCPU += hUsed.cpu
		sysMem += hUsed.mem
	}
	sysOrResCPU := zzverif.MaxInt64(sysCPU, kubeletReserved.cpu)
	sysOrResMem := zzverif.MaxInt64(sysMem, kubeletReserved.mem)
	if memPol == 1 {
		sysOrResMem = kubeletReserved.mem
	}
	zzverif.Assert(cpu >= 0 && mem >= 0, "published amounts never negative")
	zzverif.Assert(cpu <= zzverif.MaxInt64(capacity.cpu-sysOrResCPU-chargedCPU, 0), "batch cpu <= capacity - max(system,reserved) - charged high-priority pods")
	zzverif.Assert(mem <= zzverif.MaxInt64(capacity.mem-sysOrResMem-chargedMem, 0), "batch memory <= capacity - max(system,reserved) - charged high-priority pods")
	zzverif.Observe("cpu", cpu)
	zzverif.Observe("mem", mem)
	zzverif.Reach("end")
}

// ZzvC09Degrade: stale node metrics withdraw the resource (reset items), never an old quantity.
func ZzvC09Degrade() {
	now := zzverif.Int64("now", 1700000000, 1800000000)
	upd := zzverif.Int64("update", 1700000000, 1800000000)
	degradeMin := zzverif.Int64("degradeMinutes", 0, 1000)
	hasUpdate := zzverif.Choice("hasUpdate", 2) == 1
	saved := Clock
	Clock = fakeclock.NewFakeClock(time.Unix(now, 0))
	defer func() { Clock = saved }()
	hundred := int64(100)
	strategy := &configuration.ColocationStrategy{DegradeTimeMinutes: &degradeMin, CPUReclaimThresholdPercent: &hundred, MemoryReclaimThresholdPercent: &hundred}
	node := &corev1.Node{ObjectMeta: metav1.ObjectMeta{Name: "n"}}
	node.Status.Capacity = zzvRL{100000, 1 << 30}.list()
	node.Status.Allocatable = node.Status.Capacity
	nm := &slov1alpha1.NodeMetric{ObjectMeta: metav1.ObjectMeta{Name: "n"}}
	nm.Status.NodeMetric = &slov1alpha1.NodeMetricInfo{}
	if hasUpdate {
		nm.Status.UpdateTime = &metav1.Time{Time: time.Unix(upd, 0)}
	}
	p := &Plugin{}
	stale := !hasUpdate
	if hasUpdate {
		stale = now-upd > degradeMin*60
	}
	got := p.isDegradeNeeded(strategy, nm, node)
	zzverif.Assert(zzverif.Iff(got, stale), "degradation needed iff the metric is missing or older than the degrade time")
	if got { // (a fresh metric goes on to the NUMA-level path, which needs a cluster client)
		items, err := p.Calculate(strategy, node, &corev1.PodList{}, &framework.ResourceMetrics{NodeMetric: nm})
		zzverif.Assert(err == nil, "no error")
		for i := range items {
			zzverif.Assert(items[i].Reset && items[i].Quantity == nil, "stale metrics: every item is a reset, no quantity is published")
		}
		zzverif.Assert(len(items) == 2, "both batch resources are withdrawn")
	}
	zzverif.Reach("end")
}
