package util

// C09-H1: CalculateBatchResourceByPolicy. Overlay-only; see /verif/DESIGN.md 5/C09.

import (
	corev1 "k8s.io/api/core/v1"
	"k8s.io/apimachinery/pkg/api/resource"

	"github.com/koordinator-sh/koordinator/apis/configuration"
	"github.com/koordinator-sh/koordinator/pkg/zzverif"
)

type zzvRL struct{ cpu, mem int64 } // milli-cores, bytes

func (r zzvRL) list() corev1.ResourceList {
	return corev1.ResourceList{
		corev1.ResourceCPU:    *resource.NewMilliQuantity(r.cpu, resource.DecimalSI),
		corev1.ResourceMemory: *resource.NewQuantity(r.mem, resource.BinarySI),
	}
}

func zzvSymRL(name string, B int64) zzvRL {
	return zzvRL{zzverif.Int64(name+".cpu", 0, B), zzverif.Int64(name+".mem", 0, B)}
}

type zzvIn struct{ capacity, margin, reserved, sys, hpReq, hpUsed, hpMaxUR zzvRL }

func zzvStrategy() (*configuration.ColocationStrategy, int, int, bool, bool, int64, int64) {
	s := &configuration.ColocationStrategy{}
	cpuPol := zzverif.Choice("cpuPolicy", 3) // 0 unset (usage), 1 usage, 2 maxUsageRequest
	memPol := zzverif.Choice("memPolicy", 4) // 0 unset, 1 usage, 2 request, 3 maxUsageRequest
	switch cpuPol {
	case 1:
		p := configuration.CalculateByPodUsage
		s.CPUCalculatePolicy = &p
	case 2:
		p := configuration.CalculateByPodMaxUsageRequest
		s.CPUCalculatePolicy = &p
	}
	switch memPol {
	case 1:
		p := configuration.CalculateByPodUsage
		s.MemoryCalculatePolicy = &p
	case 2:
		p := configuration.CalculateByPodRequest
		s.MemoryCalculatePolicy = &p
	case 3:
		p := configuration.CalculateByPodMaxUsageRequest
		s.MemoryCalculatePolicy = &p
	}
	cpuCap := zzverif.Choice("cpuCapSet", 2) == 1
	memCap := zzverif.Choice("memCapSet", 2) == 1
	var cpuPct, memPct int64
	if cpuCap {
		cpuPct = zzverif.Int64("cpuCapPct", 0, 100)
		s.BatchCPUThresholdPercent = &cpuPct
	}
	if memCap {
		memPct = zzverif.Int64("memCapPct", 0, 100)
		s.BatchMemoryThresholdPercent = &memPct
	}
	return s, cpuPol, memPol, cpuCap, memCap, cpuPct, memPct
}

func zzvCharged(pol int, isMem bool, in zzvIn) (charged, sysOrRes int64) {
	pick := func(r zzvRL) int64 {
		if isMem {
			return r.mem
		}
		return r.cpu
	}
	sysOrRes = zzverif.MaxInt64(pick(in.sys), pick(in.reserved))
	switch {
	case isMem && pol == 2: // request policy: the reservation, not system usage
		return pick(in.hpReq), pick(in.reserved)
	case (isMem && pol == 3) || (!isMem && pol == 2):
		return pick(in.hpMaxUR), sysOrRes
	}
	return pick(in.hpUsed), sysOrRes
}

// ZzvC09Policy: bounds of the published batch amounts for every policy combination,
// and two-run monotonicity in every consumption input.
func ZzvC09Policy() {
	B := int64(1) << uint(zzverif.Param("bits"))
	strategy, cpuPol, memPol, cpuCap, memCap, cpuPct, memPct := zzvStrategy()
	in := zzvIn{zzvSymRL("cap", B), zzvSymRL("margin", B), zzvSymRL("reserved", B), zzvSymRL("sys", B), zzvSymRL("hpReq", B), zzvSymRL("hpUsed", B), zzvSymRL("hpMaxUR", B)}
	out, _, _ := CalculateBatchResourceByPolicy(strategy, in.capacity.list(), in.margin.list(), in.reserved.list(), in.sys.list(), in.hpReq.list(), in.hpUsed.list(), in.hpMaxUR.list())
	cpu, mem := out.Cpu().MilliValue(), out.Memory().Value()
	zzverif.Assert(cpu >= 0, "batch cpu never negative")
	zzverif.Assert(mem >= 0, "batch memory never negative")
	cc, cs := zzvCharged(cpuPol, false, in)
	mc, ms := zzvCharged(memPol, true, in)
	zzverif.Assert(cpu <= zzverif.MaxInt64(in.capacity.cpu-in.margin.cpu-cs-cc, 0), "batch cpu <= capacity - margin - max(system, reserved) - charged(policy)")
	zzverif.Assert(mem <= zzverif.MaxInt64(in.capacity.mem-in.margin.mem-ms-mc, 0), "batch memory <= capacity - margin - max(system, reserved) - charged(policy)")
	if cpuCap {
		zzverif.Assert(cpu <= int64(float64(in.capacity.cpu)*(float64(cpuPct)/100)), "batch cpu <= percentage cap of capacity")
	}
	if memCap {
		zzverif.Assert(mem <= int64(float64(in.capacity.mem)*(float64(memPct)/100)), "batch memory <= percentage cap of capacity")
	}
	// second run: one consumption input raised (which one by Choice)
	in2 := in
	d := zzvRL{zzverif.Int64("d.cpu", 0, B), zzverif.Int64("d.mem", 0, B)}
	add := func(r zzvRL) zzvRL { return zzvRL{r.cpu + d.cpu, r.mem + d.mem} }
	switch zzverif.Choice("raise", 6) {
	case 0:
		in2.margin = add(in.margin)
	case 1:
		in2.reserved = add(in.reserved)
	case 2:
		in2.sys = add(in.sys)
	case 3:
		in2.hpReq = add(in.hpReq)
	case 4:
		in2.hpUsed = add(in.hpUsed)
	case 5:
		in2.hpMaxUR = add(in.hpMaxUR)
	}
	out2, _, _ := CalculateBatchResourceByPolicy(strategy, in2.capacity.list(), in2.margin.list(), in2.reserved.list(), in2.sys.list(), in2.hpReq.list(), in2.hpUsed.list(), in2.hpMaxUR.list())
	zzverif.Assert(out2.Cpu().MilliValue() <= cpu, "raising a consumption input never raises batch cpu")
	zzverif.Assert(out2.Memory().Value() <= mem, "raising a consumption input never raises batch memory")
	zzverif.Observe("cpu", cpu)
	zzverif.Observe("mem", mem)
	zzverif.Reach("end")
}

// ZzvC09PolicyTwin: must-fail twin (claims the usage-policy result ignores the reservation).
func ZzvC09PolicyTwin() {
	B := int64(1) << 30
	in := zzvIn{zzvSymRL("cap", B), zzvRL{}, zzvSymRL("reserved", B), zzvSymRL("sys", B), zzvRL{}, zzvSymRL("hpUsed", B), zzvRL{}}
	out, _, _ := CalculateBatchResourceByPolicy(&configuration.ColocationStrategy{}, in.capacity.list(), in.margin.list(), in.reserved.list(), in.sys.list(), in.hpReq.list(), in.hpUsed.list(), in.hpMaxUR.list())
	zzverif.Assert(out.Cpu().MilliValue() == zzverif.MaxInt64(in.capacity.cpu-in.sys.cpu-in.hpUsed.cpu, 0), "twin: result == capacity - system usage - pod usage, whatever the reservation (false)")
	zzverif.Reach("end")
}
