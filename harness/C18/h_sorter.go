package sorter

// C18: contract stub for SortPodsByUsage (spec "redirect"). The real comparator divides two symbolic
// float64 values; the property does not depend on the order in which the removable pods of one node are
// tried, so the stub puts them in an arbitrary order chosen by the solver-visible input "order<k>".

import (
	"strconv"

	corev1 "k8s.io/api/core/v1"
	"k8s.io/apimachinery/pkg/api/resource"
	"k8s.io/apimachinery/pkg/types"

	slov1alpha1 "github.com/koordinator-sh/koordinator/apis/slo/v1alpha1"
	"github.com/koordinator-sh/koordinator/pkg/zzverif"
)

var ZzvSortCalls int

func zzvSortPodsByUsage(resourcesThatExceedThresholds map[corev1.ResourceName]resource.Quantity, pods []*corev1.Pod, podMetrics map[types.NamespacedName]*slov1alpha1.ResourceMap, nodeAllocatableMap map[string]corev1.ResourceList, resourceToWeightMap map[corev1.ResourceName]int64) {
	k := ZzvSortCalls
	ZzvSortCalls++
	n := len(pods)
	if n < 2 {
		return
	}
	fact := 1
	for i := 2; i <= n; i++ {
		fact *= i
	}
	code := zzverif.Choice("order"+strconv.Itoa(k)+"_of"+strconv.Itoa(n), fact)
	// decode the permutation (factorial number system)
	rest := append([]*corev1.Pod(nil), pods...)
	for i := 0; i < n; i++ {
		f := 1
		for j := 2; j < n-i; j++ {
			f *= j
		}
		idx := code / f
		code %= f
		pods[i] = rest[idx]
		rest = append(rest[:idx], rest[idx+1:]...)
	}
}
