package loadaware

// C18: the plugin as its constructor wires it. Overlay-only; DESIGN.md 5/C18.

import (
	"context"
	"reflect"
	"strconv"
	"time"

	corev1 "k8s.io/api/core/v1"
	metav1 "k8s.io/apimachinery/pkg/apis/meta/v1"
	"k8s.io/apimachinery/pkg/util/sets"
	clientfeatures "k8s.io/client-go/features"
	"k8s.io/client-go/tools/cache"

	koordclientset "github.com/koordinator-sh/koordinator/pkg/client/clientset/versioned"
	koordfake "github.com/koordinator-sh/koordinator/pkg/client/clientset/versioned/fake"
	koordinformers "github.com/koordinator-sh/koordinator/pkg/client/informers/externalversions"
	sloinformers "github.com/koordinator-sh/koordinator/pkg/client/informers/externalversions/slo"
	slov1informers "github.com/koordinator-sh/koordinator/pkg/client/informers/externalversions/slo/v1alpha1"
	koordslolisters "github.com/koordinator-sh/koordinator/pkg/client/listers/slo/v1alpha1"
	deschedulerconfig "github.com/koordinator-sh/koordinator/pkg/descheduler/apis/config"
	"github.com/koordinator-sh/koordinator/pkg/descheduler/framework"
	"github.com/koordinator-sh/koordinator/pkg/descheduler/utils/sorter"
	"github.com/koordinator-sh/koordinator/pkg/zzverif"
)

// Engine side: the shared informer factory is replaced (spec "redirect" of
// koordinformers.NewSharedInformerFactory): starting informers needs goroutines, and the lister it would
// hand out is replaced by the harness world after construction anyway.
type zzvInfFactory struct {
	koordinformers.SharedInformerFactory
}

func (zzvInfFactory) Start(stopCh <-chan struct{})                                  {}
func (zzvInfFactory) WaitForCacheSync(stopCh <-chan struct{}) map[reflect.Type]bool { return nil }
func (zzvInfFactory) Slo() sloinformers.Interface                                   { return zzvInfSlo{} }

type zzvInfSlo struct{ sloinformers.Interface }

func (zzvInfSlo) V1alpha1() slov1informers.Interface { return zzvInfSloV1{} }

type zzvInfSloV1 struct{ slov1informers.Interface }

func (zzvInfSloV1) NodeMetrics() slov1informers.NodeMetricInformer { return zzvInfNM{} }

type zzvInfNM struct {
	slov1informers.NodeMetricInformer
}

func (zzvInfNM) Informer() cache.SharedIndexInformer      { return nil }
func (zzvInfNM) Lister() koordslolisters.NodeMetricLister { return nil }

func zzvNewInformerFactory(client koordclientset.Interface, defaultResync time.Duration) koordinformers.SharedInformerFactory {
	return zzvInfFactory{}
}

// the handle given to the constructor: the world as framework.Handle plus a koordinator clientset
type zzvCtorHandle struct {
	framework.Handle
	koordclientset.Interface
}

// ZzvC18Ctor: the multi-round anomaly scenario of ZzvC18Anomaly on a plugin built by NewLowNodeLoad
// (argument validation, pod filter assembly from the evictor's filter and the pod selectors, detector
// caches), with both node and prod thresholds: an eviction requires the required number of consecutive
// rounds above the threshold of the pass that evicts.
func ZzvC18Ctor() {
	rounds := zzverif.Param("rounds")
	need := int64(2)
	pool := deschedulerconfig.LowNodeLoadNodePool{Name: "pool",
		LowThresholds:      deschedulerconfig.ResourceThresholds{corev1.ResourceCPU: 30},
		HighThresholds:     deschedulerconfig.ResourceThresholds{corev1.ResourceCPU: 60},
		ProdLowThresholds:  deschedulerconfig.ResourceThresholds{corev1.ResourceCPU: 20},
		ProdHighThresholds: deschedulerconfig.ResourceThresholds{corev1.ResourceCPU: 40},
		ResourceWeights:    map[corev1.ResourceName]int64{corev1.ResourceCPU: 1, corev1.ResourceMemory: 1},
		AnomalyCondition:   &deschedulerconfig.LoadAnomalyCondition{ConsecutiveAbnormalities: uint32(need), ConsecutiveNormalities: 1}}
	args := &deschedulerconfig.LowNodeLoadArgs{NodePools: []deschedulerconfig.LowNodeLoadNodePool{pool},
		PodSelectors:         []deschedulerconfig.LowNodeLoadPodSelector{{Name: "zzv", Selector: &metav1.LabelSelector{MatchLabels: map[string]string{"zzv-evictable": "true"}}}},
		DetectorCacheTimeout: &metav1.Duration{Duration: time.Hour}}
	h := &zzvCtorHandle{Handle: &zzvWorld{}}
	if zzverif.IsNative() {
		// (fake clientsets do not send the bookmark event the watch-list mode of client-go waits for)
		if fg, ok := clientfeatures.FeatureGates().(interface {
			Set(clientfeatures.Feature, bool) error
		}); ok {
			_ = fg.Set(clientfeatures.WatchListClient, false)
		}
		h.Interface = koordfake.NewSimpleClientset()
	}
	p, err := NewLowNodeLoad(context.TODO(), args, h)
	if err != nil {
		zzverif.Fail("NewLowNodeLoad rejects a valid configuration")
		return
	}
	pl := p.(*LowNodeLoad)
	var nodeStreak, prodStreak int64
	for r := 0; r < rounds; r++ {
		sorter.ZzvSortCalls = 0
		zzvRoundTag = "r" + strconv.Itoa(r) + "_"
		w := zzvBuild(true, [][]bool{{true}, {}})
		zzvRoundTag = ""
		w.noFail = true
		for _, pi := range w.pods {
			pi.pod.Labels["zzv-evictable"] = "true"
		}
		pl.handle, pl.nodeMetricLister = w, w
		if w.isSource(0) {
			nodeStreak++
		} else {
			nodeStreak = 0
		}
		if w.isProdSrc(0) {
			prodStreak++
		} else {
			prodStreak = 0
		}
		pl.processOneNodePool(context.TODO(), &pl.args.NodePools[0], w.nodes, sets.NewString())
		if w.calls > 0 {
			if w.isSource(0) {
				zzverif.Assert(nodeStreak > need, "with anomaly detection a pod is evicted only after the node has been above its high threshold for the required consecutive rounds")
			} else {
				zzverif.Assert(prodStreak > need, "with anomaly detection a prod pod is evicted only after the node has been above its prod high threshold for the required consecutive rounds")
			}
		}
	}
	zzverif.Reach("end")
}
