package loadaware

// C18 harness: one balance round of the real LowNodeLoad plugin over three nodes with symbolic usage.
// Overlay-only; see /verif/DESIGN.md 5/C18.

import (
	"context"
	"strconv"

	gocache "github.com/patrickmn/go-cache"
	corev1 "k8s.io/api/core/v1"
	"k8s.io/apimachinery/pkg/api/resource"
	metav1 "k8s.io/apimachinery/pkg/apis/meta/v1"
	"k8s.io/apimachinery/pkg/types"
	"k8s.io/apimachinery/pkg/util/sets"

	"github.com/koordinator-sh/koordinator/apis/extension"
	slov1alpha1 "github.com/koordinator-sh/koordinator/apis/slo/v1alpha1"
	koordslolisters "github.com/koordinator-sh/koordinator/pkg/client/listers/slo/v1alpha1"
	deschedulerconfig "github.com/koordinator-sh/koordinator/pkg/descheduler/apis/config"
	"github.com/koordinator-sh/koordinator/pkg/descheduler/framework"
	"github.com/koordinator-sh/koordinator/pkg/descheduler/utils/sorter"
	"github.com/koordinator-sh/koordinator/pkg/zzverif"
)

const (
	zzvCap      = int64(8000)
	zzvLow      = int64(2400) // 30 %
	zzvHigh     = int64(4800) // 60 %
	zzvProdLow  = int64(1600) // 20 %
	zzvProdHigh = int64(3200) // 40 %
)

type zzvPodInfo struct {
	pod  *corev1.Pod
	node int
	used int64
	prod bool
	pass bool // passes the pod filter
}

type zzvWorld struct {
	framework.Handle
	koordslolisters.NodeMetricLister
	nodes   []*corev1.Node
	metrics map[string]*slov1alpha1.NodeMetric
	pods    []*zzvPodInfo
	byName  map[string]*zzvPodInfo

	usage, prodUsage []int64 // at the start of the round
	evicted          []int64 // usage evicted per node so far (successful evictions)
	evictedProd      []int64
	nodePassTotal    int64
	prodPassTotal    int64
	calls            int
	useProd          bool
	noFail           bool
}

func (w *zzvWorld) Evictor() framework.Evictor { return w }
func (w *zzvWorld) GetPodsAssignedToNodeFunc() framework.GetPodsAssignedToNodeFunc {
	return func(nodeName string, filter framework.FilterFunc) ([]*corev1.Pod, error) {
		var out []*corev1.Pod
		for _, p := range w.pods {
			if p.pod.Spec.NodeName == nodeName && (filter == nil || filter(p.pod)) {
				out = append(out, p.pod)
			}
		}
		return out, nil
	}
}
func (w *zzvWorld) Get(name string) (*slov1alpha1.NodeMetric, error) { return w.metrics[name], nil }
func (w *zzvWorld) Filter(pod *corev1.Pod) bool                      { return true }
func (w *zzvWorld) PreEvictionFilter(pod *corev1.Pod) bool           { return true }

func (w *zzvWorld) nodeHigh(i int) bool { return w.usage[i] > zzvHigh }
func (w *zzvWorld) nodeLow(i int) bool  { return w.usage[i] <= zzvLow }
func (w *zzvWorld) prodHigh(i int) bool { return w.useProd && w.prodUsage[i] > zzvProdHigh }
func (w *zzvWorld) prodLow(i int) bool  { return w.useProd && w.prodUsage[i] <= zzvProdLow }

// the classes of classifyNodes, restated from the property's thresholds
func (w *zzvWorld) isLowOnly(i int) bool { return w.nodeLow(i) && !w.prodHigh(i) && !w.prodLow(i) }
func (w *zzvWorld) isBothLow(i int) bool { return w.nodeLow(i) && !w.prodHigh(i) && w.prodLow(i) }
func (w *zzvWorld) isProdLow(i int) bool {
	return !w.nodeLow(i) && !w.nodeHigh(i) && !w.prodHigh(i) && w.prodLow(i)
}
func (w *zzvWorld) isSource(i int) bool  { return !w.nodeLow(i) && w.nodeHigh(i) }
func (w *zzvWorld) isProdSrc(i int) bool { return (w.nodeLow(i) || !w.nodeHigh(i)) && w.prodHigh(i) }

func (w *zzvWorld) Evict(ctx context.Context, pod *corev1.Pod, opts framework.EvictOptions) bool {
	w.calls++
	p := w.byName[pod.Name]
	i := p.node
	zzverif.Assert(p.pass, "only pods that pass the evictor's filters are evicted")
	var nodeHead, bothNode, prodOnly, bothProd int64
	anyNodeDest, anyProdDest := false, false
	for j := range w.nodes {
		if j == i {
			continue
		}
		if w.isLowOnly(j) || w.isBothLow(j) {
			anyNodeDest = true
			nodeHead += zzvHigh - w.usage[j]
		}
		if w.isBothLow(j) {
			bothNode += zzvHigh - w.usage[j]
			bothProd += zzvProdHigh - w.prodUsage[j]
			anyProdDest = true
		}
		if w.isProdLow(j) {
			prodOnly += zzvProdHigh - w.prodUsage[j]
			anyProdDest = true
		}
	}
	if w.isSource(i) {
		zzverif.Reach("eviction-in-node-pass")
		zzverif.Assert(w.usage[i]-w.evicted[i] > zzvHigh, "a pod is evicted only from a node whose estimated usage is above its high threshold at that moment")
		zzverif.Assert(anyNodeDest, "a pod is evicted only if some other node is below the low thresholds")
		zzverif.Assert(nodeHead-w.nodePassTotal > 0, "eviction stops when the headroom of the underused nodes is used up")
		zzverif.Assert(w.prodPassTotal == 0, "the node pass precedes the prod pass")
	} else {
		zzverif.Reach("eviction-in-prod-pass")
		zzverif.Assert(w.isProdSrc(i), "a pod is evicted only from an overloaded node")
		zzverif.Assert(p.prod, "the prod pass evicts prod pods only")
		zzverif.Assert(w.prodUsage[i]-w.evictedProd[i] > zzvProdHigh, "a prod pod is evicted only from a node whose estimated prod usage is above its prod high threshold at that moment")
		zzverif.Assert(anyProdDest, "a prod pod is evicted only if some other node is below the prod low thresholds")
		left := zzverif.MinInt64(bothNode, nodeHead-w.nodePassTotal)
		head := prodOnly + zzverif.MinInt64(bothProd, left)
		zzverif.Assert(head-w.prodPassTotal > 0, "prod eviction stops when the headroom of the underused nodes is used up")
	}
	if w.calls == 1 && !w.noFail && zzverif.Choice("firstEvictionFails", 2) == 1 {
		return false
	}
	if w.isSource(i) {
		w.nodePassTotal += p.used
	} else {
		w.prodPassTotal += p.used
	}
	w.evicted[i] += p.used
	if p.prod {
		w.evictedProd[i] += p.used
	}
	return true
}

func zzvBuild(useProd bool, layout [][]bool) *zzvWorld {
	w := &zzvWorld{metrics: map[string]*slov1alpha1.NodeMetric{}, byName: map[string]*zzvPodInfo{}, useProd: useProd}
	for i, podsOnNode := range layout {
		name := "n" + strconv.Itoa(i)
		n := &corev1.Node{ObjectMeta: metav1.ObjectMeta{Name: name}}
		n.Status.Allocatable = corev1.ResourceList{corev1.ResourceCPU: *resource.NewMilliQuantity(zzvCap, resource.DecimalSI), corev1.ResourceMemory: *resource.NewQuantity(16<<30, resource.BinarySI), corev1.ResourcePods: *resource.NewQuantity(110, resource.DecimalSI)}
		w.nodes = append(w.nodes, n)
		sysMax := int64(2000)
		if zzvRoundTag != "" {
			sysMax = 6000
			if i > 0 {
				sysMax = 0
			}
		}
		sys := zzverif.Int64(zzvRoundTag+"system"+strconv.Itoa(i), 0, sysMax)
		nm := &slov1alpha1.NodeMetric{ObjectMeta: metav1.ObjectMeta{Name: name}}
		nm.Status.NodeMetric = &slov1alpha1.NodeMetricInfo{SystemUsage: slov1alpha1.ResourceMap{ResourceList: corev1.ResourceList{corev1.ResourceCPU: *resource.NewMilliQuantity(sys, resource.DecimalSI)}}}
		total, prodTotal := sys, int64(0)
		for k, prod := range podsOnNode {
			pn := "p" + strconv.Itoa(i) + "-" + strconv.Itoa(k)
			used := zzverif.Int64(zzvRoundTag+"used_"+pn, 0, 4000)
			pod := &corev1.Pod{ObjectMeta: metav1.ObjectMeta{Namespace: "ns", Name: pn, UID: types.UID("uid-" + pn), Labels: map[string]string{}}, Spec: corev1.PodSpec{NodeName: name}}
			pod.Labels[extension.LabelPodPriorityClass] = string(extension.PriorityBatch)
			if prod {
				pod.Labels[extension.LabelPodPriorityClass] = string(extension.PriorityProd)
				prodTotal += used
			}
			info := &zzvPodInfo{pod: pod, node: i, used: used, prod: prod, pass: true}
			if k == 0 && (i == 0 || zzverif.Param("size") == 1) && zzvRoundTag == "" && zzverif.Choice("filtered_"+pn, 2) == 1 {
				info.pass = false
			}
			w.pods = append(w.pods, info)
			w.byName[pn] = info
			nm.Status.PodsMetric = append(nm.Status.PodsMetric, &slov1alpha1.PodMetricInfo{Namespace: "ns", Name: pn, PodUsage: slov1alpha1.ResourceMap{ResourceList: corev1.ResourceList{corev1.ResourceCPU: *resource.NewMilliQuantity(used, resource.DecimalSI)}}})
			total += used
		}
		w.metrics[name] = nm
		w.usage = append(w.usage, total)
		w.prodUsage = append(w.prodUsage, prodTotal)
		w.evicted = append(w.evicted, 0)
		w.evictedProd = append(w.evictedProd, 0)
	}
	return w
}

func zzvRound(useProd bool, layout [][]bool) {
	sorter.ZzvSortCalls = 0
	w := zzvBuild(useProd, layout)
	pool := deschedulerconfig.LowNodeLoadNodePool{Name: "pool",
		LowThresholds:    deschedulerconfig.ResourceThresholds{corev1.ResourceCPU: 30},
		HighThresholds:   deschedulerconfig.ResourceThresholds{corev1.ResourceCPU: 60},
		ResourceWeights:  map[corev1.ResourceName]int64{corev1.ResourceCPU: 1, corev1.ResourceMemory: 1},
		AnomalyCondition: &deschedulerconfig.LoadAnomalyCondition{ConsecutiveAbnormalities: 1}}
	if useProd {
		pool.ProdLowThresholds = deschedulerconfig.ResourceThresholds{corev1.ResourceCPU: 20}
		pool.ProdHighThresholds = deschedulerconfig.ResourceThresholds{corev1.ResourceCPU: 40}
	}
	pl := &LowNodeLoad{handle: w, nodeMetricLister: w, args: &deschedulerconfig.LowNodeLoadArgs{NodePools: []deschedulerconfig.LowNodeLoadNodePool{pool}},
		podFilter:            func(pod *corev1.Pod) bool { return w.byName[pod.Name].pass },
		nodeAnomalyDetectors: gocache.New(0, 0), prodAnomalyDetectors: gocache.New(0, 0)}
	pl.processOneNodePool(context.TODO(), &pool, w.nodes, sets.NewString())

	anySource, anyDest, allUnder := false, false, true
	for i := range w.nodes {
		if w.isSource(i) || w.isProdSrc(i) {
			anySource = true
		}
		if w.isLowOnly(i) || w.isBothLow(i) || w.isProdLow(i) {
			anyDest = true
		} else {
			allUnder = false
		}
	}
	zzverif.Assert(zzverif.Implies(zzverif.Or(!anySource, zzverif.Or(!anyDest, allUnder)), w.calls == 0), "nothing is evicted when no node is overloaded, no node is underused or all nodes are underused")
	zzverif.Observe("evictions", int64(w.calls))
	zzverif.Reach("end")
}

// ZzvC18Node: node-level thresholds only.
func ZzvC18Node() {
	if zzverif.Param("size") == 1 {
		zzvRound(false, [][]bool{{false, false, true}, {true}, {false}})
	} else {
		zzvRound(false, [][]bool{{false, false}, {true}, {}})
	}
}

// ZzvC18Prod: node and prod thresholds; n0 can be node-overloaded, n2 prod-overloaded, n1 receives.
func ZzvC18Prod() {
	if zzverif.Param("size") == 1 {
		zzvRound(true, [][]bool{{false, false}, {true}, {true, true}})
	} else {
		zzvRound(true, [][]bool{{false}, {true}, {true, true}})
	}
}

// ZzvC18Anomaly: several successive rounds on one plugin instance with anomaly detection configured
// (more than two consecutive abnormal rounds required): n0 carries system load and one prod pod whose
// usages are chosen afresh every round, n1 is empty and always receives.
func ZzvC18Anomaly() {
	rounds := zzverif.Param("rounds")
	need := int64(2)
	pool := deschedulerconfig.LowNodeLoadNodePool{Name: "pool",
		LowThresholds:      deschedulerconfig.ResourceThresholds{corev1.ResourceCPU: 30},
		HighThresholds:     deschedulerconfig.ResourceThresholds{corev1.ResourceCPU: 60},
		ProdLowThresholds:  deschedulerconfig.ResourceThresholds{corev1.ResourceCPU: 20},
		ProdHighThresholds: deschedulerconfig.ResourceThresholds{corev1.ResourceCPU: 40},
		ResourceWeights:    map[corev1.ResourceName]int64{corev1.ResourceCPU: 1, corev1.ResourceMemory: 1},
		AnomalyCondition:   &deschedulerconfig.LoadAnomalyCondition{ConsecutiveAbnormalities: uint32(need)}}
	var w *zzvWorld
	pl := &LowNodeLoad{args: &deschedulerconfig.LowNodeLoadArgs{NodePools: []deschedulerconfig.LowNodeLoadNodePool{pool}},
		podFilter:            func(pod *corev1.Pod) bool { return true },
		nodeAnomalyDetectors: gocache.New(0, 0), prodAnomalyDetectors: gocache.New(0, 0)}
	var nodeStreak, prodStreak int64
	for r := 0; r < rounds; r++ {
		sorter.ZzvSortCalls = 0
		zzvRoundTag = "r" + strconv.Itoa(r) + "_"
		w = zzvBuild(true, [][]bool{{true}, {}})
		zzvRoundTag = ""
		w.noFail = true
		pl.handle, pl.nodeMetricLister = w, w
		if w.isSource(0) {
			nodeStreak++
		} else {
			nodeStreak = 0
		}
		if w.isProdSrc(0) {
			prodStreak++
		} else {
			prodStreak = 0
		}
		pl.processOneNodePool(context.TODO(), &pool, w.nodes, sets.NewString())
		if w.calls > 0 {
			if w.isSource(0) {
				zzverif.Assert(nodeStreak > need, "with anomaly detection a pod is evicted only after the node has been above its high threshold for the required consecutive rounds")
			} else {
				zzverif.Assert(prodStreak > need, "with anomaly detection a prod pod is evicted only after the node has been above its prod high threshold for the required consecutive rounds")
			}
		}
	}
	zzverif.Reach("end")
}

var zzvRoundTag string

// ZzvC18Twin: must-fail twin (claims the balancer never evicts).
func ZzvC18Twin() {
	sorter.ZzvSortCalls = 0
	w := zzvBuild(false, [][]bool{{false}, {}})
	pool := deschedulerconfig.LowNodeLoadNodePool{Name: "pool", LowThresholds: deschedulerconfig.ResourceThresholds{corev1.ResourceCPU: 30}, HighThresholds: deschedulerconfig.ResourceThresholds{corev1.ResourceCPU: 60},
		AnomalyCondition: &deschedulerconfig.LoadAnomalyCondition{ConsecutiveAbnormalities: 1}}
	pl := &LowNodeLoad{handle: w, nodeMetricLister: w, args: &deschedulerconfig.LowNodeLoadArgs{}, podFilter: func(pod *corev1.Pod) bool { return true },
		nodeAnomalyDetectors: gocache.New(0, 0), prodAnomalyDetectors: gocache.New(0, 0)}
	pl.processOneNodePool(context.TODO(), &pool, w.nodes, sets.NewString())
	zzverif.Assert(w.calls == 0, "twin: the balancer never evicts (false)")
	zzverif.Reach("end")
}
