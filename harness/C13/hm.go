package mutating

// C13-H2: mutatePodResourceSpec (tier translation). Overlay-only.

import (
	"encoding/json"

	corev1 "k8s.io/api/core/v1"
	"k8s.io/apimachinery/pkg/api/resource"
	metav1 "k8s.io/apimachinery/pkg/apis/meta/v1"

	"github.com/koordinator-sh/koordinator/apis/extension"
	"github.com/koordinator-sh/koordinator/pkg/zzverif"
)

type zzvAmt struct {
	has bool
	v   int64
}

func zzvOpt(name string, B int64) zzvAmt {
	if zzverif.Choice(name+".absent", 2) == 1 {
		return zzvAmt{}
	}
	return zzvAmt{true, zzverif.Int64(name, 0, B)}
}

type zzvC struct{ reqCPU, limCPU, reqMem, limMem zzvAmt }

func (c zzvC) resources() corev1.ResourceRequirements {
	r := corev1.ResourceRequirements{}
	put := func(l *corev1.ResourceList, n corev1.ResourceName, a zzvAmt) {
		if !a.has {
			return
		}
		if *l == nil {
			*l = corev1.ResourceList{}
		}
		if n == corev1.ResourceCPU {
			(*l)[n] = *resource.NewMilliQuantity(a.v, resource.DecimalSI)
		} else {
			(*l)[n] = *resource.NewQuantity(a.v, resource.BinarySI)
		}
	}
	put(&r.Requests, corev1.ResourceCPU, c.reqCPU)
	put(&r.Requests, corev1.ResourceMemory, c.reqMem)
	put(&r.Limits, corev1.ResourceCPU, c.limCPU)
	put(&r.Limits, corev1.ResourceMemory, c.limMem)
	return r
}

// ZzvC13Translate: every container's request and limit keep their amounts (CPU in milli-cores),
// the native entries are removed, a limit without request is copied to the request, and a second
// application changes nothing.
func ZzvC13Translate() {
	B := int64(1) << uint(zzverif.Param("bits"))
	tier := zzverif.Choice("tier", 2) // 0 batch, 1 mid
	pc := extension.PriorityBatch
	extCPU, extMem := extension.BatchCPU, extension.BatchMemory
	if tier == 1 {
		pc = extension.PriorityMid
		extCPU, extMem = extension.MidCPU, extension.MidMemory
	}
	n := zzverif.Param("containers")
	cs := make([]zzvC, n)
	pod := &corev1.Pod{ObjectMeta: metav1.ObjectMeta{Namespace: "ns", Name: "p", Labels: map[string]string{extension.LabelPodPriorityClass: string(pc), extension.LabelPodQoS: string(extension.QoSBE)}}}
	names := []string{"c0", "c1", "init"}
	for i := 0; i < n; i++ {
		s := names[i]
		cs[i] = zzvC{zzvOpt(s+".reqCPU", B), zzvOpt(s+".limCPU", B), zzvOpt(s+".reqMem", B), zzvOpt(s+".limMem", B)}
		pod.Spec.Containers = append(pod.Spec.Containers, corev1.Container{Name: s, Resources: cs[i].resources()})
	}
	h := &PodMutatingHandler{}
	_, err := h.mutatePodResourceSpec(pod)
	zzverif.Assert(err == nil, "no error")
	check := func(stage string) {
		for i := 0; i < n; i++ {
			res := pod.Spec.Containers[i].Resources
			for _, l := range []corev1.ResourceList{res.Requests, res.Limits} {
				_, c := l[corev1.ResourceCPU]
				_, m := l[corev1.ResourceMemory]
				zzverif.Assert(!c && !m, stage+": the native cpu/memory entries are removed")
			}
			want := func(req, lim zzvAmt) (zzvAmt, zzvAmt) { // a limit without request becomes the request as well
				if !req.has && lim.has {
					return lim, lim
				}
				return req, lim
			}
			wrc, wlc := want(cs[i].reqCPU, cs[i].limCPU)
			wrm, wlm := want(cs[i].reqMem, cs[i].limMem)
			eq := func(l corev1.ResourceList, name corev1.ResourceName, w zzvAmt, what string) {
				q, ok := l[name]
				zzverif.Assert(ok == w.has, stage+": "+what+" present iff declared")
				if ok && w.has {
					zzverif.Assert(q.Value() == w.v, stage+": "+what+" keeps its amount")
				}
			}
			eq(res.Requests, extCPU, wrc, "cpu request (milli-cores)")
			eq(res.Limits, extCPU, wlc, "cpu limit (milli-cores)")
			eq(res.Requests, extMem, wrm, "memory request")
			eq(res.Limits, extMem, wlm, "memory limit")
		}
	}
	check("translated")
	again, err2 := h.mutatePodResourceSpec(pod)
	zzverif.Assert(err2 == nil && !again, "admitting the result again changes nothing")
	check("second pass")

	// ---- the per-container summary annotation (written by the next step of the same admission)
	changed, aerr := h.mutateByExtendedResources(pod)
	zzverif.Assert(aerr == nil, "the summary annotation can be written")
	spec, gerr := extension.GetExtendedResourceSpec(pod.Annotations)
	zzverif.Assert(gerr == nil && spec != nil, "the summary annotation can be read")
	anyBatch := false
	for i := 0; i < n; i++ {
		res := pod.Spec.Containers[i].Resources
		_, rc := res.Requests[extension.BatchCPU]
		_, rm := res.Requests[extension.BatchMemory]
		_, lc := res.Limits[extension.BatchCPU]
		_, lm := res.Limits[extension.BatchMemory]
		has := rc || rm || lc || lm
		anyBatch = anyBatch || has
		var cspec extension.ExtendedResourceContainerSpec
		listed := false
		if spec != nil {
			cspec, listed = spec.Containers[names[i]]
		}
		zzverif.Assert(listed == has, "the summary lists exactly the containers that request batch resources")
		if !listed || !has {
			continue
		}
		same := func(a, b corev1.ResourceList, name corev1.ResourceName) {
			qa, oka := a[name]
			qb, okb := b[name]
			zzverif.Assert(oka == okb, "the summary names the same batch resources as the final spec")
			if oka && okb {
				zzverif.Assert(qa.Value() == qb.Value(), "the summary carries the amounts of the final spec")
			}
		}
		same(cspec.Requests, res.Requests, extension.BatchCPU)
		same(cspec.Requests, res.Requests, extension.BatchMemory)
		same(cspec.Limits, res.Limits, extension.BatchCPU)
		same(cspec.Limits, res.Limits, extension.BatchMemory)
	}
	zzverif.Assert(changed == anyBatch, "the summary annotation is written iff some container requests batch resources")
	if anyBatch {
		zzverif.Reach("summary-annotation-written")
	}
	// admitting the result again: the API server hands the stored pod back (the resource lists have been
	// through their JSON text once), both mutations run again, nothing changes
	before := pod.Annotations[extension.AnnotationExtendedResourceSpec]
	for i := range pod.Spec.Containers {
		text, merr := json.Marshal(pod.Spec.Containers[i].Resources)
		var back corev1.ResourceRequirements
		zzverif.Assume(merr == nil && json.Unmarshal(text, &back) == nil)
		pod.Spec.Containers[i].Resources = back
	}
	again, err3 := h.mutatePodResourceSpec(pod)
	zzverif.Assert(err3 == nil && !again, "admitting the stored result again changes nothing (resources)")
	check("re-admission")
	// (the function may report "mutated" although it writes the same text — an empty list it builds is
	// not DeepEqual to the absent list it reads — the webhook's patch is computed from the pod, so what
	// counts is the pod)
	_, err4 := h.mutateByExtendedResources(pod)
	zzverif.Assert(err4 == nil, "admitting the stored result again succeeds")
	zzverif.Assert(pod.Annotations[extension.AnnotationExtendedResourceSpec] == before, "admitting the stored result again leaves the summary annotation as it is")
	zzverif.Reach("end")
}

// ZzvC13TranslateTwin: must-fail twin (claims requests are never created from limits).
func ZzvC13TranslateTwin() {
	lim := zzverif.Int64("lim", 1, 1<<20)
	pod := &corev1.Pod{ObjectMeta: metav1.ObjectMeta{Namespace: "ns", Name: "p", Labels: map[string]string{extension.LabelPodPriorityClass: string(extension.PriorityBatch)}}}
	pod.Spec.Containers = []corev1.Container{{Name: "c", Resources: corev1.ResourceRequirements{Limits: corev1.ResourceList{corev1.ResourceCPU: *resource.NewMilliQuantity(lim, resource.DecimalSI)}}}}
	h := &PodMutatingHandler{}
	h.mutatePodResourceSpec(pod)
	_, ok := pod.Spec.Containers[0].Resources.Requests[extension.BatchCPU]
	zzverif.Assert(!ok, "twin: no request appears when only a limit was declared (false)")
	zzverif.Reach("end")
}
