package mutating

// C13-H2: mutatePodResourceSpec (tier translation). Overlay-only.

import (
	corev1 "k8s.io/api/core/v1"
	"k8s.io/apimachinery/pkg/api/resource"
	metav1 "k8s.io/apimachinery/pkg/apis/meta/v1"

	"github.com/koordinator-sh/koordinator/apis/extension"
	"github.com/koordinator-sh/koordinator/pkg/zzverif"
)

type zzvAmt struct {
	has bool
	v   int64
}

func zzvOpt(name string, B int64) zzvAmt {
	if zzverif.Choice(name+".absent", 2) == 1 {
		return zzvAmt{}
	}
	return zzvAmt{true, zzverif.Int64(name, 0, B)}
}

type zzvC struct{ reqCPU, limCPU, reqMem, limMem zzvAmt }

func (c zzvC) resources() corev1.ResourceRequirements {
	r := corev1.ResourceRequirements{}
	put := func(l *corev1.ResourceList, n corev1.ResourceName, a zzvAmt) {
		if !a.has {
			return
		}
		if *l == nil {
			*l = corev1.ResourceList{}
		}
		if n == corev1.ResourceCPU {
			(*l)[n] = *resource.NewMilliQuantity(a.v, resource.DecimalSI)
		} else {
			(*l)[n] = *resource.NewQuantity(a.v, resource.BinarySI)
		}
	}
	put(&r.Requests, corev1.ResourceCPU, c.reqCPU)
	put(&r.Requests, corev1.ResourceMemory, c.reqMem)
	put(&r.Limits, corev1.ResourceCPU, c.limCPU)
	put(&r.Limits, corev1.ResourceMemory, c.limMem)
	return r
}

// ZzvC13Translate: every container's request and limit keep their amounts (CPU in milli-cores),
// the native entries are removed, a limit without request is copied to the request, and a second
// application changes nothing.
func ZzvC13Translate() {
	B := int64(1) << uint(zzverif.Param("bits"))
	tier := zzverif.Choice("tier", 2) // 0 batch, 1 mid
	pc := extension.PriorityBatch
	extCPU, extMem := extension.BatchCPU, extension.BatchMemory
	if tier == 1 {
		pc = extension.PriorityMid
		extCPU, extMem = extension.MidCPU, extension.MidMemory
	}
	n := zzverif.Param("containers")
	cs := make([]zzvC, n)
	pod := &corev1.Pod{ObjectMeta: metav1.ObjectMeta{Namespace: "ns", Name: "p", Labels: map[string]string{extension.LabelPodPriorityClass: string(pc), extension.LabelPodQoS: string(extension.QoSBE)}}}
	names := []string{"c0", "c1", "init"}
	for i := 0; i < n; i++ {
		s := names[i]
		cs[i] = zzvC{zzvOpt(s+".reqCPU", B), zzvOpt(s+".limCPU", B), zzvOpt(s+".reqMem", B), zzvOpt(s+".limMem", B)}
		pod.Spec.Containers = append(pod.Spec.Containers, corev1.Container{Name: s, Resources: cs[i].resources()})
	}
	h := &PodMutatingHandler{}
	_, err := h.mutatePodResourceSpec(pod)
	zzverif.Assert(err == nil, "no error")
	check := func(stage string) {
		for i := 0; i < n; i++ {
			res := pod.Spec.Containers[i].Resources
			for _, l := range []corev1.ResourceList{res.Requests, res.Limits} {
				_, c := l[corev1.ResourceCPU]
				_, m := l[corev1.ResourceMemory]
				zzverif.Assert(!c && !m, stage+": the native cpu/memory entries are removed")
			}
			want := func(req, lim zzvAmt) (zzvAmt, zzvAmt) { // a limit without request becomes the request as well
				if !req.has && lim.has {
					return lim, lim
				}
				return req, lim
			}
			wrc, wlc := want(cs[i].reqCPU, cs[i].limCPU)
			wrm, wlm := want(cs[i].reqMem, cs[i].limMem)
			eq := func(l corev1.ResourceList, name corev1.ResourceName, w zzvAmt, what string) {
				q, ok := l[name]
				zzverif.Assert(ok == w.has, stage+": "+what+" present iff declared")
				if ok && w.has {
					zzverif.Assert(q.Value() == w.v, stage+": "+what+" keeps its amount")
				}
			}
			eq(res.Requests, extCPU, wrc, "cpu request (milli-cores)")
			eq(res.Limits, extCPU, wlc, "cpu limit (milli-cores)")
			eq(res.Requests, extMem, wrm, "memory request")
			eq(res.Limits, extMem, wlm, "memory limit")
		}
	}
	check("translated")
	again, err2 := h.mutatePodResourceSpec(pod)
	zzverif.Assert(err2 == nil && !again, "admitting the result again changes nothing")
	check("second pass")
	zzverif.Reach("end")
}

// ZzvC13TranslateTwin: must-fail twin (claims requests are never created from limits).
func ZzvC13TranslateTwin() {
	lim := zzverif.Int64("lim", 1, 1<<20)
	pod := &corev1.Pod{ObjectMeta: metav1.ObjectMeta{Namespace: "ns", Name: "p", Labels: map[string]string{extension.LabelPodPriorityClass: string(extension.PriorityBatch)}}}
	pod.Spec.Containers = []corev1.Container{{Name: "c", Resources: corev1.ResourceRequirements{Limits: corev1.ResourceList{corev1.ResourceCPU: *resource.NewMilliQuantity(lim, resource.DecimalSI)}}}}
	h := &PodMutatingHandler{}
	h.mutatePodResourceSpec(pod)
	_, ok := pod.Spec.Containers[0].Resources.Requests[extension.BatchCPU]
	zzverif.Assert(!ok, "twin: no request appears when only a limit was declared (false)")
	zzverif.Reach("end")
}
