package validating

// C13-H1: clusterColocationProfileValidatingPod. Overlay-only.

import (
	"context"

	admissionv1 "k8s.io/api/admission/v1"
	corev1 "k8s.io/api/core/v1"
	"k8s.io/apimachinery/pkg/api/resource"
	metav1 "k8s.io/apimachinery/pkg/apis/meta/v1"
	"sigs.k8s.io/controller-runtime/pkg/webhook/admission"

	"github.com/koordinator-sh/koordinator/apis/extension"
	"github.com/koordinator-sh/koordinator/pkg/zzverif"
)

var zzvQoS = []string{string(extension.QoSBE), string(extension.QoSLSR), string(extension.QoSLSE), string(extension.QoSLS), "", string(extension.QoSSystem), "garbage"}
var zzvPCLabels = []string{"", string(extension.PriorityProd), string(extension.PriorityMid), string(extension.PriorityBatch), string(extension.PriorityFree), "garbage"}

type zzvPodIn struct {
	qos      string
	pcLabel  string
	hasPrio  bool
	prio     int32
	cpuScale int   // 0: milli, 1: whole cores
	cpu      int64 // container cpu request (in the unit of cpuScale)
	hasCPU   bool
	batchCPU int64 // >=0; where: 0 none, 1 container, 2 init container, 3 overhead
	batchAt  int
}

func zzvSymPod(tag string, full bool) (zzvPodIn, *corev1.Pod) {
	if !full { // the old object of an update: only the immutable attributes vary
		in := zzvPodIn{
			qos:     zzvQoS[zzverif.Choice(tag+".qos", zzverif.Param("qosModes"))],
			pcLabel: zzvPCLabels[zzverif.Choice(tag+".pcLabel", zzverif.Param("pcLabels"))],
			hasPrio: zzverif.Choice(tag+".hasPriority", 2) == 1,
		}
		pod := &corev1.Pod{ObjectMeta: metav1.ObjectMeta{Namespace: "ns", Name: "p", Labels: map[string]string{}}}
		if in.qos != "" {
			pod.Labels[extension.LabelPodQoS] = in.qos
		}
		if in.pcLabel != "" {
			pod.Labels[extension.LabelPodPriorityClass] = in.pcLabel
		}
		if in.hasPrio {
			in.prio = zzverif.Int32(tag+".priority", -2147483648, 2147483647)
			p := in.prio
			pod.Spec.Priority = &p
		}
		pod.Spec.Containers = []corev1.Container{{Name: "c"}}
		return in, pod
	}
	in := zzvPodIn{
		qos:      zzvQoS[zzverif.Choice(tag+".qos", zzverif.Param("qosModes"))],
		pcLabel:  zzvPCLabels[zzverif.Choice(tag+".pcLabel", zzverif.Param("pcLabels"))],
		hasPrio:  zzverif.Choice(tag+".hasPriority", 2) == 1,
		cpuScale: zzverif.Choice(tag+".cpuWhole", 2),
		hasCPU:   zzverif.Choice(tag+".hasCPU", 2) == 1,
		batchAt:  zzverif.Choice(tag+".batchAt", zzverif.Param("batchPlaces")),
	}
	pod := &corev1.Pod{ObjectMeta: metav1.ObjectMeta{Namespace: "ns", Name: "p", Labels: map[string]string{}}}
	if in.qos != "" {
		pod.Labels[extension.LabelPodQoS] = in.qos
	}
	if in.pcLabel != "" {
		pod.Labels[extension.LabelPodPriorityClass] = in.pcLabel
	}
	if in.hasPrio {
		in.prio = zzverif.Int32(tag+".priority", -2147483648, 2147483647)
		p := in.prio
		pod.Spec.Priority = &p
	}
	req := corev1.ResourceList{}
	if in.hasCPU {
		if in.cpuScale == 1 {
			in.cpu = zzverif.Int64(tag+".cpu", 0, 1<<20)
			req[corev1.ResourceCPU] = *resource.NewQuantity(in.cpu, resource.DecimalSI)
		} else {
			in.cpu = zzverif.Int64(tag+".cpu", 0, 1<<30)
			req[corev1.ResourceCPU] = *resource.NewMilliQuantity(in.cpu, resource.DecimalSI)
		}
	}
	batch := func() corev1.ResourceList {
		in.batchCPU = zzverif.Int64(tag+".batchCPU", 0, 1<<30)
		return corev1.ResourceList{extension.BatchCPU: *resource.NewQuantity(in.batchCPU, resource.DecimalSI)}
	}
	switch in.batchAt {
	case 1:
		for k, v := range batch() {
			req[k] = v
		}
	case 2:
		pod.Spec.InitContainers = []corev1.Container{{Name: "init", Resources: corev1.ResourceRequirements{Requests: batch()}}}
	case 3:
		pod.Spec.Overhead = batch()
	}
	pod.Spec.Containers = []corev1.Container{{Name: "c", Resources: corev1.ResourceRequirements{Requests: req}}}
	return in, pod
}

// priority class as the statement defines it: the label if it names a class, else the range of spec.priority
func (in zzvPodIn) class() int { // 0 none, 1 prod, 2 mid, 3 batch, 4 free
	switch in.pcLabel {
	case string(extension.PriorityProd):
		return 1
	case string(extension.PriorityMid):
		return 2
	case string(extension.PriorityBatch):
		return 3
	case string(extension.PriorityFree):
		return 4
	case "":
	default:
		return 0 // a label that names no class
	}
	if !in.hasPrio {
		return 0
	}
	p := zzverif.ConcreteInt(int(zzvBucket(in.prio)))
	return p
}

// zzvBucket maps a priority value to its class (forks five ways under the engine).
func zzvBucket(p int32) int32 {
	switch {
	case p >= 9000 && p <= 9999:
		return 1
	case p >= 7000 && p <= 7999:
		return 2
	case p >= 5000 && p <= 5999:
		return 3
	case p >= 3000 && p <= 3999:
		return 4
	}
	return 0
}

// ZzvC13Validate: an admitted pod satisfies the pair, whole-CPU, batch-only-with-BE and immutability rules.
func ZzvC13Validate() {
	h := &PodValidatingHandler{}
	update := zzverif.Param("update") == 1
	in, pod := zzvSymPod("new", !update) // immutability does not depend on the resource shape
	var oldIn zzvPodIn
	var oldPod *corev1.Pod
	op := admissionv1.Create
	if update {
		op = admissionv1.Update
		oldIn, oldPod = zzvSymPod("old", false)
	}
	allowed, _, _ := h.clusterColocationProfileValidatingPod(context.TODO(), admission.Request{AdmissionRequest: admissionv1.AdmissionRequest{Operation: op}}, pod, oldPod)
	if allowed {
		cls := in.class()
		zzverif.Assert(!(in.qos == string(extension.QoSBE) && (cls == 0 || cls == 1)), "BE never with prod or no priority")
		zzverif.Assert(!(in.qos == string(extension.QoSLSR) && cls != 1), "LSR only with prod")
		if in.qos == string(extension.QoSLSR) || in.qos == string(extension.QoSLSE) {
			zzverif.Assert(in.hasCPU && in.cpu > 0, "LSR/LSE pods declare CPUs")
			if in.hasCPU && in.cpuScale == 0 {
				zzverif.Assert(in.cpu%1000 == 0, "LSR/LSE pods request a whole number of CPUs")
			}
		}
		if in.batchAt != 0 {
			zzverif.Assert(zzverif.Or(in.batchCPU == 0, in.qos == string(extension.QoSBE)), "reclaimed (batch) resources are only requested by BE pods")
		}
		if update {
			// (labels naming no class are read as "no class")
			q := func(s string) string {
				if s == "garbage" {
					return ""
				}
				return s
			}
			zzverif.Assert(q(in.qos) == q(oldIn.qos), "QoS never changes on update")
			zzverif.Assert(cls == oldIn.class(), "priority class never changes on update")
		}
	}
	zzverif.Observe("allowed", zzverif.IteInt64(allowed, 1, 0))
	zzverif.Reach("end")
}

// ZzvC13ValidateTwin: must-fail twin (claims LS pods must declare CPUs).
func ZzvC13ValidateTwin() {
	h := &PodValidatingHandler{}
	pod := &corev1.Pod{ObjectMeta: metav1.ObjectMeta{Namespace: "ns", Name: "p", Labels: map[string]string{extension.LabelPodQoS: string(extension.QoSLS)}}}
	cpu := zzverif.Int64("cpu", 0, 1<<20)
	pod.Spec.Containers = []corev1.Container{{Name: "c", Resources: corev1.ResourceRequirements{Requests: corev1.ResourceList{corev1.ResourceCPU: *resource.NewMilliQuantity(cpu, resource.DecimalSI)}}}}
	allowed, _, _ := h.clusterColocationProfileValidatingPod(context.TODO(), admission.Request{AdmissionRequest: admissionv1.AdmissionRequest{Operation: admissionv1.Create}}, pod, nil)
	zzverif.Assert(zzverif.Implies(allowed, cpu%1000 == 0), "twin: LS pods request whole CPUs (false)")
	zzverif.Reach("end")
}
