package evictions

// C16 harness (PodEvictor caps and counters against a fake clientset). Overlay-only.

import (
	"context"
	"errors"
	"strconv"

	corev1 "k8s.io/api/core/v1"
	policyv1api "k8s.io/api/policy/v1"
	metav1 "k8s.io/apimachinery/pkg/apis/meta/v1"
	"k8s.io/apimachinery/pkg/runtime"
	clientset "k8s.io/client-go/kubernetes"
	policyv1 "k8s.io/client-go/kubernetes/typed/policy/v1"

	"github.com/koordinator-sh/koordinator/pkg/descheduler/framework"
	"github.com/koordinator-sh/koordinator/pkg/zzverif"
)

type zzvAPI struct {
	calls int
	ok    []bool
	done  []string
}

type zzvClient struct {
	clientset.Interface
	api *zzvAPI
}
type zzvPolicy struct {
	policyv1.PolicyV1Interface
	api *zzvAPI
}
type zzvEvictions struct {
	policyv1.EvictionInterface
	api *zzvAPI
	ns  string
}

func (c *zzvClient) PolicyV1() policyv1.PolicyV1Interface { return &zzvPolicy{api: c.api} }
func (p *zzvPolicy) Evictions(ns string) policyv1.EvictionInterface {
	return &zzvEvictions{api: p.api, ns: ns}
}
func (e *zzvEvictions) Evict(ctx context.Context, ev *policyv1api.Eviction) error {
	k := e.api.calls
	e.api.calls++
	if k < len(e.api.ok) && e.api.ok[k] {
		e.api.done = append(e.api.done, e.ns+"/"+ev.Name)
		return nil
	}
	return errors.New("zzv: eviction refused by the API server")
}

type zzvRecorder struct{}

func (zzvRecorder) Eventf(regarding runtime.Object, related runtime.Object, eventtype, reason, action, note string, args ...interface{}) {
}

// ZzvC16Evictor: k requests through PodEvictor.Evict.
func ZzvC16Evictor() {
	k := zzverif.Param("requests")
	var perNode, perNs *uint
	var capNode, capNs uint64
	if zzverif.Choice("has_capNode", 2) == 1 {
		capNode = zzverif.Uint64("capNode", 0, 3)
		u := uint(capNode)
		perNode = &u
	}
	if zzverif.Choice("has_capNamespace", 2) == 1 {
		capNs = zzverif.Uint64("capNamespace", 0, 3)
		u := uint(capNs)
		perNs = &u
	}
	api := &zzvAPI{}
	for j := 0; j < k; j++ {
		api.ok = append(api.ok, zzverif.Bool("apiOK"+strconv.Itoa(j)))
	}
	dry := zzverif.Choice("dryRun", 2) == 1
	pe := NewPodEvictor(&zzvClient{api: api}, zzvRecorder{}, "policy/v1", dry, perNode, perNs)
	nodes := []string{"n0", "n1"}
	nss := []string{"a", "b"}
	issuedNode := map[string]uint64{}
	issuedNs := map[string]uint64{}
	for j := 0; j < k; j++ {
		node := nodes[zzverif.Choice("node"+strconv.Itoa(j), 2)]
		ns := nss[zzverif.Choice("ns"+strconv.Itoa(j), 2)]
		pod := &corev1.Pod{ObjectMeta: metav1.ObjectMeta{Namespace: ns, Name: "p" + strconv.Itoa(j)}, Spec: corev1.PodSpec{NodeName: node}}
		before := len(api.done)
		bt, bn, bs := pe.TotalEvicted(), pe.NodeEvicted(node), pe.NamespaceEvicted(ns)
		ok := pe.Evict(context.TODO(), pod, framework.EvictOptions{})
		if len(api.done) > before {
			issuedNode[node]++
			issuedNs[ns]++
		}
		if !ok {
			zzverif.Assert(pe.TotalEvicted() == bt && pe.NodeEvicted(node) == bn && pe.NamespaceEvicted(ns) == bs, "a refused eviction leaves the counters unchanged")
		}
		if !dry {
			zzverif.Assert(ok == (len(api.done) > before), "Evict reports success exactly when the API call succeeded")
		}
	}
	if dry {
		zzverif.Assert(api.calls == 0, "dry-run issues no API call")
	}
	zzverif.Assert(pe.TotalEvicted() == len(api.done), "the total counter equals the evictions issued")
	for _, n := range nodes {
		zzverif.Assert(uint64(pe.NodeEvicted(n)) == issuedNode[n], "the per-node counter equals the evictions issued on the node")
		zzverif.Assert(zzverif.Implies(perNode != nil, issuedNode[n] <= capNode), "evictions per node never exceed the cap")
	}
	for _, ns := range nss {
		zzverif.Assert(uint64(pe.NamespaceEvicted(ns)) == issuedNs[ns], "the per-namespace counter equals the evictions issued in the namespace")
		zzverif.Assert(zzverif.Implies(perNs != nil, issuedNs[ns] <= capNs), "evictions per namespace never exceed the cap")
	}
	zzverif.Reach("end")
}

// ---- two evictors at the same time (see the comment in h_proxy.go) ------------------------------------

type zzvNestedAPI struct {
	pe     *PodEvictor
	others []*corev1.Pod
	depth  int
	done   []string
}

type zzvNestedClient struct {
	clientset.Interface
	api *zzvNestedAPI
}
type zzvNestedPolicy struct {
	policyv1.PolicyV1Interface
	api *zzvNestedAPI
}
type zzvNestedEvictions struct {
	policyv1.EvictionInterface
	api *zzvNestedAPI
	ns  string
}

func (c *zzvNestedClient) PolicyV1() policyv1.PolicyV1Interface { return &zzvNestedPolicy{api: c.api} }
func (p *zzvNestedPolicy) Evictions(ns string) policyv1.EvictionInterface {
	return &zzvNestedEvictions{api: p.api, ns: ns}
}
func (e *zzvNestedEvictions) Evict(ctx context.Context, ev *policyv1api.Eviction) error {
	e.api.depth++
	if e.api.depth <= len(e.api.others) {
		e.api.pe.Evict(ctx, e.api.others[e.api.depth-1], framework.EvictOptions{}) // the next goroutine, start to finish
	}
	e.api.done = append(e.api.done, e.ns+"/"+ev.Name)
	return nil
}

// ZzvC16EvictorRace: two evictions through PodEvictor.Evict, the second one running while the first is
// inside the eviction API call.
func ZzvC16EvictorRace() {
	var perNode, perNs *uint
	var capNode, capNs uint64
	if zzverif.Choice("has_capNode", 2) == 1 {
		capNode = zzverif.Uint64("capNode", 0, 3)
		u := uint(capNode)
		perNode = &u
	}
	if zzverif.Choice("has_capNamespace", 2) == 1 {
		capNs = zzverif.Uint64("capNamespace", 0, 3)
		u := uint(capNs)
		perNs = &u
	}
	nodes := []string{"n0", "n1"}
	nss := []string{"a", "b"}
	mk := func(i int) *corev1.Pod {
		is := strconv.Itoa(i)
		return &corev1.Pod{ObjectMeta: metav1.ObjectMeta{Namespace: nss[zzverif.Choice("ns"+is, 2)], Name: "p" + is}, Spec: corev1.PodSpec{NodeName: nodes[zzverif.Choice("node"+is, 2)]}}
	}
	p1 := mk(1)
	api := &zzvNestedAPI{}
	all := []*corev1.Pod{p1}
	for g := 2; g <= zzverif.Param("goroutines"); g++ {
		api.others = append(api.others, mk(g))
	}
	all = append(all, api.others...)
	pe := NewPodEvictor(&zzvNestedClient{api: api}, zzvRecorder{}, "policy/v1", false, perNode, perNs)
	api.pe = pe
	pe.Evict(context.TODO(), p1, framework.EvictOptions{})
	byNode, byNs := map[string]uint64{}, map[string]uint64{}
	for _, p := range all {
		for _, d := range api.done {
			if d == p.Namespace+"/"+p.Name {
				byNode[p.Spec.NodeName]++
				byNs[p.Namespace]++
			}
		}
	}
	if len(api.done) == len(all) {
		zzverif.Reach("all-evictions-issued")
	}
	for _, n := range nodes {
		zzverif.Assert(zzverif.Implies(perNode != nil, byNode[n] <= capNode), "evictions per node never exceed the cap, no matter how many evict at the same time")
	}
	for _, ns := range nss {
		zzverif.Assert(zzverif.Implies(perNs != nil, byNs[ns] <= capNs), "evictions per namespace never exceed the cap, no matter how many evict at the same time")
	}
	zzverif.Assert(pe.TotalEvicted() == len(api.done), "the total counter equals the evictions issued")
	zzverif.Reach("end")
}
