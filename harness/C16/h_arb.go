package arbitrator

// C16 harness (one arbitration round of the real arbitrator over a small cluster state kept by a
// harness-owned client.Client). Overlay-only; see /verif/DESIGN.md 5/C16.

import (
	"context"
	"errors"
	"strconv"

	corev1 "k8s.io/api/core/v1"
	metav1 "k8s.io/apimachinery/pkg/apis/meta/v1"
	"k8s.io/apimachinery/pkg/runtime"
	"k8s.io/apimachinery/pkg/types"
	"k8s.io/apimachinery/pkg/util/intstr"
	"sigs.k8s.io/controller-runtime/pkg/client"

	"github.com/koordinator-sh/koordinator/apis/scheduling/v1alpha1"
	deschedulerconfig "github.com/koordinator-sh/koordinator/pkg/descheduler/apis/config"
	"github.com/koordinator-sh/koordinator/pkg/descheduler/controllers/migration/util"
	evictionsutil "github.com/koordinator-sh/koordinator/pkg/descheduler/evictions"
	"github.com/koordinator-sh/koordinator/pkg/descheduler/fieldindex"
	podutil "github.com/koordinator-sh/koordinator/pkg/descheduler/pod"
	"github.com/koordinator-sh/koordinator/pkg/descheduler/utils/sorter"
	"github.com/koordinator-sh/koordinator/pkg/zzverif"
)

// zzvWorld is the API server: pods and PodMigrationJobs, with the field indexes of
// pkg/descheduler/fieldindex evaluated on demand.
type zzvWorld struct {
	client.Client
	pods []*corev1.Pod
	jobs []*v1alpha1.PodMigrationJob
}

func (w *zzvWorld) Get(ctx context.Context, key client.ObjectKey, obj client.Object, opts ...client.GetOption) error {
	switch o := obj.(type) {
	case *corev1.Pod:
		for _, p := range w.pods {
			if p.Namespace == key.Namespace && p.Name == key.Name {
				p.DeepCopyInto(o)
				return nil
			}
		}
	case *v1alpha1.PodMigrationJob:
		for _, j := range w.jobs {
			if j.Name == key.Name {
				j.DeepCopyInto(o)
				return nil
			}
		}
	}
	return errors.New("zzv: not found")
}

func (w *zzvWorld) List(ctx context.Context, list client.ObjectList, opts ...client.ListOption) error {
	lo := &client.ListOptions{}
	for _, o := range opts {
		o.ApplyToList(lo)
	}
	field, val := "", ""
	if lo.FieldSelector != nil {
		if rs := lo.FieldSelector.Requirements(); len(rs) == 1 {
			field, val = rs[0].Field, rs[0].Value
		}
	}
	switch l := list.(type) {
	case *corev1.PodList:
		for _, p := range w.pods {
			ok := false
			switch field {
			case "":
				ok = true
			case fieldindex.IndexPodByNodeName:
				ok = p.Spec.NodeName != "" && p.Spec.NodeName == val
			case fieldindex.IndexPodByOwnerRefUID:
				for _, r := range p.OwnerReferences {
					if string(r.UID) == val {
						ok = true
					}
				}
			}
			if ok {
				l.Items = append(l.Items, *p.DeepCopy())
			}
		}
		return nil
	case *v1alpha1.PodMigrationJobList:
		for _, j := range w.jobs {
			ok := false
			ref := j.Spec.PodRef
			switch field {
			case "":
				ok = true
			case fieldindex.IndexJobByPodUID:
				ok = ref != nil && string(ref.UID) == val
			case fieldindex.IndexJobPodNamespacedName:
				ok = ref != nil && ref.Namespace+"/"+ref.Name == val
			case fieldindex.IndexJobByPodNamespace:
				ok = ref != nil && ref.Namespace == val
			}
			if ok {
				l.Items = append(l.Items, *j.DeepCopy())
			}
		}
		return nil
	}
	return errors.New("zzv: unsupported list")
}

func (w *zzvWorld) Update(ctx context.Context, obj client.Object, opts ...client.UpdateOption) error {
	if j, ok := obj.(*v1alpha1.PodMigrationJob); ok {
		for k := range w.jobs {
			if w.jobs[k].UID == j.UID {
				w.jobs[k] = j.DeepCopy()
				return nil
			}
		}
	}
	return errors.New("zzv: not found")
}

type zzvStatus struct {
	client.SubResourceWriter
	w *zzvWorld
}

func (s *zzvStatus) Update(ctx context.Context, obj client.Object, opts ...client.SubResourceUpdateOption) error {
	return s.w.Update(ctx, obj)
}
func (w *zzvWorld) Status() client.SubResourceWriter { return &zzvStatus{w: w} }

type zzvFinder struct{ w *zzvWorld }

const zzvWorkloadUID = types.UID("workload-w")

func (f *zzvFinder) GetPodsForRef(ref *metav1.OwnerReference, ns string, sel *metav1.LabelSelector, active bool) ([]*corev1.Pod, int32, error) {
	var out []*corev1.Pod
	for _, p := range f.w.pods {
		if c := metav1.GetControllerOf(p); c != nil && c.UID == ref.UID && p.Namespace == ns {
			out = append(out, p)
		}
	}
	return out, int32(len(out)), nil
}
func (f *zzvFinder) GetExpectedScaleForPod(pod *corev1.Pod) (int32, error) { return 0, nil }
func (f *zzvFinder) ListPodsByWorkloads(uids []types.UID, ns string, sel *metav1.LabelSelector, active bool) ([]*corev1.Pod, error) {
	return nil, nil
}

type zzvRecorder struct{}

func (zzvRecorder) Eventf(regarding runtime.Object, related runtime.Object, eventtype, reason, action, note string, args ...interface{}) {
}

// states of a pod's migration job before the round
const (
	zzvNoJob = iota
	zzvWaiting
	zzvRunning
	zzvPassed
	zzvRunningNameOnly // live job whose podRef carries namespace/name but no UID
)

func zzvLimit(name string) (*int32, int64) {
	v := zzverif.Int32(name, 0, 3)
	return &v, int64(v)
}

type zzvCounts struct {
	global    int64
	node      map[string]int64
	ns        map[string]int64
	workload  int64 // pods of the workload with a live job
	unavail   int64 // pods of the workload that are not ready or have a live job
	liveByPod map[string]int64
}

func (w *zzvWorld) zzvCount(f *filter) zzvCounts {
	c := zzvCounts{node: map[string]int64{}, ns: map[string]int64{}, liveByPod: map[string]int64{}}
	for _, j := range w.jobs {
		live := j.Status.Phase == v1alpha1.PodMigrationJobRunning || ((j.Status.Phase == "" || j.Status.Phase == v1alpha1.PodMigrationJobPending) && f.checkJobPassedArbitration(j.UID))
		if !live || j.Spec.PodRef == nil {
			continue
		}
		c.liveByPod[j.Spec.PodRef.Namespace+"/"+j.Spec.PodRef.Name]++
	}
	for _, p := range w.pods {
		migrating := c.liveByPod[p.Namespace+"/"+p.Name] > 0
		isW := metav1.GetControllerOf(p) != nil
		if migrating {
			c.global++
			c.node[p.Spec.NodeName]++
			c.ns[p.Namespace]++
			if isW {
				c.workload++
			}
		}
		ready := false
		for _, cond := range p.Status.Conditions {
			if cond.Type == corev1.PodReady && cond.Status == corev1.ConditionTrue {
				ready = true
			}
		}
		if isW && (migrating || !ready) {
			c.unavail++
		}
	}
	return c
}

func zzvWithin(after, before, limit int64) bool {
	// within the limit, or no worse than an excess that existed before the round; a limit <= 0 means "unlimited"
	return zzverif.Or(limit <= 0, zzverif.Or(after <= limit, after <= before))
}

// ZzvC16Round: one doOnceArbitrate round.
func ZzvC16Round() {
	np := zzverif.Param("pods")
	w := &zzvWorld{}
	f := &filter{client: w, controllerFinder: &zzvFinder{w: w}, arbitratedPodMigrationJobs: map[types.UID]bool{}}
	args := &deschedulerconfig.MigrationControllerArgs{}
	var capGlobal, capNode, capNs, capWl, capUn int64
	args.MaxMigratingGlobally, capGlobal = zzvLimit("maxGlobally")
	args.MaxMigratingPerNode, capNode = zzvLimit("maxPerNode")
	args.MaxMigratingPerNamespace, capNs = zzvLimit("maxPerNamespace")
	wl := zzverif.Int32("maxMigratingPerWorkload", 1, 3)
	un := zzverif.Int32("maxUnavailablePerWorkload", 1, 3)
	mw, mu := intstr.FromInt32(wl), intstr.FromInt32(un)
	args.MaxMigratingPerWorkload, args.MaxUnavailablePerWorkload = &mw, &mu
	f.args = args
	retry := podutil.WrapFilterFuncs(f.filterMaxMigratingGlobally, f.filterMaxMigratingPerNode, f.filterMaxMigratingPerNamespace, f.filterMaxMigratingOrUnavailablePerWorkload)
	f.retryablePodFilter = func(pod *corev1.Pod) bool { return evictionsutil.HaveEvictAnnotation(pod) || retry(pod) }
	f.nonRetryablePodFilter = func(pod *corev1.Pod) bool { return pod.Labels["zzv-forbidden"] != "true" }
	a := &arbitratorImpl{waitingCollection: map[types.UID]*v1alpha1.PodMigrationJob{}, filter: f, client: w, eventRecorder: zzvRecorder{},
		sorts: []SortFn{SortJobsByCreationTime(), SortJobsByPod(sorter.PodSorter().Sort), SortJobsByController(), SortJobsByMigratingNum(w)}}

	nodes := []string{"n0", "n1"}
	nss := []string{"a", "b"}
	yes := true
	nW := 0
	waiting := map[string]bool{}
	for i := 0; i < np; i++ {
		name := "p" + strconv.Itoa(i)
		node, ns := nodes[0], nss[0]
		if i > 0 {
			node = nodes[zzverif.Choice("node"+strconv.Itoa(i), 2)]
		}
		if i > 1 {
			ns = nss[zzverif.Choice("ns"+strconv.Itoa(i), 2)]
		}
		p := &corev1.Pod{ObjectMeta: metav1.ObjectMeta{Namespace: ns, Name: name, UID: types.UID("uid-" + name), Labels: map[string]string{}}, Spec: corev1.PodSpec{NodeName: node}}
		p.Status.Phase = corev1.PodRunning
		ready := true
		if i == 1 {
			ready = zzverif.Choice("ready1", 2) == 1
		}
		if ready {
			p.Status.Conditions = []corev1.PodCondition{{Type: corev1.PodReady, Status: corev1.ConditionTrue}}
		}
		if ns == "a" && (i < 2 || zzverif.Choice("owned"+strconv.Itoa(i), 2) == 1) {
			p.OwnerReferences = []metav1.OwnerReference{{APIVersion: "apps/v1", Kind: "ReplicaSet", Name: "w", UID: zzvWorkloadUID, Controller: &yes}}
			nW++
		}
		w.pods = append(w.pods, p)
		nStates := 4
		if i == 0 {
			nStates = 5
		}
		st := zzverif.Choice("job"+strconv.Itoa(i), nStates)
		if st == zzvNoJob {
			continue
		}
		j := &v1alpha1.PodMigrationJob{ObjectMeta: metav1.ObjectMeta{Name: "job-" + name, UID: types.UID("job-" + name)}}
		j.Spec.PodRef = &corev1.ObjectReference{Namespace: ns, Name: name, UID: p.UID}
		switch st {
		case zzvWaiting:
			j.Status.Phase = v1alpha1.PodMigrationJobPending
			waiting[ns+"/"+name] = true
		case zzvRunning:
			j.Status.Phase = v1alpha1.PodMigrationJobRunning
		case zzvPassed:
			j.Status.Phase = v1alpha1.PodMigrationJobPending
			j.Annotations = map[string]string{AnnotationPassedArbitration: "true"}
			f.markJobPassedArbitration(j.UID)
		case zzvRunningNameOnly:
			j.Status.Phase = v1alpha1.PodMigrationJobRunning
			j.Spec.PodRef.UID = ""
		}
		w.jobs = append(w.jobs, j)
		if st == zzvWaiting {
			a.AddPodMigrationJob(j)
		}
	}
	before := w.zzvCount(f)
	// a pod that already has a live migration job never gets a second one
	for _, p := range w.pods {
		if before.liveByPod[p.Namespace+"/"+p.Name] > 0 {
			zzverif.Assert(!a.Filter(p), "a pod that already has a live migration job is refused a second one")
		}
	}

	a.doOnceArbitrate()

	after := w.zzvCount(f)
	zzverif.Assert(zzvWithin(after.global, before.global, capGlobal), "live jobs never exceed the global maximum")
	for _, n := range nodes {
		zzverif.Assert(zzvWithin(after.node[n], before.node[n], capNode), "live jobs never exceed the maximum per node")
	}
	for _, ns := range nss {
		zzverif.Assert(zzvWithin(after.ns[ns], before.ns[ns], capNs), "live jobs never exceed the maximum per namespace")
	}
	if nW > 0 {
		mm, _ := util.GetMaxMigrating(nW, args.MaxMigratingPerWorkload)
		mx, _ := util.GetMaxUnavailable(nW, args.MaxUnavailablePerWorkload)
		capWl, capUn = int64(mm), int64(mx)
		zzverif.Assert(zzvWithin(after.workload, before.workload, capWl), "migrating pods of a workload stay within its allowance")
		zzverif.Assert(zzvWithin(after.unavail, before.unavail, capUn), "unavailable or migrating pods of a workload stay within its allowed unavailability")
	}
	for _, j := range w.jobs {
		key := j.Spec.PodRef.Namespace + "/" + j.Spec.PodRef.Name
		if !waiting[key] {
			continue
		}
		zzverif.Assert(j.Status.Phase != v1alpha1.PodMigrationJobFailed, "a job refused only for lack of headroom does not fail")
		_, still := a.waitingCollection[j.UID]
		passed := f.checkJobPassedArbitration(j.UID)
		if passed {
			zzverif.Reach("a-waiting-job-passed")
		} else {
			zzverif.Reach("a-waiting-job-stays-waiting")
		}
		zzverif.Assert(still != passed, "a waiting job either passed arbitration or stays waiting")
		zzverif.Assert(passed == (j.Annotations[AnnotationPassedArbitration] == "true"), "the passed annotation matches the arbitrator's record")
	}
	zzverif.Observe("liveAfter", after.global)
	zzverif.Reach("end")
}

// ZzvC16RoundTwin: must-fail twin (claims nothing ever passes arbitration).
func ZzvC16RoundTwin() {
	w := &zzvWorld{}
	f := &filter{client: w, controllerFinder: &zzvFinder{w: w}, arbitratedPodMigrationJobs: map[types.UID]bool{}, args: &deschedulerconfig.MigrationControllerArgs{}}
	f.args.MaxMigratingGlobally, _ = zzvLimit("maxGlobally")
	f.retryablePodFilter = f.filterMaxMigratingGlobally
	a := &arbitratorImpl{waitingCollection: map[types.UID]*v1alpha1.PodMigrationJob{}, filter: f, client: w, eventRecorder: zzvRecorder{}, sorts: []SortFn{SortJobsByCreationTime()}}
	p := &corev1.Pod{ObjectMeta: metav1.ObjectMeta{Namespace: "a", Name: "p0", UID: "uid-p0"}, Spec: corev1.PodSpec{NodeName: "n0"}}
	w.pods = append(w.pods, p)
	j := &v1alpha1.PodMigrationJob{ObjectMeta: metav1.ObjectMeta{Name: "job-p0", UID: "job-p0"}}
	j.Spec.PodRef = &corev1.ObjectReference{Namespace: "a", Name: "p0", UID: p.UID}
	w.jobs = append(w.jobs, j)
	a.AddPodMigrationJob(j)
	a.doOnceArbitrate()
	zzverif.Assert(!f.checkJobPassedArbitration(j.UID), "twin: no job ever passes (false)")
	zzverif.Reach("end")
}
