package runtime

// C16 harness (eviction caps through the framework's evictor proxy and the real EvictionLimiter).
// Overlay-only; see /verif/DESIGN.md 5/C16.

import (
	"context"
	"strconv"

	corev1 "k8s.io/api/core/v1"
	metav1 "k8s.io/apimachinery/pkg/apis/meta/v1"

	"github.com/koordinator-sh/koordinator/pkg/descheduler/evictions"
	"github.com/koordinator-sh/koordinator/pkg/descheduler/framework"
	"github.com/koordinator-sh/koordinator/pkg/zzverif"
)

type zzvEvictPlugin struct {
	calls int
	ok    []bool
	log   []*corev1.Pod
}

func (p *zzvEvictPlugin) Name() string { return "zzv" }
func (p *zzvEvictPlugin) Evict(ctx context.Context, pod *corev1.Pod, o framework.EvictOptions) bool {
	k := p.calls
	p.calls++
	if k < len(p.ok) && p.ok[k] {
		p.log = append(p.log, pod)
		return true
	}
	return false
}

func zzvCap(name string) (*uint, bool, uint64) {
	if zzverif.Choice("has_"+name, 2) == 0 {
		return nil, false, 0
	}
	v := zzverif.Uint64(name, 0, 3)
	u := uint(v)
	return &u, true, v
}

// ZzvC16Proxy: k eviction requests over two nodes (or no node) and two namespaces through
// evictorProxy.Evict with the real EvictionLimiter; every API call may fail.
func ZzvC16Proxy() {
	k := zzverif.Param("requests")
	perNode, hasNode, capNode := zzvCap("capNode")
	perNs, hasNs, capNs := zzvCap("capNamespace")
	total, hasTotal, capTotal := zzvCap("capTotal")
	lim := evictions.NewEvictionLimiter(perNode, perNs, total)
	plugin := &zzvEvictPlugin{}
	for j := 0; j < k; j++ {
		plugin.ok = append(plugin.ok, zzverif.Bool("apiOK"+strconv.Itoa(j)))
	}
	dry := zzverif.Choice("dryRun", 2) == 1
	e := &evictorProxy{dryRun: dry, evictionLimiter: lim, handle: &frameworkImpl{evictPlugins: []framework.EvictPlugin{plugin}}}
	nodes := []string{"n0", "n1", ""}
	nss := []string{"a", "b"}
	accepted := 0
	accNode := map[string]uint64{}
	accNs := map[string]uint64{}
	for j := 0; j < k; j++ {
		node := nodes[zzverif.Choice("node"+strconv.Itoa(j), zzverif.Param("nodes"))]
		ns := nss[zzverif.Choice("ns"+strconv.Itoa(j), 2)]
		pod := &corev1.Pod{ObjectMeta: metav1.ObjectMeta{Namespace: ns, Name: "p" + strconv.Itoa(j)}, Spec: corev1.PodSpec{NodeName: node}}
		beforeCalls, beforeTotal := plugin.calls, lim.TotalEvicted()
		beforeNode, beforeNs := lim.NodeEvicted(node), lim.NamespaceEvicted(ns)
		ok := e.Evict(context.TODO(), pod, framework.EvictOptions{})
		if ok {
			zzverif.Reach("eviction-accepted")
			accepted++
			accNode[node]++
			accNs[ns]++
		} else {
			if plugin.calls == beforeCalls && !dry {
				zzverif.Reach("eviction-refused-by-a-cap")
			}
			zzverif.Assert(lim.TotalEvicted() == beforeTotal && lim.NodeEvicted(node) == beforeNode && lim.NamespaceEvicted(ns) == beforeNs, "a refused eviction leaves the counters unchanged")
			if dry {
				zzverif.Assert(plugin.calls == beforeCalls, "a refused dry-run eviction issues no call")
			}
		}
	}
	if dry {
		zzverif.Assert(plugin.calls == 0, "dry-run issues no API call")
	} else {
		zzverif.Assert(len(plugin.log) == accepted, "accepted evictions are exactly the successful API calls")
	}
	zzverif.Assert(uint64(lim.TotalEvicted()) == uint64(accepted), "the total counter equals the evictions issued")
	for _, n := range nodes {
		if n != "" {
			zzverif.Assert(uint64(lim.NodeEvicted(n)) == accNode[n], "the per-node counter equals the evictions issued on the node")
			zzverif.Assert(zzverif.Implies(hasNode, accNode[n] <= capNode), "evictions per node never exceed the cap")
		}
	}
	for _, ns := range nss {
		zzverif.Assert(uint64(lim.NamespaceEvicted(ns)) == accNs[ns], "the per-namespace counter equals the evictions issued in the namespace")
		zzverif.Assert(zzverif.Implies(hasNs, accNs[ns] <= capNs), "evictions per namespace never exceed the cap")
	}
	zzverif.Assert(zzverif.Implies(hasTotal, uint64(accepted) <= capTotal), "evictions in total never exceed the cap")
	zzverif.Reach("end")
}

// ZzvC16ProxyTwin: must-fail twin (claims a cap of one is never reached).
func ZzvC16ProxyTwin() {
	one := uint(1)
	lim := evictions.NewEvictionLimiter(nil, nil, &one)
	plugin := &zzvEvictPlugin{ok: []bool{zzverif.Bool("apiOK0")}}
	e := &evictorProxy{evictionLimiter: lim, handle: &frameworkImpl{evictPlugins: []framework.EvictPlugin{plugin}}}
	pod := &corev1.Pod{ObjectMeta: metav1.ObjectMeta{Namespace: "a", Name: "p"}, Spec: corev1.PodSpec{NodeName: "n0"}}
	e.Evict(context.TODO(), pod, framework.EvictOptions{})
	zzverif.Assert(lim.TotalEvicted() == 0, "twin: nothing is ever evicted (false)")
	zzverif.Reach("end")
}

// ---- two evictors at the same time ------------------------------------------------------------------
//
// A second goroutine that runs entirely while the first one is inside its (slow) eviction API call is a
// legal schedule of two concurrent evictions. It is expressed here without threads: the fake evict plugin
// issues the second eviction re-entrantly from inside the first call. Locks are modelled (a path that
// would block on a held mutex is discarded), so the schedule is only explored where the real code admits
// it. Native replay runs the same single-goroutine schedule.

type zzvNestedPlugin struct {
	e      *evictorProxy
	others []*corev1.Pod // the pods evicted by the other goroutines, each nested in the previous one's call
	depth  int
	issued []*corev1.Pod
}

func (p *zzvNestedPlugin) Name() string { return "zzv-nested" }
func (p *zzvNestedPlugin) Evict(ctx context.Context, pod *corev1.Pod, o framework.EvictOptions) bool {
	p.depth++
	if p.depth <= len(p.others) {
		p.e.Evict(ctx, p.others[p.depth-1], o) // the next goroutine, start to finish
	}
	p.issued = append(p.issued, pod)
	return true
}

// ZzvC16ProxyRace: two evictions through evictorProxy.Evict with the real EvictionLimiter, the second one
// running while the first is inside the evict plugin.
func ZzvC16ProxyRace() {
	perNode, hasNode, capNode := zzvCap("capNode")
	perNs, hasNs, capNs := zzvCap("capNamespace")
	total, hasTotal, capTotal := zzvCap("capTotal")
	lim := evictions.NewEvictionLimiter(perNode, perNs, total)
	nodes := []string{"n0", "n1"}
	nss := []string{"a", "b"}
	mk := func(i int) *corev1.Pod {
		is := strconv.Itoa(i)
		return &corev1.Pod{ObjectMeta: metav1.ObjectMeta{Namespace: nss[zzverif.Choice("ns"+is, 2)], Name: "p" + is}, Spec: corev1.PodSpec{NodeName: nodes[zzverif.Choice("node"+is, 2)]}}
	}
	p1 := mk(1)
	plugin := &zzvNestedPlugin{}
	for g := 2; g <= zzverif.Param("goroutines"); g++ {
		plugin.others = append(plugin.others, mk(g))
	}
	e := &evictorProxy{evictionLimiter: lim, handle: &frameworkImpl{evictPlugins: []framework.EvictPlugin{plugin}}}
	plugin.e = e
	e.Evict(context.TODO(), p1, framework.EvictOptions{})
	byNode, byNs := map[string]uint64{}, map[string]uint64{}
	for _, p := range plugin.issued {
		byNode[p.Spec.NodeName]++
		byNs[p.Namespace]++
	}
	if len(plugin.issued) == 1+len(plugin.others) {
		zzverif.Reach("all-evictions-issued")
	}
	for _, n := range nodes {
		zzverif.Assert(zzverif.Implies(hasNode, byNode[n] <= capNode), "evictions per node never exceed the cap, no matter how many evict at the same time")
	}
	for _, ns := range nss {
		zzverif.Assert(zzverif.Implies(hasNs, byNs[ns] <= capNs), "evictions per namespace never exceed the cap, no matter how many evict at the same time")
	}
	zzverif.Assert(zzverif.Implies(hasTotal, uint64(len(plugin.issued)) <= capTotal), "evictions in total never exceed the cap, no matter how many evict at the same time")
	zzverif.Assert(uint64(lim.TotalEvicted()) == uint64(len(plugin.issued)), "the total counter equals the evictions issued")
	zzverif.Reach("end")
}
