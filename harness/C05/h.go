package reservation

// C05 harnesses. Overlay-only; see /verif/DESIGN.md 5/C05.

import (
	"context"
	corev1 "k8s.io/api/core/v1"
	"k8s.io/apimachinery/pkg/api/resource"
	metav1 "k8s.io/apimachinery/pkg/apis/meta/v1"
	"k8s.io/apimachinery/pkg/types"
	fwktype "k8s.io/kube-scheduler/framework"

	schedulingv1alpha1 "github.com/koordinator-sh/koordinator/apis/scheduling/v1alpha1"
	"github.com/koordinator-sh/koordinator/pkg/scheduler/frameworkext"
	"github.com/koordinator-sh/koordinator/pkg/zzverif"
)

type zzvAmt struct {
	has bool
	v   int64
}

func zzvOptAmt(name string, B int64, optional bool) zzvAmt {
	a := zzvAmt{has: true}
	if optional && zzverif.Choice(name+".absent", 2) == 1 {
		a.has = false
		return a
	}
	a.v = zzverif.Int64(name, 0, B)
	return a
}

var zzvRes = []corev1.ResourceName{corev1.ResourceCPU, corev1.ResourceMemory}

func zzvQ(r corev1.ResourceName, v int64) resource.Quantity {
	if r == corev1.ResourceCPU {
		return *resource.NewMilliQuantity(v, resource.DecimalSI)
	}
	return *resource.NewQuantity(v, resource.BinarySI)
}
func zzvV(r corev1.ResourceName, q resource.Quantity) int64 {
	if r == corev1.ResourceCPU {
		return q.MilliValue()
	}
	return q.Value()
}

// ZzvC05Fits: fitsReservation lets a pod in iff, for every reserved dimension it requests,
// request <= allocatable - reserved - max(allocated - preemptible, 0), and the pods rule holds.
func ZzvC05Fits() {
	B := int64(1) << uint(zzverif.Param("bits"))
	nres := zzverif.Param("resources")
	rInfo := &frameworkext.ReservationInfo{Allocatable: corev1.ResourceList{}, Allocated: corev1.ResourceList{}, Reserved: corev1.ResourceList{}, AssignedPods: map[types.UID]*frameworkext.PodRequirement{}}
	podRequest := corev1.ResourceList{}
	preempt := corev1.ResourceList{}
	want := true
	for i := 0; i < nres; i++ {
		r := zzvRes[i]
		tag := string(r)
		reservedDim := zzverif.Choice(tag+".restricted", 2) == 1 // the dimension is among the reservation's (restricted) resource names
		if reservedDim {
			rInfo.ResourceNames = append(rInfo.ResourceNames, r)
		}
		alloc := zzvOptAmt(tag+".allocatable", B, true)
		used := zzvOptAmt(tag+".allocated", B, true)
		resv := zzvOptAmt(tag+".reserved", B, true)
		pre := zzvOptAmt(tag+".preemptible", B, true)
		req := zzvOptAmt(tag+".request", B, true)
		if alloc.has {
			rInfo.Allocatable[r] = zzvQ(r, alloc.v)
		}
		if used.has {
			rInfo.Allocated[r] = zzvQ(r, used.v)
		}
		if resv.has {
			rInfo.Reserved[r] = zzvQ(r, resv.v)
		}
		if pre.has {
			preempt[r] = zzvQ(r, pre.v)
		}
		if req.has {
			podRequest[r] = zzvQ(r, req.v)
		}
		if reservedDim && req.has {
			// what is already taken: allocated minus what preemption inside the reservation frees, never below zero;
			// the preemptible amount only counts against an existing allocation
			taken := int64(0)
			if used.has {
				taken = used.v
				if pre.has {
					taken = zzverif.MaxInt64(used.v-pre.v, 0)
				}
			}
			fits := zzverif.Or(req.v == 0, req.v <= alloc.v-resv.v-taken)
			want = zzverif.And(want, fits)
		}
	}
	// the "pods" dimension when reserved explicitly
	npods := zzverif.Choice("assignedPods", 3)
	for i := 0; i < npods; i++ {
		uid := types.UID("u" + string(rune('0'+i)))
		rInfo.AssignedPods[uid] = &frameworkext.PodRequirement{UID: uid}
	}
	if zzverif.Choice("podsReserved", 2) == 1 {
		maxPods := zzverif.Int64("maxPods", 0, 8)
		rInfo.Allocatable[corev1.ResourcePods] = *resource.NewQuantity(maxPods, resource.DecimalSI)
		prePods := int64(0)
		if zzverif.Choice("podsPreemptible", 2) == 1 {
			prePods = zzverif.Int64("preemptiblePods", 0, 4)
			preempt[corev1.ResourcePods] = *resource.NewQuantity(prePods, resource.DecimalSI)
		}
		want = zzverif.And(want, int64(npods)-prePods+1 <= maxPods)
	}
	reasons := fitsReservation(podRequest, rInfo, preempt, false, nil, nil)
	ok := len(reasons) == 0
	zzverif.Assert(zzverif.Implies(ok, want), "a pod is let in only if allocated + request stays within what the reservation reserved")
	zzverif.Assert(zzverif.Implies(want, ok), "a pod that fits every reserved dimension is not refused")
	zzverif.Observe("ok", zzverif.IteInt64(ok, 1, 0))
	zzverif.Reach("end")
}

func zzvPod(name string, cpu, mem zzvAmt) *corev1.Pod {
	req := corev1.ResourceList{}
	if cpu.has {
		req[corev1.ResourceCPU] = zzvQ(corev1.ResourceCPU, cpu.v)
	}
	if mem.has {
		req[corev1.ResourceMemory] = zzvQ(corev1.ResourceMemory, mem.v)
	}
	return &corev1.Pod{ObjectMeta: metav1.ObjectMeta{Namespace: "ns", Name: name, UID: types.UID("uid-" + name)},
		Spec: corev1.PodSpec{Containers: []corev1.Container{{Name: "c", Resources: corev1.ResourceRequirements{Requests: req}}}}}
}

func zzvReservation(name string, node string, available bool, allocateOnce bool, cpu, mem zzvAmt) *schedulingv1alpha1.Reservation {
	tmpl := zzvPod("tmpl-"+name, cpu, mem)
	r := &schedulingv1alpha1.Reservation{ObjectMeta: metav1.ObjectMeta{Name: name, UID: types.UID("uid-" + name)}}
	r.Spec.Template = &corev1.PodTemplateSpec{Spec: tmpl.Spec}
	once := allocateOnce
	r.Spec.AllocateOnce = &once
	r.Spec.Owners = []schedulingv1alpha1.ReservationOwner{{Object: &corev1.ObjectReference{Namespace: "ns", Name: "owner"}}}
	r.Status.NodeName = node
	if available {
		r.Status.Phase = schedulingv1alpha1.ReservationAvailable
		// an available reservation carries what was reserved in its status (written when it was scheduled)
		r.Status.Allocatable = tmpl.Spec.Containers[0].Resources.Requests.DeepCopy()
	} else {
		r.Status.Phase = schedulingv1alpha1.ReservationPending
	}
	return r
}

// ZzvC05Ledger: Allocated always equals the summed requests (in the reserved dimensions)
// of the pods currently assigned, across add / duplicate add / remove / remove unknown.
func ZzvC05Ledger() {
	B := int64(1) << uint(zzverif.Param("bits"))
	memReserved := zzverif.Choice("reservesMemory", 2) == 1
	r := zzvReservation("r", "n1", true, false, zzvAmt{true, zzverif.Int64("r.cpu", 0, B)}, zzvAmt{memReserved, zzverif.Int64("r.mem", 0, B)})
	ri := frameworkext.NewReservationInfo(r)
	// the reserved dimensions are the reservation's resource names (a zero amount reserves nothing)
	cpuReserved, memReservedNow := false, false
	for _, n := range ri.ResourceNames {
		if n == corev1.ResourceCPU {
			cpuReserved = true
		}
		if n == corev1.ResourceMemory {
			memReservedNow = true
		}
	}
	memReserved = memReservedNow
	names := []string{"p0", "p1", "p2"}
	pods := make([]*corev1.Pod, 3)
	type pr struct{ cpu, mem zzvAmt }
	reqs := make([]pr, 3)
	for i := range pods {
		reqs[i] = pr{zzvOptAmt(names[i]+".cpu", B, true), zzvOptAmt(names[i]+".mem", B, true)}
		pods[i] = zzvPod(names[i], reqs[i].cpu, reqs[i].mem)
	}
	assigned := make([]bool, 3)
	steps := zzverif.Param("steps")
	check := func() {
		var cpu, mem int64
		n := 0
		for i := range pods {
			if assigned[i] {
				n++
				if cpuReserved && reqs[i].cpu.has {
					cpu += reqs[i].cpu.v
				}
				if memReserved && reqs[i].mem.has {
					mem += reqs[i].mem.v
				}
			}
		}
		if n >= 2 && cpuReserved {
			zzverif.Reach("two-pods-assigned-to-a-cpu-reservation")
		}
		zzverif.Assert(len(ri.AssignedPods) == n, "assigned pods are exactly the pods added and not removed")
		q := ri.Allocated[corev1.ResourceCPU]
		zzverif.Assert(q.MilliValue() == cpu, "allocated cpu == summed requests of the assigned pods")
		m := ri.Allocated[corev1.ResourceMemory]
		zzverif.Assert(m.Value() == mem, "allocated memory == summed requests of the assigned pods (only if memory is reserved)")
		av := ri.GetAvailable()
		zzverif.Assert(av.MilliCPU == zzverif.MaxInt64(zzvV(corev1.ResourceCPU, ri.Allocatable[corev1.ResourceCPU])-cpu, 0), "pre-calculated available cpu == allocatable - allocated, floored at zero")
	}
	for s := 0; s < steps; s++ {
		ss := string(rune('0' + s))
		who := zzverif.Choice("who"+ss, 3)
		if zzverif.Choice("op"+ss, 2) == 0 {
			ri.AddAssignedPod(pods[who]) // new or duplicate
			assigned[who] = true
		} else {
			ri.RemoveAssignedPod(pods[who]) // assigned or unknown
			assigned[who] = false
		}
		check()
	}
	zzverif.Reach("end")
}

func zzvIndexInvariant(c *reservationCache, live map[types.UID]string) {
	for node, set := range c.reservationsOnNode {
		for uid := range set {
			_, ok := c.reservationInfos[uid]
			zzverif.Assert(ok, "reservationsOnNode never references a reservation that no longer exists")
			_ = node
		}
	}
	for _, set := range c.matchableOnNode {
		for uid := range set {
			_, ok := c.reservationInfos[uid]
			zzverif.Assert(ok, "matchableOnNode never references a reservation that no longer exists")
		}
	}
	for _, set := range c.allocatedOnNode {
		for uid := range set {
			_, ok := c.reservationInfos[uid]
			zzverif.Assert(ok, "allocatedOnNode never references a reservation that no longer exists")
		}
	}
	for uid, node := range live {
		_, ok := c.reservationInfos[uid]
		zzverif.Assert(ok, "every live reservation is recorded")
		if node != "" {
			_, listed := c.reservationsOnNode[node][uid]
			zzverif.Assert(listed, "every live reservation placed on a node is listed for that node")
		}
	}
	// iteration hands existing reservations to its callback (the allocate-once gate is applied by the callers)
	for node := range c.matchableOnNode {
		c.ForEachMatchableReservationOnNode(node, func(rInfo *frameworkext.ReservationInfo) (bool, *fwktype.Status) {
			zzverif.Assert(rInfo != nil, "iteration over matchable reservations never yields a missing reservation")
			return true, nil
		})
	}
}

// ZzvC05Index: sequences of cache operations over two reservations and two pods.
func ZzvC05Index() {
	c := newReservationCache(nil)
	one := zzvAmt{true, 1000}
	nodes := []string{"n1", "n2", ""}
	rs := make([]*schedulingv1alpha1.Reservation, 2)
	live := map[types.UID]string{}
	mk := func(i int, tag string) *schedulingv1alpha1.Reservation {
		name := []string{"ra", "rb"}[i]
		return zzvReservation(name, nodes[zzverif.Choice(tag+".node", zzverif.Param("nodes"))], zzverif.Choice(tag+".available", 2) == 1, zzverif.Choice(tag+".once", 2) == 1, one, one)
	}
	pods := []*corev1.Pod{zzvPod("p0", one, one), zzvPod("p1", one, one)}
	steps := zzverif.Param("steps")
	for s := 0; s < steps; s++ {
		ss := string(rune('0' + s))
		i := zzverif.Choice("which"+ss, 2)
		switch zzverif.Choice("op"+ss, 5) {
		case 0: // add or update the reservation object (node, phase, allocate-once may change)
			nr := mk(i, "r"+ss)
			if rs[i] != nil && rs[i].Status.NodeName != "" && nr.Status.NodeName != rs[i].Status.NodeName {
				nr.Status.NodeName = rs[i].Status.NodeName // a scheduled reservation does not move
			}
			rs[i] = nr
			c.updateReservation(nr)
			live[nr.UID] = nr.Status.NodeName
		case 1: // delete
			if rs[i] != nil {
				c.DeleteReservation(rs[i])
				delete(live, rs[i].UID)
				rs[i] = nil
			}
		case 2: // a pod is assigned to the reservation
			if rs[i] != nil {
				c.addPod(rs[i].UID, pods[zzverif.Choice("pod"+ss, 2)])
			}
		case 3: // a pod goes away
			if rs[i] != nil {
				c.deletePod(rs[i].UID, pods[zzverif.Choice("pod"+ss, 2)])
			}
		case 4: // update only if it exists
			if rs[i] != nil {
				nr := mk(i, "r"+ss)
				nr.Status.NodeName = rs[i].Status.NodeName
				rs[i] = nr
				c.updateReservationIfExists(nr)
				live[nr.UID] = nr.Status.NodeName
			}
		}
		zzvIndexInvariant(c, live)
	}
	zzverif.Reach("end")
}

// ZzvC05Twin: must-fail twin (claims a pod fits whenever request <= allocatable).
// ZzvC05AllocateOnce: an allocate-once reservation that already has an assigned pod is refused at
// nomination (Plugin.FilterNominateReservation), whatever the amounts involved.
func ZzvC05AllocateOnce() {
	B := int64(1) << 40
	r := zzvReservation("r", "n1", true, true, zzvAmt{true, zzverif.Int64("r.cpu", 0, B)}, zzvAmt{false, 0})
	ri := frameworkext.NewReservationInfo(r)
	k := 1 + zzverif.Choice("assignedPods", 2)
	for i := 0; i < k; i++ {
		ri.AddAssignedPod(zzvPod("a"+string(rune('0'+i)), zzvAmt{true, zzverif.Int64("a"+string(rune('0'+i))+".cpu", 0, B)}, zzvAmt{false, 0}))
	}
	pod := zzvPod("new", zzvAmt{true, zzverif.Int64("new.cpu", 0, B)}, zzvAmt{false, 0})
	st := (&Plugin{}).FilterNominateReservation(context.TODO(), nil, pod, ri, "n1")
	zzverif.Assert(!st.IsSuccess(), "an allocate-once reservation that already has an assigned pod is never nominated for another pod")
	zzverif.Reach("end")
}

func ZzvC05Twin() {
	B := int64(1) << 30
	a, u, q := zzverif.Int64("allocatable", 0, B), zzverif.Int64("allocated", 0, B), zzverif.Int64("request", 1, B)
	rInfo := &frameworkext.ReservationInfo{ResourceNames: []corev1.ResourceName{corev1.ResourceMemory}, Allocatable: corev1.ResourceList{corev1.ResourceMemory: zzvQ(corev1.ResourceMemory, a)},
		Allocated: corev1.ResourceList{corev1.ResourceMemory: zzvQ(corev1.ResourceMemory, u)}, AssignedPods: map[types.UID]*frameworkext.PodRequirement{}}
	reasons := fitsReservation(corev1.ResourceList{corev1.ResourceMemory: zzvQ(corev1.ResourceMemory, q)}, rInfo, nil, false, nil, nil)
	zzverif.Assert(zzverif.Implies(q <= a, len(reasons) == 0), "twin: fits whenever request <= allocatable (false)")
	zzverif.Reach("end")
}
