package core

// C04 harness: bounded event sequences against the real gang cache and PodGroupManager, with the
// scheduling framework's waiting-pod set kept by the harness. Overlay-only; see /verif/DESIGN.md 5/C04.

import (
	"context"
	"strconv"

	corev1 "k8s.io/api/core/v1"
	metav1 "k8s.io/apimachinery/pkg/apis/meta/v1"
	"k8s.io/apimachinery/pkg/types"
	fwktype "k8s.io/kube-scheduler/framework"

	"github.com/koordinator-sh/koordinator/apis/extension"
	"github.com/koordinator-sh/koordinator/apis/thirdparty/scheduler-plugins/pkg/apis/scheduling/v1alpha1"
	"github.com/koordinator-sh/koordinator/pkg/scheduler/apis/config"
	"github.com/koordinator-sh/koordinator/pkg/scheduler/plugins/coscheduling/util"
	"github.com/koordinator-sh/koordinator/pkg/zzverif"
)

const (
	zzvNone    = 0 // holds nothing (pending, or failed)
	zzvWaiting = 1 // parked at Permit by the framework
	zzvAllowed = 2 // released from Permit, binding in flight
	zzvBound   = 3
)

type zzvMember struct {
	pod      *corev1.Pod
	gang     int
	live     bool
	hold     int
	owesUnre bool // deleted while waiting/binding: the framework still owes an Unreserve call
}

type zzvFw struct {
	fwktype.Handle
	members  []*zzvMember
	allowed  []*zzvMember
	rejected []*zzvMember
	inAllow  bool
}

type zzvWaitingPod struct {
	fw *zzvFw
	m  *zzvMember
}

func (w *zzvWaitingPod) GetPod() *corev1.Pod         { return w.m.pod }
func (w *zzvWaitingPod) GetPendingPlugins() []string { return []string{Name} }
func (w *zzvWaitingPod) Allow(pluginName string) {
	zzverif.Assert(w.fw.inAllow, "waiting pods are released only by AllowGangGroup after a successful Permit")
	w.fw.allowed = append(w.fw.allowed, w.m)
}
func (w *zzvWaitingPod) Reject(pluginName, msg string) { w.fw.rejected = append(w.fw.rejected, w.m) }

func (fw *zzvFw) IterateOverWaitingPods(cb func(fwktype.WaitingPod)) {
	for _, m := range fw.members {
		if m.hold == zzvWaiting {
			cb(&zzvWaitingPod{fw: fw, m: m})
		}
	}
}

type zzvGangCfg struct {
	id     string
	min    int64
	policy string
	strict bool
}

type zzvSim struct {
	fw      *zzvFw
	mgr     *PodGroupManager
	gangs   []zzvGangCfg
	onceSat bool
}

// counts of members holding resources, from the harness's own bookkeeping
func (s *zzvSim) counts(g int) (waiting, bound int64) {
	for _, m := range s.fw.members {
		if m.gang != g || !m.live {
			continue
		}
		switch m.hold {
		case zzvWaiting, zzvAllowed:
			waiting++
		case zzvBound:
			bound++
		}
	}
	return
}

func (s *zzvSim) satisfied(g int) bool {
	w, b := s.counts(g)
	c := s.gangs[g]
	switch c.policy {
	case extension.GangMatchPolicyOnlyWaiting:
		return w >= c.min
	case extension.GangMatchPolicyWaitingAndRunning:
		return w+b >= c.min
	}
	return zzverif.Or(w >= c.min, s.onceSat)
}

func (s *zzvSim) groupSatisfied() bool {
	ok := true
	for g := range s.gangs {
		ok = zzverif.And(ok, s.satisfied(g))
	}
	return ok
}

// checkPartition: every live member is in exactly the set that matches what it holds; no one else is in any set.
func (s *zzvSim) checkPartition() {
	for _, m := range s.fw.members {
		gang := s.mgr.cache.getGangFromCacheByGangId(s.gangs[m.gang].id, false)
		if gang == nil {
			zzverif.Fail("the gang of a pod group never disappears from the cache")
			continue
		}
		id := util.GetId(m.pod.Namespace, m.pod.Name)
		_, child := gang.Children[id]
		_, pend := gang.PendingChildren[id]
		_, wait := gang.WaitingForBindChildren[id]
		_, bound := gang.BoundChildren[id]
		if !m.live {
			zzverif.Assert(!child && !pend && !wait && !bound, "a deleted pod is in none of the gang's sets")
			continue
		}
		zzverif.Assert(child, "a live member is a child of its gang")
		n := 0
		if pend {
			n++
		}
		if wait {
			n++
		}
		if bound {
			n++
		}
		zzverif.Assert(n == 1, "a member is in exactly one of the pending, waiting or bound sets")
		switch m.hold {
		case zzvNone:
			zzverif.Assert(pend, "a member that holds nothing is pending")
		case zzvWaiting, zzvAllowed:
			zzverif.Assert(wait, "a member parked at or released from Permit is in the waiting set until it is bound")
		case zzvBound:
			zzverif.Assert(bound, "a bound member is in the bound set")
		}
	}
}

func (s *zzvSim) unreserve(m *zzvMember, failedMember bool) {
	m.hold = zzvNone
	m.owesUnre = false
	before := append([]*zzvMember(nil), s.fw.rejected...)
	_ = before
	s.fw.rejected = nil
	s.mgr.Unreserve(context.TODO(), nil, m.pod, "node", s.fw, Name)
	c := s.gangs[m.gang]
	if failedMember && c.strict {
		relaxed := zzverif.And(c.policy == extension.GangMatchPolicyOnceSatisfied, s.onceSat)
		for _, o := range s.fw.members {
			if o.hold != zzvWaiting {
				continue
			}
			got := false
			for _, r := range s.fw.rejected {
				if r == o {
					got = true
				}
			}
			if got {
				zzverif.Reach("waiting-member-rejected-in-strict-mode")
			}
			zzverif.Assert(zzverif.Or(relaxed, got), "in strict mode a failed or rolled-back member causes all waiting members of the group to be rejected")
		}
	}
	// the framework rolls every rejected pod back (its Unreserve runs on the binding goroutine)
	rej := s.fw.rejected
	s.fw.rejected = nil
	for _, r := range rej {
		if r.hold == zzvWaiting {
			s.unreserve(r, false)
		}
	}
}

func zzvNewSim() *zzvSim {
	ng := zzverif.Param("gangs")
	policy := []string{extension.GangMatchPolicyOnceSatisfied, extension.GangMatchPolicyOnlyWaiting, extension.GangMatchPolicyWaitingAndRunning}[zzverif.Choice("matchPolicy", 3)]
	strict := zzverif.Choice("strict", 2) == 1
	args := &config.CoschedulingArgs{DefaultMatchPolicy: extension.GangMatchPolicyOnceSatisfied}
	cache := NewGangCache(args, nil, nil, nil, nil)
	s := &zzvSim{fw: &zzvFw{}, mgr: &PodGroupManager{cache: cache, args: args}}
	groups := "[\"ns/gang0\"]"
	if ng == 2 {
		groups = "[\"ns/gang0\",\"ns/gang1\"]"
	}
	for g := 0; g < ng; g++ {
		name := "gang" + strconv.Itoa(g)
		min := zzverif.Int64("min"+strconv.Itoa(g), 1, 3)
		pg := &v1alpha1.PodGroup{ObjectMeta: metav1.ObjectMeta{Namespace: "ns", Name: name, Annotations: map[string]string{}}}
		pg.Spec.MinMember = int32(min)
		pg.Annotations[extension.AnnotationGangGroups] = groups
		pg.Annotations[extension.AnnotationGangMatchPolicy] = policy
		if strict {
			pg.Annotations[extension.AnnotationGangMode] = extension.GangModeStrict
		} else {
			pg.Annotations[extension.AnnotationGangMode] = extension.GangModeNonStrict
		}
		cache.onPodGroupAdd(pg)
		s.gangs = append(s.gangs, zzvGangCfg{id: "ns/" + name, min: min, policy: policy, strict: strict})
	}
	return s
}

func (s *zzvSim) newPod(name string, g int, node string) *zzvMember {
	p := &corev1.Pod{ObjectMeta: metav1.ObjectMeta{Namespace: "ns", Name: name, UID: types.UID("uid-" + name), Labels: map[string]string{v1alpha1.PodGroupLabel: "gang" + strconv.Itoa(g)}}}
	p.Spec.NodeName = node
	m := &zzvMember{pod: p, gang: g, live: true}
	if node != "" {
		m.hold = zzvBound
		s.onceSat = true
	}
	s.fw.members = append(s.fw.members, m)
	s.mgr.cache.onPodAdd(p)
	return m
}

// ZzvC04Events: a bounded sequence of scheduling and informer events in every order the harness's
// enabling rules allow.
func ZzvC04Events() {
	s := zzvNewSim()
	ng := len(s.gangs)
	// gang0 has two schedulable members (three with one gang), gang1 one; optionally gang0 had a member bound in an earlier round
	if zzverif.Choice("boundEarlier", 2) == 1 {
		s.newPod("old", 0, "node-0")
	}
	s.newPod("a", 0, "")
	s.newPod("b", 0, "")
	if ng == 2 {
		s.newPod("c", 1, "")
	} else {
		s.newPod("c", 0, "")
	}
	s.checkPartition()
	steps := zzverif.Param("steps")
	for k := 0; k < steps; k++ {
		// the enabled events
		type ev struct {
			kind int
			m    *zzvMember
		}
		var evs []ev
		for _, m := range s.fw.members {
			if m.pod.Name == "old" {
				continue
			}
			if k == 0 && m.pod.Name == "b" {
				continue // a and b are interchangeable before the first event
			}
			switch {
			case m.live && m.hold == zzvNone:
				evs = append(evs, ev{0, m}) // Permit
				if zzverif.Param("failedMembers") == 1 {
					evs = append(evs, ev{1, m}) // Unreserve of a member that failed before Permit
				}
			case m.live && m.hold == zzvWaiting:
				evs = append(evs, ev{1, m}) // rolled back (time-out, rejected by another plugin)
			case m.live && m.hold == zzvAllowed:
				evs = append(evs, ev{1, m}, ev{2, m}) // binding failed; PostBind
			}
			if m.live && m.hold != zzvBound {
				evs = append(evs, ev{3, m}) // delete event
			}
			if m.live && zzverif.Param("updates") == 1 {
				evs = append(evs, ev{5, m}) // update event
			}
			if !m.live && m.owesUnre {
				evs = append(evs, ev{1, m}) // the Unreserve the framework owes a deleted pod
			}
			if !m.live && !m.owesUnre {
				evs = append(evs, ev{4, m}) // re-created under the same name
			}
		}
		e := evs[zzverif.Choice("event"+strconv.Itoa(k)+"_of"+strconv.Itoa(len(evs)), len(evs))]
		m := e.m
		switch e.kind {
		case 0:
			_, st := s.mgr.Permit(context.TODO(), m.pod)
			m.hold = zzvWaiting
			sat := s.groupSatisfied()
			zzverif.Assert(zzverif.Iff(st == Success, sat), "Permit succeeds exactly when every gang of the group has its minimum number of members holding resources; otherwise the pod waits")
			zzverif.Assert(st == Success || st == Wait, "Permit of a gang member either waits or succeeds")
			if st == Success {
				zzverif.Reach("permit-success")
				s.fw.inAllow, s.fw.allowed = true, nil
				s.mgr.AllowGangGroup(m.pod, s.fw, Name)
				s.fw.inAllow = false
				m.hold = zzvAllowed
				for _, o := range s.fw.members {
					if o.hold == zzvWaiting {
						got := false
						for _, a := range s.fw.allowed {
							if a == o {
								got = true
							}
						}
						zzverif.Assert(got, "a successful Permit releases every waiting member of the gang group")
						o.hold = zzvAllowed
					}
				}
			}
		case 1:
			s.unreserve(m, true)
		case 2:
			s.mgr.PostBind(context.TODO(), m.pod, "node-1")
			// (the informer's later events for this pod carry the node name; stale events are outside the bound)
			np := m.pod.DeepCopy()
			np.Spec.NodeName = "node-1"
			m.pod = np
			m.hold = zzvBound
			s.onceSat = true
		case 3:
			if m.hold == zzvWaiting || m.hold == zzvAllowed {
				m.owesUnre = true
			}
			m.live, m.hold = false, zzvNone
			s.mgr.cache.onPodDelete(m.pod)
		case 4:
			m.live = true
			s.mgr.cache.onPodAdd(m.pod)
		case 5:
			s.mgr.cache.onPodUpdate(m.pod, m.pod)
		}
		s.checkPartition()
	}
	zzverif.Reach("end")
}

// ZzvC04One: the same event catalogue on a single gang.
func ZzvC04One() { ZzvC04Events() }

// ZzvC04Twin: must-fail twin (claims a gang of two is released by its first member).
func ZzvC04Twin() {
	args := &config.CoschedulingArgs{DefaultMatchPolicy: extension.GangMatchPolicyOnceSatisfied}
	cache := NewGangCache(args, nil, nil, nil, nil)
	mgr := &PodGroupManager{cache: cache, args: args}
	pg := &v1alpha1.PodGroup{ObjectMeta: metav1.ObjectMeta{Namespace: "ns", Name: "gang0"}}
	pg.Spec.MinMember = int32(zzverif.Int64("min0", 1, 3))
	cache.onPodGroupAdd(pg)
	p := &corev1.Pod{ObjectMeta: metav1.ObjectMeta{Namespace: "ns", Name: "a", Labels: map[string]string{v1alpha1.PodGroupLabel: "gang0"}}}
	cache.onPodAdd(p)
	_, st := mgr.Permit(context.TODO(), p)
	zzverif.Assert(st == Success, "twin: the first member always passes Permit (false)")
	zzverif.Reach("end")
}
