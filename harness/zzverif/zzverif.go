// Package zzverif is the harness API of the /verif machinery. It exists only as an
// overlay file (it is never written into the repository). Under the gosym engine
// every function here is an intrinsic and these bodies are not executed; compiled
// natively (go test -overlay) the same functions read recorded inputs from the
// JSON file named by ZZV_CASES, so that a solver model can be replayed against the
// real build.
package zzverif

import (
	"encoding/json"
	"fmt"
	"math"
	"os"
	"path/filepath"
	"runtime/debug"
	"strconv"
	"strings"
	"testing"
	"time"
)

type zzvCase struct {
	Func   string                     `json:"func"`
	Inputs map[string]json.RawMessage `json:"inputs"`
	Params map[string]int64           `json:"params"`
	Gates  map[string]string          `json:"gates"`
}

var cur *zzvCase

// Now is the harness clock (seconds); SetNow sets it.
var nowSec int64 = 1790000000

type assumeFalse struct{}

func raw(name string) (json.RawMessage, bool) {
	if cur == nil {
		panic("zzverif: no replay case loaded (native execution needs ZZV_CASES)")
	}
	r, ok := cur.Inputs[name]
	return r, ok
}

func intInput(name string, lo, hi int64) int64 {
	r, ok := raw(name)
	v := lo
	if ok {
		if err := json.Unmarshal(r, &v); err != nil {
			var u uint64
			if err2 := json.Unmarshal(r, &u); err2 != nil {
				panic("zzverif: bad value for " + name + ": " + string(r))
			}
			v = int64(u)
		}
	}
	if v < lo || v > hi {
		panic(fmt.Sprintf("zzverif: recorded input %s=%d outside its declared range [%d,%d]", name, v, lo, hi))
	}
	return v
}

func Int64(name string, lo, hi int64) int64 { return intInput(name, lo, hi) }
func Int(name string, lo, hi int) int       { return int(intInput(name, int64(lo), int64(hi))) }
func Int32(name string, lo, hi int32) int32 { return int32(intInput(name, int64(lo), int64(hi))) }
func Uint64(name string, lo, hi uint64) uint64 {
	return uint64(intInput(name, int64(lo), int64(hi)))
}
func Uint32(name string, lo, hi uint32) uint32 {
	return uint32(intInput(name, int64(lo), int64(hi)))
}

func Bool(name string) bool {
	r, ok := raw(name)
	if !ok {
		return false
	}
	var b bool
	if err := json.Unmarshal(r, &b); err != nil {
		panic("zzverif: bad bool for " + name)
	}
	return b
}

// Float64 inputs are recorded as the exact bit pattern ("0x...").
func Float64(name string, lo, hi float64) float64 {
	r, ok := raw(name)
	if !ok {
		return lo
	}
	var s string
	if err := json.Unmarshal(r, &s); err != nil {
		panic("zzverif: bad float for " + name)
	}
	u, err := strconv.ParseUint(strings.TrimPrefix(s, "0x"), 16, 64)
	if err != nil {
		panic("zzverif: bad float bits for " + name)
	}
	return math.Float64frombits(u)
}

// Choice is a selector in [0,n); the engine forks over its values.
func Choice(name string, n int) int {
	if n <= 1 {
		return 0
	}
	return int(intInput(name, 0, int64(n-1)))
}

// Concrete forces the engine to enumerate the feasible values of x (identity natively).
func Concrete(x int64) int64 { return x }
func ConcreteInt(x int) int  { return x }

// Param is a concrete, tier-dependent harness parameter from the spec.
func Param(name string) int {
	if cur == nil {
		panic("zzverif: no replay case loaded")
	}
	v, ok := cur.Params[name]
	if !ok {
		panic("zzverif: parameter " + name + " not recorded")
	}
	return int(v)
}

// GateMode reports the spec's setting for a feature gate ("true", "false", "sym", "").
// Natively a "sym" gate takes the recorded value of input "gate.<name>".
func GateValue(name string) bool {
	if cur == nil {
		return false
	}
	switch cur.Gates[name] {
	case "true":
		return true
	case "sym":
		return Bool("gate." + name)
	}
	return false
}

// Gates lists the gates declared for the current case (native only).
func Gates() map[string]bool {
	out := map[string]bool{}
	if cur != nil {
		for g := range cur.Gates {
			out[g] = GateValue(g)
		}
	}
	return out
}

func Symbolic() bool { return false }

func Assume(c bool) {
	if !c {
		fmt.Println("ZZV-ASSUME-FALSE")
		panic(assumeFalse{})
	}
}

func Assert(c bool, label string) {
	if !c {
		fmt.Printf("ZZV-ASSERT-FAILED %s\n", label)
	}
}

func Fail(label string)  { fmt.Printf("ZZV-ASSERT-FAILED %s\n", label) }
func Reach(label string) { fmt.Printf("ZZV-REACH %s\n", label) }

func Observe(name string, v int64) { fmt.Printf("ZZV-OBSERVE %s=%d\n", name, v) }

func And(a, b bool) bool     { return a && b }
func Or(a, b bool) bool      { return a || b }
func Not(a bool) bool        { return !a }
func Implies(a, b bool) bool { return !a || b }
func Iff(a, b bool) bool     { return a == b }
func IteInt64(c bool, a, b int64) int64 {
	if c {
		return a
	}
	return b
}
func MinInt64(a, b int64) int64 {
	if a < b {
		return a
	}
	return b
}
func MaxInt32(a, b int32) int32 {
	if a > b {
		return a
	}
	return b
}
func MaxInt64(a, b int64) int64 {
	if a > b {
		return a
	}
	return b
}

// SetNow sets the harness clock. Natively harnesses read it back through NowTime
// and inject it where the code under test takes a clock.
func SetNow(sec int64)   { nowSec = sec }
func NowTime() time.Time { return time.Unix(nowSec, 0) }

// In-memory file hooks exist only under the engine; natively files are real files under TempRoot.
func OnFileWrite(f func(path string)) {}
func PutFile(path, content string) {
	os.MkdirAll(filepath.Dir(path), 0755)
	os.WriteFile(path, []byte(content), 0644)
	os.Chtimes(path, putTime, putTime)
}

var putTime = time.Unix(1000000000, 0)

// FileWritten reports whether the code under test wrote the file (with whatever content) since the
// harness put it there: natively the modification time PutFile planted has changed.
func FileWritten(path string) bool {
	st, err := os.Stat(path)
	return err == nil && !st.ModTime().Equal(putTime)
}

// IsNative reports whether the harness runs natively (replay) rather than under the engine. It may only
// select between two environments that are observably equivalent for the code under test.
func IsNative() bool { return true }

var tempRoot string

// TempRoot is the directory harnesses put their files under ("/zzv" in the engine's in-memory file map).
func TempRoot() string {
	if tempRoot == "" {
		d, err := os.MkdirTemp("", "zzv-root-")
		if err != nil {
			panic(err)
		}
		tempRoot = d
	}
	return tempRoot
}
func GetFile(path string) (string, bool) {
	b, err := os.ReadFile(path)
	return string(b), err == nil
}

// RunCases runs every case of the ZZV_CASES file against the named harness functions.
func RunCases(t *testing.T, fns map[string]func()) {
	path := os.Getenv("ZZV_CASES")
	if path == "" {
		t.Skip("ZZV_CASES not set")
	}
	b, err := os.ReadFile(path)
	if err != nil {
		t.Fatal(err)
	}
	var cases []*zzvCase
	if err := json.Unmarshal(b, &cases); err != nil {
		t.Fatal(err)
	}
	for k, c := range cases {
		fmt.Printf("\nZZV-CASE-BEGIN %d %s\n", k, c.Func)
		f := fns[c.Func]
		if f == nil {
			fmt.Printf("ZZV-NOFUNC %s\n", c.Func)
			continue
		}
		cur = c
		nowSec = 1790000000
		func() {
			defer func() {
				if r := recover(); r != nil {
					if _, ok := r.(assumeFalse); ok {
						return
					}
					msg := strings.ReplaceAll(fmt.Sprint(r), "\n", " ")
					fmt.Printf("\nZZV-PANIC %s\n", msg)
					if os.Getenv("ZZV_STACK") != "" {
						fmt.Println(string(debug.Stack()))
					}
				}
			}()
			f()
		}()
		fmt.Printf("\nZZV-CASE-END %d\n", k)
	}
	cur = nil
}
