package core

// C01 harness: elastic-quota accounting is exact over event histories. Overlay-only.

import (
	corev1 "k8s.io/api/core/v1"
	"k8s.io/apimachinery/pkg/api/resource"
	metav1 "k8s.io/apimachinery/pkg/apis/meta/v1"
	"k8s.io/apimachinery/pkg/types"

	"github.com/koordinator-sh/koordinator/apis/extension"
	"github.com/koordinator-sh/koordinator/apis/thirdparty/scheduler-plugins/pkg/apis/scheduling/v1alpha1"
	"github.com/koordinator-sh/koordinator/pkg/zzverif"
)

type zzvQ struct {
	name, parent string
	isParent     bool
	lent         bool
	min, max     int64
}

func zzvCPUList(v int64) corev1.ResourceList {
	return corev1.ResourceList{corev1.ResourceCPU: *resource.NewQuantity(v, resource.DecimalSI)}
}

func (q zzvQ) object() *v1alpha1.ElasticQuota {
	o := &v1alpha1.ElasticQuota{ObjectMeta: metav1.ObjectMeta{Name: q.name, Labels: map[string]string{}, Annotations: map[string]string{}}}
	o.Labels[extension.LabelQuotaParent] = q.parent
	o.Labels[extension.LabelQuotaIsParent] = "false"
	if q.isParent {
		o.Labels[extension.LabelQuotaIsParent] = "true"
	}
	o.Labels[extension.LabelAllowLentResource] = "true"
	if !q.lent {
		o.Labels[extension.LabelAllowLentResource] = "false"
	}
	o.Spec.Max = zzvCPUList(q.max)
	o.Spec.Min = zzvCPUList(q.min)
	return o
}

type zzvP struct {
	name     string
	leaf     string
	req      int64
	assigned bool // has a node name
	reserved bool // assigned through ReservePod only
	np       bool
}

func (p zzvP) object() *corev1.Pod {
	o := &corev1.Pod{ObjectMeta: metav1.ObjectMeta{Namespace: "ns", Name: p.name, UID: types.UID("uid-" + p.name), Labels: map[string]string{extension.LabelQuotaName: p.leaf}}}
	if p.np {
		o.Labels[extension.LabelPreemptible] = "false"
	}
	if p.assigned {
		o.Spec.NodeName = "node"
	}
	o.Spec.Containers = []corev1.Container{{Name: "c", Resources: corev1.ResourceRequirements{Requests: zzvCPUList(p.req)}}}
	return o
}

var zzvLeaves = []string{"A", "B", "C"}

func zzvNewManager(quotas []zzvQ) *GroupQuotaManager {
	big := zzvCPUList(1 << 50)
	m := NewGroupQuotaManager("", false, big, big)
	m.UpdateClusterTotalResource(big)
	// parent first
	done := map[string]bool{extension.RootQuotaName: true}
	for len(done) <= len(quotas) {
		progress := false
		for _, q := range quotas {
			if !done[q.name] && done[q.parent] {
				m.UpdateQuota(q.object())
				done[q.name] = true
				progress = true
			}
		}
		if !progress {
			break
		}
	}
	return m
}

func zzvVal(l corev1.ResourceList) int64 {
	q, ok := l[corev1.ResourceCPU]
	if !ok {
		return 0
	}
	return q.Value()
}

// zzvCompare: the summaries of the live manager equal those of a fresh manager fed the final objects.
func zzvCompare(live *GroupQuotaManager, quotas []zzvQ, pods []zzvP) {
	fresh := zzvNewManager(quotas)
	for _, p := range pods {
		o := p.object()
		fresh.OnPodAdd(p.leaf, o)
		if p.reserved {
			fresh.ReservePod(p.leaf, o)
		}
	}
	a, b := live.GetQuotaSummaries(false), fresh.GetQuotaSummaries(false)
	used, selfUsed, npUsed, request, childRequest, selfRequest, npRequest, nonNeg := true, true, true, true, true, true, true, true
	for _, q := range quotas {
		x, okx := a[q.name]
		y, oky := b[q.name]
		zzverif.Assert(okx && oky, "every recorded quota has a summary")
		if !okx || !oky {
			continue
		}
		used = zzverif.And(used, zzvVal(x.Used) == zzvVal(y.Used))
		selfUsed = zzverif.And(selfUsed, zzvVal(x.SelfUsed) == zzvVal(y.SelfUsed))
		npUsed = zzverif.And(npUsed, zzvVal(x.NonPreemptibleUsed) == zzvVal(y.NonPreemptibleUsed))
		request = zzverif.And(request, zzvVal(x.Request) == zzvVal(y.Request))
		childRequest = zzverif.And(childRequest, zzvVal(x.ChildRequest) == zzvVal(y.ChildRequest))
		selfRequest = zzverif.And(selfRequest, zzvVal(x.SelfRequest) == zzvVal(y.SelfRequest))
		npRequest = zzverif.And(npRequest, zzvVal(x.NonPreemptibleRequest) == zzvVal(y.NonPreemptibleRequest))
		nonNeg = zzverif.And(nonNeg, zzverif.And(zzvVal(x.Used) >= 0, zzvVal(x.Request) >= 0))
	}
	zzverif.Assert(used, "Used == from-scratch (every quota)")
	zzverif.Assert(selfUsed, "SelfUsed == from-scratch (every quota)")
	zzverif.Assert(npUsed, "NonPreemptibleUsed == from-scratch (every quota)")
	zzverif.Assert(request, "Request == from-scratch (every quota)")
	zzverif.Assert(childRequest, "ChildRequest == from-scratch (every quota)")
	zzverif.Assert(selfRequest, "SelfRequest == from-scratch (every quota)")
	zzverif.Assert(npRequest, "NonPreemptibleRequest == from-scratch (every quota)")
	zzverif.Assert(nonNeg, "nothing negative")
	// independent recomputation for the leaves: used = sum of assigned pods, self request = sum of all pods
	leafOK := true
	for _, leaf := range zzvLeaves {
		x, ok := a[leaf]
		if !ok {
			continue
		}
		var used, req, npUsed int64
		for _, p := range pods {
			if p.leaf == leaf {
				req += p.req
				if p.assigned || p.reserved {
					used += p.req
					if p.np {
						npUsed += p.req
					}
				}
			}
		}
		leafOK = zzverif.And(leafOK, zzverif.And(zzvVal(x.Used) == used, zzverif.And(zzvVal(x.SelfRequest) == req, zzvVal(x.NonPreemptibleUsed) == npUsed)))
	}
	zzverif.Assert(leafOK, "leaf Used / SelfRequest / NonPreemptibleUsed == summed requests of its (assigned, non-preemptible) pods")
}

func zzvSymPod(tag, name string, B int64) zzvP {
	return zzvP{name: name, leaf: zzvLeaves[zzverif.Choice(tag+".leaf", zzverif.Param("leaves"))], req: zzverif.Int64(tag+".req", 0, B),
		assigned: zzverif.Choice(tag+".assigned", 2) == 1, np: zzverif.Choice(tag+".nonPreemptible", 2) == 1}
}

// ZzvC01Step: tree root->{P1->{A,B}, P2->{C}}; a reachable pre-state (quotas with symbolic min/max and
// lend flags, Param("pods") pods added in order) followed by one arbitrary operation.
func ZzvC01Step() {
	B := int64(1) << uint(zzverif.Param("bits"))
	symbolic := map[string]bool{}
	for _, nme := range []string{"A", "P1", "B", "P2", "C"}[:zzverif.Param("symQuotas")] {
		symbolic[nme] = true
	}
	sq := func(name, parent string, isParent bool) zzvQ {
		if !symbolic[name] { // a roomy lending quota: never the binding constraint
			return zzvQ{name: name, parent: parent, isParent: isParent, lent: true, min: 0, max: 1 << 40}
		}
		return zzvQ{name: name, parent: parent, isParent: isParent, lent: zzverif.Choice(name+".lent", zzverif.Param("lentModes")) == 0, min: zzverif.Int64(name+".min", 0, B), max: zzverif.Int64(name+".max", 0, B)}
	}
	quotas := []zzvQ{sq("P1", extension.RootQuotaName, true), sq("P2", extension.RootQuotaName, true), sq("A", "P1", false), sq("B", "P1", false), sq("C", "P2", false)}
	for _, q := range quotas {
		zzverif.Assume(q.min <= q.max) // admitted quota objects have min <= max (C15)
	}
	live := zzvNewManager(quotas)
	var pods []zzvP
	n := zzverif.Param("pods")
	names := []string{"x", "y"}
	for i := 0; i < n; i++ {
		p := zzvSymPod("pod"+names[i], names[i], B)
		live.OnPodAdd(p.leaf, p.object())
		pods = append(pods, p)
	}
	if zzverif.Param("checkPre") == 1 {
		zzvCompare(live, quotas, pods)
	}
	// the operation: one of the enabled entries of the catalogue (bit mask Param("opMask"))
	var enabled []int
	for o := 0; o < 11; o++ {
		if zzverif.Param("opMask")&(1<<uint(o)) != 0 {
			enabled = append(enabled, o)
		}
	}
	switch enabled[zzverif.Choice("op", len(enabled))] {
	case 0: // a further pod arrives
		p := zzvSymPod("new", "z", B)
		live.OnPodAdd(p.leaf, p.object())
		pods = append(pods, p)
	case 1: // the first pod is deleted
		if n > 0 {
			live.OnPodDelete(pods[0].leaf, pods[0].object())
			pods = pods[1:]
		}
	case 2: // reserve, then possibly unreserve, the first pod
		if n > 0 && !pods[0].assigned {
			live.ReservePod(pods[0].leaf, pods[0].object())
			pods[0].reserved = true
			if zzverif.Choice("unreserve", 2) == 1 {
				live.UnreservePod(pods[0].leaf, pods[0].object())
				pods[0].reserved = false
			}
		}
	case 3: // the first pod's request changes
		if n > 0 {
			old := pods[0]
			pods[0].req = zzverif.Int64("newReq", 0, B)
			live.OnPodUpdate(old.leaf, old.leaf, pods[0].object(), old.object())
		}
	case 4: // the first pod moves to another quota
		if n > 0 {
			old := pods[0]
			pods[0].leaf = zzvLeaves[zzverif.Choice("newLeaf", 3)]
			live.OnPodUpdate(pods[0].leaf, old.leaf, pods[0].object(), old.object())
		}
	case 5: // min/max/lend flag of a quota change
		i := zzverif.Choice("whichQuota", len(quotas))
		quotas[i].min, quotas[i].max = zzverif.Int64("newMin", 0, B), zzverif.Int64("newMax", 0, B)
		zzverif.Assume(quotas[i].min <= quotas[i].max)
		quotas[i].lent = zzverif.Choice("newLent", zzverif.Param("lentModes")) == 0
		live.UpdateQuota(quotas[i].object())
	case 6: // leaf A is re-parented from P1 to P2
		quotas[2].parent = "P2"
		live.UpdateQuota(quotas[2].object())
	case 7: // the parent group P1 moves under P2 with its sub-tree
		quotas[0].parent = "P2"
		live.UpdateQuota(quotas[0].object())
	case 9: // the first pod is reserved and then deleted before it is bound
		if n > 0 && !pods[0].assigned {
			live.ReservePod(pods[0].leaf, pods[0].object())
			live.OnPodDelete(pods[0].leaf, pods[0].object())
			pods = pods[1:]
		}
	case 10: // the parent group P1 moves under P2, then a further pod arrives below it
		quotas[0].parent = "P2"
		live.UpdateQuota(quotas[0].object())
		p := zzvP{name: "z", leaf: "A", req: zzverif.Int64("new.req", 0, B)}
		live.OnPodAdd(p.leaf, p.object())
		pods = append(pods, p)
	case 8: // quota C is deleted when it holds no pod
		empty := true
		for _, p := range pods {
			if p.leaf == "C" {
				empty = false
			}
		}
		if empty {
			live.DeleteQuota(quotas[4].object())
			quotas = quotas[:4]
		}
	}
	zzvCompare(live, quotas, pods)
	zzverif.Reach("end")
}

// ZzvC01Twin: must-fail twin (claims a parent's request always equals the plain sum of its pods' requests).
func ZzvC01Twin() {
	B := int64(1) << 20
	quotas := []zzvQ{{name: "P1", parent: extension.RootQuotaName, isParent: true, lent: true, max: B}, {name: "A", parent: "P1", lent: true, min: 0, max: zzverif.Int64("A.max", 0, B)}}
	live := zzvNewManager(quotas)
	p := zzvP{name: "x", leaf: "A", req: zzverif.Int64("req", 0, B)}
	live.OnPodAdd("A", p.object())
	s := live.GetQuotaSummaries(false)
	zzverif.Assert(zzvVal(s["P1"].Request) == p.req, "twin: parent request == pod request whatever the child's max (false)")
	zzverif.Reach("end")
}
