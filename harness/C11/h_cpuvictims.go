package cpuevict

// C11 harness: victim eligibility and order of the CPU evictor (same structure as the memory evictor's). Overlay-only; DESIGN.md 5/C11.

import (
	"strconv"
	"time"

	corev1 "k8s.io/api/core/v1"
	"k8s.io/apimachinery/pkg/api/resource"
	metav1 "k8s.io/apimachinery/pkg/apis/meta/v1"
	"k8s.io/apimachinery/pkg/types"

	apiext "github.com/koordinator-sh/koordinator/apis/extension"
	slov1alpha1 "github.com/koordinator-sh/koordinator/apis/slo/v1alpha1"
	"github.com/koordinator-sh/koordinator/pkg/koordlet/metriccache"
	"github.com/koordinator-sh/koordinator/pkg/koordlet/statesinformer"
	"github.com/koordinator-sh/koordinator/pkg/zzverif"
)

type zzvMetrics struct {
	metriccache.MetricCache
	used map[string]float64 // pod uid -> reported memory usage (KiB)
}

type zzvQuerier struct {
	metriccache.Querier
}

func (c *zzvMetrics) Querier(start, end time.Time) (metriccache.Querier, error) {
	return &zzvQuerier{}, nil
}
func (q *zzvQuerier) QueryAndClose(meta metriccache.MetricMeta, hints *metriccache.QueryHints, result metriccache.MetricResult) error {
	return nil
}

type zzvResult struct {
	metriccache.AggregateResult
	v  float64
	ok bool
}

func (r *zzvResult) Value(t metriccache.AggregationType) (float64, error) {
	if !r.ok {
		return 0, zzvErr("no metric")
	}
	return r.v, nil
}
func (r *zzvResult) Count() int { return 1 }

type zzvErr string

func (e zzvErr) Error() string { return string(e) }

type zzvFactory struct{ c *zzvMetrics }

func (f *zzvFactory) New(meta metriccache.MetricMeta) metriccache.AggregateResult {
	uid := meta.GetProperties()[string(metriccache.MetricPropertyPodUID)]
	v, ok := f.c.used[uid]
	return &zzvResult{v: v, ok: ok}
}

type zzvVictim struct {
	name                       string
	evictPrio, prio, labelPrio int64
	usedKiB, request           int64
	eligible                   bool
}

// ZzvC11CPUVictims: getPodEvictInfoAndSortByUsed / ByAllocatable on three pods with symbolic eviction
// priority annotation, spec.priority, priority label, usage and request.
func ZzvC11CPUVictims() {
	n := zzverif.Param("pods")
	byUsed := zzverif.Choice("byUsed", 2) == 1
	threshold := int32(zzverif.Int64("priorityThreshold", -1000, 1<<30))
	mc := &zzvMetrics{used: map[string]float64{}}
	old := metriccache.DefaultAggregateResultFactory
	metriccache.DefaultAggregateResultFactory = &zzvFactory{c: mc}
	defer func() { metriccache.DefaultAggregateResultFactory = old }()
	var metas []*statesinformer.PodMeta
	var vs []*zzvVictim
	full := zzverif.Param("fullRange") == 1
	for i := 0; i < n; i++ {
		name := "p" + strconv.Itoa(i)
		v := &zzvVictim{name: name, eligible: true}
		lo, hi := int64(-1<<31), int64(1<<31-1)
		if !full {
			lo, hi = -100000, 100000
		}
		v.evictPrio = zzverif.Int64("evictionPriority"+strconv.Itoa(i), lo, hi)
		v.prio = zzverif.Int64("priority"+strconv.Itoa(i), lo, hi)
		zzverif.Assume(v.prio != 0) // 0 is "unset" and is replaced by the class default
		v.usedKiB = zzverif.Int64("usedKiB"+strconv.Itoa(i), 0, 1<<30)
		v.request = zzverif.Int64("request"+strconv.Itoa(i), 0, 1<<30)
		pr := int32(v.prio)
		pod := &corev1.Pod{ObjectMeta: metav1.ObjectMeta{Namespace: "ns", Name: name, UID: types.UID("uid-" + name), Labels: map[string]string{}, Annotations: map[string]string{}}}
		pod.Spec.Priority = &pr
		pod.Status.Phase = corev1.PodRunning
		pod.Annotations[apiext.AnnotationPodEvictionPriority] = strconv.FormatInt(v.evictPrio, 10)
		// the request is read from the resource name of the pod's priority class: give all three the same amount
		pod.Spec.Containers = []corev1.Container{{Name: "c", Resources: corev1.ResourceRequirements{Requests: corev1.ResourceList{
			corev1.ResourceCPU: *resource.NewMilliQuantity(v.request, resource.DecimalSI),
			apiext.BatchCPU:    *resource.NewQuantity(v.request, resource.DecimalSI),
			apiext.MidCPU:      *resource.NewQuantity(v.request, resource.DecimalSI)}}}}
		v.labelPrio = v.prio
		if zzverif.Choice("hasPriorityLabel"+strconv.Itoa(i), 2) == 1 {
			v.labelPrio = zzverif.Int64("labelPriority"+strconv.Itoa(i), -100000, 100000)
			pod.Labels[apiext.LabelPodPriority] = strconv.FormatInt(v.labelPrio, 10)
		}
		switch zzverif.Choice("eligibility"+strconv.Itoa(i), zzverif.Param("eligModes")) {
		case 0:
			pod.Labels[apiext.LabelPodEvictEnabled] = "true"
		case 1: // eviction not enabled
			v.eligible = false
		case 2: // opted out of this policy
			pod.Labels[apiext.LabelPodEvictEnabled] = "true"
			pod.Annotations[apiext.AnnotationPodEvictPolicy] = "[\"someOtherPolicy\"]"
			v.eligible = false
		case 3: // not running any more
			pod.Labels[apiext.LabelPodEvictEnabled] = "true"
			pod.Status.Phase = corev1.PodSucceeded
			v.eligible = false
		case 4: // no metric
			pod.Labels[apiext.LabelPodEvictEnabled] = "true"
			v.eligible = false
		}
		if zzverif.Choice("eligibility"+strconv.Itoa(i), zzverif.Param("eligModes")) != 4 {
			mc.used[string(pod.UID)] = float64(v.usedKiB) / 1024 * 1024 // the reported value; MemoryUsed = int64(v*1000)
		}
		metas = append(metas, &statesinformer.PodMeta{Pod: pod})
		vs = append(vs, v)
	}
	m := &cpuEvictor{metricCache: mc, metricCollectInterval: time.Second}
	cfg := &slov1alpha1.ResourceThresholdStrategy{EvictEnabledPriorityThreshold: &threshold, AllocatableEvictPriorityThreshold: &threshold}
	policy := "cpuEvict"
	find := func(name string) *zzvVictim {
		for _, v := range vs {
			if v.name == name {
				return v
			}
		}
		return nil
	}
	var got []string
	if byUsed {
		for _, info := range m.getPodEvictInfoAndSortByUsed(policy, cfg, metas) {
			got = append(got, info.Pod.Name)
		}
	} else {
		for k, info := range m.getPodEvictInfoAndSortByAllocatable(policy, cfg, metas) {
			got = append(got, info.Pod.Name)
			_ = k
			w := find(info.Pod.Name)
			zzverif.Assert(info.LabelPriority == w.labelPrio && int64(info.EvictionPriority) == w.evictPrio && int64(info.Priority) == w.prio && info.MilliCPURequest == w.request,
				"the candidate record carries the pod's eviction priority, priority, priority label and request")
		}
	}
	seen := map[string]bool{}
	for k, name := range got {
		v := find(name)
		zzverif.Assert(!seen[name], "no pod is listed twice")
		seen[name] = true
		zzverif.Assert(v.eligible, "every victim is a pod the policy allows (eviction enabled, running, not opted out, with metrics)")
		zzverif.Assert(v.prio <= int64(threshold), "every victim's priority is not above the configured threshold")
		if k > 0 {
			zzverif.Reach("two-victims-listed")
			a := find(got[k-1])
			sub := a.request >= v.request
			if byUsed {
				sub = a.usedKiB >= v.usedKiB
			}
			inOrder := zzverif.Or(a.evictPrio < v.evictPrio, zzverif.And(a.evictPrio == v.evictPrio,
				zzverif.Or(a.prio < v.prio, zzverif.And(a.prio == v.prio,
					zzverif.Or(a.labelPrio < v.labelPrio, zzverif.And(a.labelPrio == v.labelPrio, sub))))))
			zzverif.Assert(inOrder, "victims are taken in the published order (eviction priority, then priority, then priority label, then usage/request)")
		}
	}
	for _, v := range vs {
		zzverif.Assert(zzverif.Implies(zzverif.And(v.eligible, v.prio <= int64(threshold)), seen[v.name]), "every pod the policy allows is a candidate")
	}
	zzverif.Reach("end")
}

// ZzvC11CPUVictimsTwin: must-fail twin (claims the pod with the larger usage always comes first).
func ZzvC11CPUVictimsTwin() {
	threshold := int32(100)
	mc := &zzvMetrics{used: map[string]float64{}}
	old := metriccache.DefaultAggregateResultFactory
	metriccache.DefaultAggregateResultFactory = &zzvFactory{c: mc}
	defer func() { metriccache.DefaultAggregateResultFactory = old }()
	var metas []*statesinformer.PodMeta
	for i := 0; i < 2; i++ {
		name := "p" + strconv.Itoa(i)
		pr := int32(zzverif.Int64("priority"+strconv.Itoa(i), 1, 100))
		pod := &corev1.Pod{ObjectMeta: metav1.ObjectMeta{Namespace: "ns", Name: name, UID: types.UID("uid-" + name), Labels: map[string]string{apiext.LabelPodEvictEnabled: "true"}}}
		pod.Spec.Priority = &pr
		pod.Status.Phase = corev1.PodRunning
		mc.used[string(pod.UID)] = float64(10 - i)
		metas = append(metas, &statesinformer.PodMeta{Pod: pod})
	}
	m := &cpuEvictor{metricCache: mc, metricCollectInterval: time.Second}
	cfg := &slov1alpha1.ResourceThresholdStrategy{EvictEnabledPriorityThreshold: &threshold}
	got := m.getPodEvictInfoAndSortByUsed("cpuEvict", cfg, metas)
	zzverif.Assert(len(got) == 2 && got[0].Pod.Name == "p0", "twin: larger usage always first (false)")
	zzverif.Reach("end")
}
