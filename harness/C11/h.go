package util

// C11-H1: KillAndEvictPods. Overlay-only; see /verif/DESIGN.md 5/C11.

import (
	"strings"

	corev1 "k8s.io/api/core/v1"
	"k8s.io/apimachinery/pkg/api/resource"
	metav1 "k8s.io/apimachinery/pkg/apis/meta/v1"

	"github.com/koordinator-sh/koordinator/pkg/zzverif"
)

type zzvEvictCall struct {
	pod  int
	task int
	ok   bool
}

type zzvExecutor struct {
	names          []string
	alreadyEvicted []bool
	calls          []zzvEvictCall
	isEvictedAsked []int
}

func (e *zzvExecutor) idx(pod *corev1.Pod) int {
	for i, n := range e.names {
		if n == pod.Name {
			return i
		}
	}
	return -1
}

func (e *zzvExecutor) Evict(pod *corev1.Pod, node *corev1.Node, releaseReason string, message string) bool {
	task := 0
	if strings.HasPrefix(message, "task1") {
		task = 1
	}
	ok := zzverif.Choice("evictOK"+string(rune('0'+len(e.calls))), 2) == 1
	e.calls = append(e.calls, zzvEvictCall{e.idx(pod), task, ok})
	return ok
}

func (e *zzvExecutor) IsPodEvicted(pod *corev1.Pod) bool { return e.alreadyEvicted[e.idx(pod)] }

var zzvTypes = []ReleaseTargetType{ReleaseTargetTypeResourceUsed, ReleaseTargetTypeResourceRequest}

// ZzvC11Evict: one or two tasks over up to three shared pods; symbolic release amounts and
// targets, every pattern of failing eviction calls and already-evicted pods.
func ZzvC11Evict() {
	nPods := zzverif.Param("pods")
	nTasks := zzverif.Param("tasks")
	B := int64(1) << uint(zzverif.Param("bits"))
	names := []string{"p0", "p1", "p2"}[:nPods]
	ex := &zzvExecutor{names: names, alreadyEvicted: make([]bool, nPods)}
	infos := make([]*PodEvictInfo, nPods)
	for i := 0; i < nPods; i++ {
		ex.alreadyEvicted[i] = zzverif.Choice("already"+names[i], 2) == 1
		infos[i] = &PodEvictInfo{Pod: &corev1.Pod{ObjectMeta: metav1.ObjectMeta{Namespace: "ns", Name: names[i]}}}
	}
	// release[t][p]: what pod p frees for task t's target type (memory bytes)
	release := make([][]int64, nTasks)
	target := make([]int64, nTasks)
	ttype := make([]int, nTasks)
	tasks := make([]*EvictTaskInfo, nTasks)
	mk := func(v int64) corev1.ResourceList {
		return corev1.ResourceList{corev1.ResourceMemory: *resource.NewQuantity(v, resource.BinarySI)}
	}
	sameType := false
	for t := 0; t < nTasks; t++ {
		ts := string(rune('0' + t))
		target[t] = zzverif.Int64("target"+ts, 0, B)
		ttype[t] = t
		if t == 1 && zzverif.Choice("sameType", 2) == 1 {
			ttype[1] = ttype[0]
			sameType = true
		}
		release[t] = make([]int64, nPods)
		for p := 0; p < nPods; p++ {
			if t == 1 && sameType {
				release[t][p] = release[0][p] // the same target type reads the same pod amount
			} else {
				release[t][p] = zzverif.Int64("release"+ts+names[p], 0, B)
			}
		}
		order := infos
		if t == 1 && zzverif.Choice("reversed", 2) == 1 {
			order = make([]*PodEvictInfo, nPods)
			for p := range infos {
				order[p] = infos[nPods-1-p]
			}
		}
		tt := t
		tasks[t] = &EvictTaskInfo{Reason: "task" + ts, SortedEvictPods: order, ReleaseTarget: zzvTypes[ttype[t]], ToReleaseResource: mk(target[t]),
			GetPodResourceFunc: func(info *PodEvictInfo) corev1.ResourceList { return mk(release[tt][ex.idx(info.Pod)]) }}
	}
	released, newly := KillAndEvictPods(ex, &corev1.Node{}, tasks)
	// ---- oracle: replay the recorded calls against an independent ledger
	counted := make([]bool, nPods) // pod counted as released (evicted now, or found already evicted)
	evictOK := make([]bool, nPods)
	anyOK := false
	// per target type: amount released so far by counted pods
	relOf := func(typ int, upTo []bool) int64 {
		var s int64
		for p := 0; p < nPods; p++ {
			if upTo[p] {
				for t := 0; t < nTasks; t++ {
					if ttype[t] == typ {
						s += release[t][p]
						break
					}
				}
			}
		}
		return s
	}
	lastPos := make([]int, nTasks)
	for t := range lastPos {
		lastPos[t] = -1
	}
	for _, c := range ex.calls {
		t := c.task
		zzverif.Assert(!ex.alreadyEvicted[c.pod], "a pod that is already evicted is not evicted again")
		zzverif.Assert(!evictOK[c.pod], "no pod is evicted twice")
		// position of the pod in the task's order must increase
		pos := -1
		for k, inf := range tasks[t].SortedEvictPods {
			if ex.idx(inf.Pod) == c.pod {
				pos = k
			}
		}
		zzverif.Assert(pos > lastPos[t], "victims are taken in the published order")
		// pods earlier in this task's order that were already evicted count as pending release
		seen := make([]bool, nPods)
		copy(seen, counted)
		for k := 0; k < pos; k++ {
			q := ex.idx(tasks[t].SortedEvictPods[k].Pod)
			if ex.alreadyEvicted[q] {
				seen[q] = true
			}
		}
		// tasks before t have looked at their already-evicted pods as well (up to where they stopped);
		// counting only what is certain keeps the oracle no stronger than the statement
		soFar := relOf(ttype[t], seen)
		zzverif.Assert(soFar < target[t], "no pod is evicted after the target is met")
		zzverif.Assert(release[t][c.pod] > 0, "no pod is evicted whose removal frees nothing of what is still short")
		lastPos[t] = pos
		for k := 0; k < pos; k++ {
			q := ex.idx(tasks[t].SortedEvictPods[k].Pod)
			if ex.alreadyEvicted[q] {
				counted[q] = true
			}
		}
		if c.ok {
			evictOK[c.pod] = true
			counted[c.pod] = true
			anyOK = true
		}
	}
	zzverif.Assert(newly == anyOK, "newlyEvicted reported iff some eviction call succeeded")
	// the returned list never claims more than what evicted or pending pods release
	for typ := 0; typ < 2; typ++ {
		all := make([]bool, nPods)
		for p := range all {
			all[p] = evictOK[p] || ex.alreadyEvicted[p]
		}
		if rl, ok := released[zzvTypes[typ]]; ok {
			q := rl[corev1.ResourceMemory]
			zzverif.Assert(q.Value() <= relOf(typ, all), "returned release list <= what successful and pending victims release")
			zzverif.Assert(q.Value() >= relOf(typ, evictOK), "returned release list >= what successful victims release")
		}
	}
	zzverif.Observe("calls", int64(len(ex.calls)))
	zzverif.Reach("end")
}

// ZzvC11Twin: must-fail twin (claims every pod is evicted when the target is positive).
func ZzvC11Twin() {
	ex := &zzvExecutor{names: []string{"p0", "p1"}, alreadyEvicted: []bool{false, false}}
	infos := []*PodEvictInfo{{Pod: &corev1.Pod{ObjectMeta: metav1.ObjectMeta{Namespace: "ns", Name: "p0"}}}, {Pod: &corev1.Pod{ObjectMeta: metav1.ObjectMeta{Namespace: "ns", Name: "p1"}}}}
	B := int64(1) << 30
	tgt := zzverif.Int64("target0", 1, B)
	r0, r1 := zzverif.Int64("release0p0", 1, B), zzverif.Int64("release0p1", 1, B)
	mk := func(v int64) corev1.ResourceList {
		return corev1.ResourceList{corev1.ResourceMemory: *resource.NewQuantity(v, resource.BinarySI)}
	}
	task := &EvictTaskInfo{Reason: "task0", SortedEvictPods: infos, ReleaseTarget: ReleaseTargetTypeResourceUsed, ToReleaseResource: mk(tgt),
		GetPodResourceFunc: func(info *PodEvictInfo) corev1.ResourceList {
			if info.Pod.Name == "p0" {
				return mk(r0)
			}
			return mk(r1)
		}}
	KillAndEvictPods(ex, &corev1.Node{}, []*EvictTaskInfo{task})
	zzverif.Assert(len(ex.calls) == 2, "twin: both pods are always evicted (false)")
	zzverif.Reach("end")
}
