package nodenumaresource

// C06-H3: NodeAllocation ledger under allocate / update / release sequences. Overlay-only; DESIGN.md 5/C06.

import (
	"strconv"

	corev1 "k8s.io/api/core/v1"
	"k8s.io/apimachinery/pkg/api/resource"
	"k8s.io/apimachinery/pkg/types"

	schedulingconfig "github.com/koordinator-sh/koordinator/pkg/scheduler/apis/config"
	"github.com/koordinator-sh/koordinator/pkg/util/cpuset"
	"github.com/koordinator-sh/koordinator/pkg/zzverif"
)

type zzvLive struct {
	live bool
	cpus cpuset.CPUSet
	mem  [2]int64 // per NUMA node
	has  [2]bool
}

// ZzvC06Ledger: sequences of operations on one node's NodeAllocation: allocate (free CPUs from
// getAvailableCPUs, picked by takeCPUs; symbolic per-NUMA memory amounts), duplicate add, update with a new
// allocation, release, release of an unknown pod. After every step the reference count of every CPU is the
// number of live pods holding it and never above the sharing limit, and the per-NUMA ledger equals the sum
// of the live pods' amounts.
func ZzvC06Ledger() {
	topo := zzvTopology(2, 1, 1, 2) // 2 NUMA nodes x 1 core x 2 threads = 4 CPUs
	maxRef := 1 + zzverif.Choice("maxRefCount", 2)
	na := NewNodeAllocation("node")
	np := zzverif.Param("pods")
	numas := zzverif.Param("numas") // NUMA nodes a pod may carry an amount on
	B := int64(1) << 40
	pods := make([]zzvLive, np)
	steps := zzverif.Param("steps")
	newAlloc := func(ss string, i int) (*PodAllocation, zzvLive, bool) {
		avail, details := na.getAvailableCPUs(topo, maxRef, cpuset.NewCPUSet())
		need := 1 + zzverif.Choice("cpus"+ss, 2)
		got, err := takeCPUs(topo, maxRef, avail, details, need, schedulingconfig.CPUBindPolicyDefault, schedulingconfig.CPUExclusivePolicyNone, schedulingconfig.NUMAMostAllocated)
		if err != nil {
			return nil, zzvLive{}, false
		}
		zzverif.Assert(got.Size() == need && got.IsSubsetOf(avail), "takeCPUs returns the requested number of CPUs out of the free ones")
		l := zzvLive{live: true, cpus: got}
		a := &PodAllocation{UID: types.UID("uid-" + strconv.Itoa(i)), Namespace: "ns", Name: "p" + strconv.Itoa(i), CPUSet: got}
		for node := 0; node < numas; node++ {
			if zzverif.Choice("onNUMA"+strconv.Itoa(node)+ss, 2) == 1 {
				l.has[node] = true
				l.mem[node] = zzverif.Int64("mem"+strconv.Itoa(node)+ss, 0, B)
				a.NUMANodeResources = append(a.NUMANodeResources, NUMANodeResource{Node: node, Resources: corev1.ResourceList{corev1.ResourceMemory: *resource.NewQuantity(l.mem[node], resource.BinarySI)}})
			}
		}
		return a, l, true
	}
	for s := 0; s < steps; s++ {
		ss := string(rune('a' + s))
		i := zzverif.Choice("pod"+ss, np)
		uid := types.UID("uid-" + strconv.Itoa(i))
		switch zzverif.Choice("op"+ss, 3) {
		case 0: // allocate (a duplicate add for a pod that already holds an allocation is ignored)
			a, l, ok := newAlloc(ss, i)
			if !ok {
				continue
			}
			na.addPodAllocation(a, topo)
			if !pods[i].live {
				pods[i] = l
			}
		case 1: // update: the pod's allocation is replaced (its own CPUs count as free for itself)
			if pods[i].live {
				na.release(uid)
				pods[i] = zzvLive{}
			}
			a, l, ok := newAlloc(ss, i)
			if !ok {
				continue
			}
			na.update(a, topo)
			pods[i] = l
		case 2: // release (also of a pod that holds nothing)
			na.release(uid)
			pods[i] = zzvLive{}
		}
		// the ledger against the live pods
		for c := 0; c < topo.NumCPUs; c++ {
			ref := 0
			for _, p := range pods {
				if p.live && p.cpus.Contains(c) {
					ref++
				}
			}
			info, ok := na.allocatedCPUs[c]
			if ref == 0 {
				zzverif.Assert(!ok, "a CPU no live pod holds is not in the ledger")
			} else {
				if ref == 2 {
					zzverif.Reach("a-cpu-shared-by-two-pods")
				}
				zzverif.Assert(ok && info.RefCount == ref, "the reference count of a CPU is the number of live pods holding it")
			}
			zzverif.Assert(ref <= maxRef, "no CPU is held by more pods than the sharing limit allows")
		}
		for node := 0; node < 2; node++ {
			var sum int64
			any := false
			for _, p := range pods {
				if p.live && p.has[node] {
					sum += p.mem[node]
					any = true
				}
			}
			var got int64
			if r := na.allocatedResources[node]; r != nil {
				q := r.Resources[corev1.ResourceMemory]
				got = q.Value()
			} else {
				zzverif.Assert(!any, "a NUMA node with live allocations has a ledger entry")
			}
			zzverif.Assert(got == sum, "the per-NUMA ledger equals the sum of the live pods' allocations")
		}
		zzverif.Assert(len(na.allocatedPods) == func() int {
			k := 0
			for _, p := range pods {
				if p.live {
					k++
				}
			}
			return k
		}(), "the ledger lists exactly the live pods")
	}
	zzverif.Reach("end")
}
