package nodenumaresource

// C06 harnesses. Overlay-only; see /verif/DESIGN.md 5/C06.

import (
	corev1 "k8s.io/api/core/v1"
	"k8s.io/apimachinery/pkg/api/resource"

	schedulingconfig "github.com/koordinator-sh/koordinator/pkg/scheduler/apis/config"
	"github.com/koordinator-sh/koordinator/pkg/scheduler/frameworkext/topologymanager"
	"github.com/koordinator-sh/koordinator/pkg/util/bitmask"
	"github.com/koordinator-sh/koordinator/pkg/util/cpuset"
	"github.com/koordinator-sh/koordinator/pkg/zzverif"
)

// all non-empty subsets of {0,1,2,3} with at most three members, smallest first
var zzvHints = [][]int{{0}, {1}, {2}, {3}, {0, 1}, {1, 2}, {2, 3}, {0, 2}, {1, 3}, {0, 3}, {0, 1, 2}, {1, 2, 3}, {0, 2, 3}, {0, 1, 3}}

// ZzvC06Distribute: tryBestToDistributeEvenly for a divisible resource over any hint.
func ZzvC06Distribute() {
	B := int64(1) << uint(zzverif.Param("bits"))
	hint := zzvHints[zzverif.Choice("hint", zzverif.Param("hints"))]
	isCPU := zzverif.Choice("resource", zzverif.Param("resources")) == 1
	name := corev1.ResourceMemory
	mk := func(v int64) resource.Quantity { return *resource.NewQuantity(v, resource.BinarySI) }
	val := func(q resource.Quantity) int64 { return q.Value() }
	if isCPU { // cpu without cpuset binding: divisible in milli-cores
		name = corev1.ResourceCPU
		mk = func(v int64) resource.Quantity { return *resource.NewMilliQuantity(v, resource.DecimalSI) }
		val = func(q resource.Quantity) int64 { return q.MilliValue() }
	}
	avail := make([]int64, 4)
	total := map[int]corev1.ResourceList{}
	for n := 0; n < 4; n++ {
		avail[n] = zzverif.Int64("avail"+string(rune('0'+n)), 0, B)
		total[n] = corev1.ResourceList{name: mk(avail[n])}
	}
	req := zzverif.Int64("request", 0, B)
	mask, _ := bitmask.NewBitMask(hint...)
	opts := &ResourceOptions{hint: topologymanager.NUMATopologyHint{NUMANodeAffinity: mask}}
	result, reasons := tryBestToDistributeEvenly(corev1.ResourceList{name: mk(req)}, total, opts)
	var hintSum int64
	inHint := map[int]bool{}
	for _, n := range hint {
		hintSum += avail[n]
		inHint[n] = true
	}
	if len(reasons) == 0 {
		var sum int64
		last := -1
		for _, r := range result {
			zzverif.Assert(inHint[r.Node], "only hinted NUMA nodes are used")
			zzverif.Assert(r.Node > last, "result sorted by node id, one entry per node")
			last = r.Node
			got := val(r.Resources[name])
			zzverif.Assert(got > 0, "no empty entries")
			zzverif.Assert(got <= avail[r.Node], "never more from a NUMA node than it had free")
			sum += got
		}
		zzverif.Assert(sum == req, "hands out exactly the requested amount")
	}
	zzverif.Assert(zzverif.Implies(hintSum >= req, len(reasons) == 0), "succeeds whenever the hinted nodes together have enough free")
	zzverif.Assert(zzverif.Implies(hintSum < req, len(reasons) > 0), "fails when the hinted nodes do not have enough")
	zzverif.Observe("nreasons", int64(len(reasons)))
	zzverif.Reach("end")
}

// ZzvC06DistributeTwin: must-fail twin (claims every hinted node gets an equal share).
func ZzvC06DistributeTwin() {
	B := int64(1) << 20
	a0, a1 := zzverif.Int64("avail0", 0, B), zzverif.Int64("avail1", 0, B)
	req := zzverif.Int64("request", 2, B)
	mk := func(v int64) resource.Quantity { return *resource.NewQuantity(v, resource.BinarySI) }
	total := map[int]corev1.ResourceList{0: {corev1.ResourceMemory: mk(a0)}, 1: {corev1.ResourceMemory: mk(a1)}}
	mask, _ := bitmask.NewBitMask(0, 1)
	opts := &ResourceOptions{hint: topologymanager.NUMATopologyHint{NUMANodeAffinity: mask}}
	result, reasons := tryBestToDistributeEvenly(corev1.ResourceList{corev1.ResourceMemory: mk(req)}, total, opts)
	if len(reasons) == 0 && len(result) == 2 {
		x, y := result[0].Resources[corev1.ResourceMemory], result[1].Resources[corev1.ResourceMemory]
		d := x.Value() - y.Value()
		zzverif.Assert(zzverif.And(d <= 1, d >= -1), "twin: the two nodes always get equal shares (false)")
	}
	zzverif.Reach("end")
}

func zzvTopology(sockets, nodesPerSocket, coresPerNode, cpusPerCore int) *CPUTopology {
	b := NewCPUTopologyBuilder()
	var nodeID, coreID, cpuID int
	for s := 0; s < sockets; s++ {
		for n := 0; n < nodesPerSocket; n++ {
			for c := 0; c < coresPerNode; c++ {
				for p := 0; p < cpusPerCore; p++ {
					b.AddCPUInfo(s, nodeID, coreID, cpuID)
					cpuID++
				}
				coreID++
			}
			nodeID++
		}
	}
	return b.Result()
}

var zzvBind = []schedulingconfig.CPUBindPolicy{schedulingconfig.CPUBindPolicyFullPCPUs, schedulingconfig.CPUBindPolicySpreadByPCPUs, schedulingconfig.CPUBindPolicyDefault}
var zzvExcl = []schedulingconfig.CPUExclusivePolicy{schedulingconfig.CPUExclusivePolicyNone, schedulingconfig.CPUExclusivePolicyPCPULevel, schedulingconfig.CPUExclusivePolicyNUMANodeLevel}
var zzvStrat = []schedulingconfig.NUMAAllocateStrategy{schedulingconfig.NUMAMostAllocated, schedulingconfig.NUMALeastAllocated}

// ZzvC06TakeCPUs: takeCPUs on a small topology with an arbitrary free set.
func ZzvC06TakeCPUs() {
	topo := zzvTopology(zzverif.Param("sockets"), zzverif.Param("nodes"), zzverif.Param("cores"), zzverif.Param("threads"))
	n := topo.NumCPUs
	var free []int
	for c := 0; c < n; c++ {
		if zzverif.Choice("free"+string(rune('a'+c)), 2) == 1 {
			free = append(free, c)
		}
	}
	available := cpuset.NewCPUSet(free...)
	needed := zzverif.Choice("needed", n) + 1
	bind := zzvBind[zzverif.Choice("bind", zzverif.Param("binds"))]
	excl := zzvExcl[zzverif.Choice("exclusive", zzverif.Param("excls"))]
	strat := zzvStrat[zzverif.Choice("strategy", zzverif.Param("strats"))]
	got, err := takeCPUs(topo, 1, available, NewCPUDetails(), needed, bind, excl, strat)
	if err == nil {
		zzverif.Assert(got.Size() == needed, "a successful allocation returns exactly the requested number of CPUs")
		zzverif.Assert(got.IsSubsetOf(available), "all CPUs are taken from the CPUs that were free")
	} else {
		zzverif.Assert(needed > len(free) || excl != schedulingconfig.CPUExclusivePolicyNone, "without exclusivity, failure only when fewer CPUs are free than requested")
	}
	zzverif.Observe("size", int64(got.Size()))
	zzverif.Reach("end")
}
