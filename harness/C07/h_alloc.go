package deviceshare

// C07-H2: GPU candidate selection. Overlay-only; see /verif/DESIGN.md 5/C07.

import (
	"strconv"

	corev1 "k8s.io/api/core/v1"
	"k8s.io/apimachinery/pkg/api/resource"
	metav1 "k8s.io/apimachinery/pkg/apis/meta/v1"

	apiext "github.com/koordinator-sh/koordinator/apis/extension"
	schedulingv1alpha1 "github.com/koordinator-sh/koordinator/apis/scheduling/v1alpha1"
	"github.com/koordinator-sh/koordinator/pkg/zzverif"
)

// ZzvC07Allocate: GPUAllocator.Allocate (allocateByTemplate / allocateByPartition / generalAllocate ->
// allocateByDeviceTopology or defaultAllocateDevices) on a node whose inventory was delivered through the
// real updateNodeDevice: three GPUs, each healthy (100 gpu-core, symbolic memory) with a symbolic amount
// already in use, or unhealthy and unused; with or without device topology.
func ZzvC07Allocate() {
	const gpu = schedulingv1alpha1.GPU
	ng := 3
	topo := zzverif.Choice("topology", 2) == 1
	dev := &schedulingv1alpha1.Device{ObjectMeta: metav1.ObjectMeta{Name: "node"}}
	healthy := make([]bool, ng)
	used := make([]int64, ng)
	for i := 0; i < ng; i++ {
		minor := int32(i)
		healthy[i] = zzverif.Choice("healthy"+strconv.Itoa(i), 2) == 1
		info := schedulingv1alpha1.DeviceInfo{Type: gpu, Minor: &minor, UUID: "gpu-" + strconv.Itoa(i), Health: healthy[i],
			Resources: corev1.ResourceList{apiext.ResourceGPUCore: *resource.NewQuantity(100, resource.DecimalSI), apiext.ResourceGPUMemoryRatio: *resource.NewQuantity(100, resource.DecimalSI)}}
		if topo {
			node, pcie := int32(0), "a"
			if i == 2 {
				node, pcie = 1, "b"
			}
			info.Topology = &schedulingv1alpha1.DeviceTopology{SocketID: node, NodeID: node, PCIEID: pcie, BusID: "0000:0" + strconv.Itoa(i) + ":00.0"}
		}
		dev.Spec.Devices = append(dev.Spec.Devices, info)
	}
	cache := newNodeDeviceCache()
	cache.updateNodeDevice("node", dev)
	n := cache.getNodeDevice("node", false)
	for i := 0; i < ng; i++ {
		if healthy[i] && zzverif.Choice("inUse"+strconv.Itoa(i), 2) == 1 {
			used[i] = zzverif.Int64("used"+strconv.Itoa(i), 1, 100)
			pod := &corev1.Pod{ObjectMeta: metav1.ObjectMeta{Namespace: "ns", Name: "old" + strconv.Itoa(i)}}
			n.updateCacheUsed(apiext.DeviceAllocations{gpu: {{Minor: int32(i), Resources: corev1.ResourceList{
				apiext.ResourceGPUCore: *resource.NewQuantity(used[i], resource.DecimalSI), apiext.ResourceGPUMemoryRatio: *resource.NewQuantity(used[i], resource.DecimalSI)}}}}, pod, true)
		}
	}
	want := 1 + zzverif.Choice("numberOfGPUs", 3)
	req := int64(100)
	shared := false
	if want == 1 && zzverif.Choice("shared", 2) == 1 {
		shared = true
		req = zzverif.Int64("requestPerGPU", 1, 99)
	}
	perGPU := corev1.ResourceList{apiext.ResourceGPUCore: *resource.NewQuantity(req, resource.DecimalSI), apiext.ResourceGPUMemoryRatio: *resource.NewQuantity(req, resource.DecimalSI)}
	reqs := &GPURequirements{numberOfGPUs: want, requestsPerGPU: perGPU, gpuShared: shared}
	pod := &corev1.Pod{ObjectMeta: metav1.ObjectMeta{Namespace: "ns", Name: "new"}}
	rc := &requestContext{pod: pod, node: &corev1.Node{ObjectMeta: metav1.ObjectMeta{Name: "node"}}, gpuRequirements: reqs, nodeDevice: n,
		requestsPerInstance: map[schedulingv1alpha1.DeviceType]corev1.ResourceList{gpu: perGPU}, desiredCountPerDeviceType: map[schedulingv1alpha1.DeviceType]int{gpu: want}}
	allocs, status := (&GPUAllocator{}).Allocate(rc, n, want, want, nil)

	fits := func(i int) bool { return zzverif.And(healthy[i], req <= 100-used[i]) }
	var able int64
	for i := 0; i < ng; i++ {
		able += zzverif.IteInt64(fits(i), 1, 0)
	}
	if status.IsSuccess() {
		zzverif.Reach("allocation-succeeded")
		zzverif.Assert(len(allocs) == want, "a successful allocation gives the pod the requested number of devices")
		seen := map[int32]bool{}
		for _, a := range allocs {
			zzverif.Assert(!seen[a.Minor], "the allocated devices are distinct")
			seen[a.Minor] = true
			ok := a.Minor >= 0 && int(a.Minor) < ng
			zzverif.Assert(ok, "only devices of the node are allocated")
			if ok {
				zzverif.Assert(fits(int(a.Minor)), "each allocated device is healthy and has at least the requested amount free at that moment")
			}
			zzverif.Assert(zzvCoreOf(a.Resources) == req, "each device is charged the requested amount")
		}
	} else {
		zzverif.Reach("allocation-failed")
		zzverif.Assert(able < int64(want), "allocation fails only if fewer devices than requested have the requested amount free")
	}
	zzverif.Reach("end")
}
