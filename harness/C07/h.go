package deviceshare

// C07-H1: device ledger step. Overlay-only; see /verif/DESIGN.md 5/C07.

import (
	corev1 "k8s.io/api/core/v1"
	"k8s.io/apimachinery/pkg/api/resource"
	metav1 "k8s.io/apimachinery/pkg/apis/meta/v1"

	apiext "github.com/koordinator-sh/koordinator/apis/extension"
	schedulingv1alpha1 "github.com/koordinator-sh/koordinator/apis/scheduling/v1alpha1"
	"github.com/koordinator-sh/koordinator/pkg/zzverif"
)

func zzvCore(v int64) corev1.ResourceList {
	return corev1.ResourceList{apiext.ResourceGPUCore: *resource.NewQuantity(v, resource.DecimalSI)}
}

func zzvCoreOf(l corev1.ResourceList) int64 {
	q, ok := l[apiext.ResourceGPUCore]
	if !ok {
		return 0
	}
	return q.Value()
}

type zzvAlloc struct {
	live   bool
	minor  int
	amount int64
}

// ZzvC07Ledger: sequences of commit / duplicate commit / release / release of an unknown pod /
// inventory refresh on two GPUs; after every step used == sum of the live pods' allocations,
// free == total - used, used <= total.
func ZzvC07Ledger() {
	B := int64(1) << uint(zzverif.Param("bits"))
	const gpu = schedulingv1alpha1.GPU
	n := newNodeDevice()
	total := []int64{zzverif.Int64("total0", 0, B), zzverif.Int64("total1", 0, B)}
	listed := []bool{true, true}
	n.resetDeviceTotal(map[schedulingv1alpha1.DeviceType]deviceResources{gpu: {0: zzvCore(total[0]), 1: zzvCore(total[1])}})
	names := []string{"p0", "p1"}
	pods := []*corev1.Pod{{ObjectMeta: metav1.ObjectMeta{Namespace: "ns", Name: "p0"}}, {ObjectMeta: metav1.ObjectMeta{Namespace: "ns", Name: "p1"}}}
	allocs := make([]zzvAlloc, 2)
	steps := zzverif.Param("steps")
	for s := 0; s < steps; s++ {
		ss := string(rune('a' + s))
		i := zzverif.Choice("pod"+ss, 2)
		switch zzverif.Choice("op"+ss, 3) {
		case 0: // commit an allocation for the pod (a duplicate event if it already holds one)
			a := zzvAlloc{live: true, minor: zzverif.Choice("minor"+ss, 2), amount: zzverif.Int64("amount"+ss, 0, B)}
			if !allocs[i].live {
				// the allocator only hands out what is free: the amount fits the device at this moment
				var usedNow int64
				for _, o := range allocs {
					if o.live && o.minor == a.minor {
						usedNow += o.amount
					}
				}
				zzverif.Assume(zzverif.And(listed[a.minor], usedNow+a.amount <= total[a.minor]))
			}
			n.updateCacheUsed(apiext.DeviceAllocations{gpu: {{Minor: int32(a.minor), Resources: zzvCore(a.amount)}}}, pods[i], true)
			if !allocs[i].live {
				allocs[i] = a
			}
		case 1: // release (of a pod that holds an allocation, or of an unknown pod)
			a := allocs[i]
			if !a.live {
				a = zzvAlloc{minor: zzverif.Choice("minor"+ss, 2), amount: zzverif.Int64("amount"+ss, 0, B)}
			}
			n.updateCacheUsed(apiext.DeviceAllocations{gpu: {{Minor: int32(a.minor), Resources: zzvCore(a.amount)}}}, pods[i], false)
			allocs[i] = zzvAlloc{}
		case 2: // inventory refresh: totals change (never below what is in use), a device may vanish from the report and return
			res := deviceResources{}
			for m := 0; m < 2; m++ {
				ms := string(rune('0' + m))
				var usedNow int64
				for _, o := range allocs {
					if o.live && o.minor == m {
						usedNow += o.amount
					}
				}
				if zzverif.Choice("listed"+ss+ms, zzverif.Param("vanish")) == 0 {
					total[m] = zzverif.Int64("total"+ss+ms, 0, B)
					zzverif.Assume(total[m] >= usedNow)
					listed[m] = true
					res[m] = zzvCore(total[m])
				} else {
					listed[m] = false
				}
			}
			n.resetDeviceTotal(map[schedulingv1alpha1.DeviceType]deviceResources{gpu: res})
		}
		_ = names
		// ---- the ledger balances
		for m := 0; m < 2; m++ {
			var want int64
			for _, o := range allocs {
				if o.live && o.minor == m {
					want += o.amount
				}
			}
			used := zzvCoreOf(n.deviceUsed[gpu][m])
			zzverif.Assert(used == want, "in-use == sum of the live pods' allocations on the device")
			var fromSet int64
			for _, set := range n.allocateSet[gpu] {
				fromSet += zzvCoreOf(set[m])
			}
			zzverif.Assert(fromSet == want, "recorded per-pod allocations == the live pods' allocations")
			if listed[m] {
				zzverif.Assert(used <= total[m], "in-use never exceeds the device's total")
				zzverif.Assert(zzvCoreOf(n.deviceFree[gpu][m]) == total[m]-used, "free == total - in-use")
				zzverif.Assert(zzvCoreOf(n.deviceTotal[gpu][m]) == total[m], "total as reported")
			}
		}
	}
	zzverif.Reach("end")
}

// ZzvC07Twin: must-fail twin (claims a duplicate commit is counted twice).
func ZzvC07Twin() {
	const gpu = schedulingv1alpha1.GPU
	n := newNodeDevice()
	n.resetDeviceTotal(map[schedulingv1alpha1.DeviceType]deviceResources{gpu: {0: zzvCore(1 << 20)}})
	a := zzverif.Int64("amount", 1, 1<<10)
	pod := &corev1.Pod{ObjectMeta: metav1.ObjectMeta{Namespace: "ns", Name: "p0"}}
	al := apiext.DeviceAllocations{gpu: {{Minor: 0, Resources: zzvCore(a)}}}
	n.updateCacheUsed(al, pod, true)
	n.updateCacheUsed(al, pod, true)
	zzverif.Assert(zzvCoreOf(n.deviceUsed[gpu][0]) == 2*a, "twin: a duplicate commit is counted twice (false)")
	zzverif.Reach("end")
}
