package elasticquota

// C03 harnesses: quota admission (PreFilter / checkQuotaRecursive). Overlay-only.

import (
	"context"
	"errors"

	corev1 "k8s.io/api/core/v1"
	"k8s.io/apimachinery/pkg/api/resource"
	metav1 "k8s.io/apimachinery/pkg/apis/meta/v1"
	"k8s.io/apimachinery/pkg/types"
	fwktype "k8s.io/kube-scheduler/framework"

	"github.com/koordinator-sh/koordinator/apis/extension"
	"github.com/koordinator-sh/koordinator/apis/thirdparty/scheduler-plugins/pkg/apis/scheduling/v1alpha1"
	"github.com/koordinator-sh/koordinator/pkg/scheduler/apis/config"
	"github.com/koordinator-sh/koordinator/pkg/scheduler/plugins/elasticquota/core"
	"github.com/koordinator-sh/koordinator/pkg/zzverif"
)

type zzvCycle struct {
	fwktype.CycleState
	data map[fwktype.StateKey]fwktype.StateData
}

func (c *zzvCycle) Write(k fwktype.StateKey, v fwktype.StateData) { c.data[k] = v }
func (c *zzvCycle) Read(k fwktype.StateKey) (fwktype.StateData, error) {
	if v, ok := c.data[k]; ok {
		return v, nil
	}
	return nil, errors.New("not found")
}

type zzvRL struct {
	hasCPU, hasMem bool
	cpu, mem       int64
}

func (r zzvRL) list() corev1.ResourceList {
	l := corev1.ResourceList{}
	if r.hasCPU {
		l[corev1.ResourceCPU] = *resource.NewMilliQuantity(r.cpu, resource.DecimalSI)
	}
	if r.hasMem {
		l[corev1.ResourceMemory] = *resource.NewQuantity(r.mem, resource.BinarySI)
	}
	return l
}

// zzvSym: a resource list whose dimension set is one of {cpu,memory}, {cpu}, {memory} (dims by Choice
// among the first Param("dimModes") entries) with symbolic amounts.
func zzvSym(name string, B int64, dimChoice bool) zzvRL {
	r := zzvRL{hasCPU: true, hasMem: true}
	if dimChoice {
		switch zzverif.Choice(name+".dims", zzverif.Param("dimModes")) {
		case 1:
			r.hasMem = false
		case 2:
			r.hasCPU = false
		}
	}
	if r.hasCPU {
		r.cpu = zzverif.Int64(name+".cpu", 0, B)
	}
	if r.hasMem {
		r.mem = zzverif.Int64(name+".mem", 0, B)
	}
	return r
}

// zzvRestrict drops the dimensions of r that d does not have.
func zzvRestrict(r, d zzvRL) zzvRL {
	if !d.hasCPU {
		r.hasCPU, r.cpu = false, 0
	}
	if !d.hasMem {
		r.hasMem, r.mem = false, 0
	}
	return r
}

func zzvQuota(name, parent string, isParent bool, max corev1.ResourceList) *v1alpha1.ElasticQuota {
	q := &v1alpha1.ElasticQuota{ObjectMeta: metav1.ObjectMeta{Name: name, Labels: map[string]string{}, Annotations: map[string]string{}}}
	q.Labels[extension.LabelQuotaParent] = parent
	q.Labels[extension.LabelQuotaIsParent] = "false"
	if isParent {
		q.Labels[extension.LabelQuotaIsParent] = "true"
	}
	q.Spec.Max = max
	q.Spec.Min = corev1.ResourceList{}
	return q
}

// fits: for every key of limit that used+req has: used+req <= limit (keys absent from the limit are unlimited)
func zzvFits(used, req, limit zzvRL, cpuInSum, memInSum bool) bool {
	ok := true
	if limit.hasCPU && cpuInSum {
		ok = zzverif.And(ok, used.cpu+req.cpu <= limit.cpu)
	}
	if limit.hasMem && memInSum {
		ok = zzverif.And(ok, used.mem+req.mem <= limit.mem)
	}
	return ok
}

// ZzvC03PreFilter: PreFilter returns Success iff the statement's conjunction holds.
// Tree root -> G -> P -> L (pod's quota L). Used, non-preemptible used, limit of L and used/limit
// of both ancestors are symbolic and written into the real QuotaInfo objects.
func ZzvC03PreFilter() {
	B := int64(1) << uint(zzverif.Param("bits"))
	runtimeOn := zzverif.Choice("enableRuntimeQuota", 2) == 1
	checkParent := zzverif.Choice("enableCheckParent", 2) == 1
	nonPreemptible := zzverif.Choice("nonPreemptible", 2) == 1
	big := zzvRL{true, true, 1 << 50, 1 << 50}.list()
	mgr := core.NewGroupQuotaManager("", false, big, big)
	mgr.UpdateClusterTotalResource(big)
	// declared dimensions of the pod's quota (max keys)
	maxL := zzvSym("L.max", B, true)
	mgr.UpdateQuota(zzvQuota("G", extension.RootQuotaName, true, big))
	mgr.UpdateQuota(zzvQuota("P", "G", true, big))
	mgr.UpdateQuota(zzvQuota("L", "P", false, zzvRL{maxL.hasCPU, maxL.hasMem, 1 << 40, 1 << 40}.list()))
	p := &Plugin{pluginArgs: &config.ElasticQuotaArgs{EnableRuntimeQuota: runtimeOn, EnableCheckParentQuota: checkParent}, groupQuotaManager: mgr, quotaToTreeMap: map[string]string{"L": "", "P": "", "G": ""}}
	type node struct{ used, limit zzvRL }
	set := func(name string, limitDimChoice bool) node {
		qi := mgr.GetQuotaInfoByName(name)
		n := node{used: zzvSym(name+".used", B, false)}
		if name == "L" {
			// representation invariant: a quota's used amounts only have the dimensions its max declares
			// (requests are masked by the max keys before they are accumulated)
			n.used = zzvRestrict(n.used, maxL)
			n.limit = maxL
			if runtimeOn {
				// the runtime quota carries every dimension of the tree (zero or more for
				// dimensions only a sibling or parent declares), not only the keys of L.max
				n.limit = zzvRL{true, true, zzverif.Int64("L.runtime.cpu", 0, B), zzverif.Int64("L.runtime.mem", 0, B)}
			}
		} else {
			n.limit = zzvSym(name+".limit", B, limitDimChoice)
		}
		qi.CalculateInfo.Used = n.used.list()
		if runtimeOn {
			qi.CalculateInfo.Runtime = n.limit.list()
		} else {
			qi.CalculateInfo.Max = n.limit.list()
		}
		return n
	}
	L := set("L", true)
	P := set("P", true)
	G := set("G", true)
	npUsed := zzvRestrict(zzvSym("L.npUsed", B, false), maxL)
	minL := zzvRestrict(zzvSym("L.min", B, true), maxL) // admitted quota objects have dims(min) within dims(max) (C15)
	qiL := mgr.GetQuotaInfoByName("L")
	qiL.CalculateInfo.NonPreemptibleUsed = npUsed.list()
	qiL.CalculateInfo.Min = minL.list()
	req := zzvSym("pod.req", B, false)
	pod := &corev1.Pod{ObjectMeta: metav1.ObjectMeta{Namespace: "ns", Name: "pod", Labels: map[string]string{extension.LabelQuotaName: "L"}}}
	if nonPreemptible {
		pod.Labels[extension.LabelPreemptible] = "false"
	}
	pod.Spec.Containers = []corev1.Container{{Name: "c", Resources: corev1.ResourceRequirements{Requests: req.list()}}}
	_, st := p.PreFilter(context.TODO(), &zzvCycle{data: map[fwktype.StateKey]fwktype.StateData{}}, pod, nil)
	ok := st.IsSuccess()
	zzverif.Assert(st.Code() == fwktype.Success || st.Code() == fwktype.Unschedulable, "status is Success or Unschedulable")
	// the pod's request restricted to the dimensions its quota declares
	inCPU, inMem := maxL.hasCPU, maxL.hasMem
	want := zzvFits(L.used, req, L.limit, inCPU, inMem)
	if nonPreemptible {
		want = zzverif.And(want, zzvFits(npUsed, req, minL, inCPU, inMem))
	}
	if checkParent {
		want = zzverif.And(want, zzvFits(P.used, req, P.limit, inCPU, inMem))
		want = zzverif.And(want, zzvFits(G.used, req, G.limit, inCPU, inMem))
	}
	zzverif.Assert(zzverif.Implies(ok, want), "admitted only if used+request stays within the quota's, every ancestor's and (non-preemptible) the min limit")
	zzverif.Assert(zzverif.Implies(want, ok), "every rejected pod really would have exceeded a limit")
	zzverif.Observe("ok", zzverif.IteInt64(ok, 1, 0))
	zzverif.Reach("end")
}

// ZzvC03Loop: closed loop. Pods are admitted by PreFilter and then reserved, rolled back (Unreserve) or
// deleted, in any order; the quota's max is never lowered. After every step used <= max on the pod's
// quota (and on its parent when parent checking is on), and used equals the summed requests of the pods
// that hold a reservation.
func ZzvC03Loop() {
	B := int64(1) << uint(zzverif.Param("bits"))
	checkParent := zzverif.Choice("enableCheckParent", 2) == 1
	big := zzvRL{true, false, 1 << 50, 0}.list()
	mgr := core.NewGroupQuotaManager("", false, big, big)
	mgr.UpdateClusterTotalResource(big)
	maxP := zzverif.Int64("P.max", 0, B)
	maxL := zzverif.Int64("L.max", 0, B)
	mgr.UpdateQuota(zzvQuota("P", extension.RootQuotaName, true, zzvRL{true, false, maxP, 0}.list()))
	mgr.UpdateQuota(zzvQuota("L", "P", false, zzvRL{true, false, maxL, 0}.list()))
	pl := &Plugin{pluginArgs: &config.ElasticQuotaArgs{EnableRuntimeQuota: false, EnableCheckParentQuota: checkParent}, groupQuotaManager: mgr, quotaToTreeMap: map[string]string{"L": "", "P": ""}}
	np := zzverif.Param("pods")
	type st struct {
		pod      *corev1.Pod
		req      int64
		exists   bool
		reserved bool
	}
	pods := make([]*st, np)
	for i := range pods {
		is := string(rune('0' + i))
		r := zzverif.Int64("req"+is, 0, B)
		pod := &corev1.Pod{ObjectMeta: metav1.ObjectMeta{Namespace: "ns", Name: "pod" + is, UID: types.UID("uid" + is), Labels: map[string]string{extension.LabelQuotaName: "L"}}}
		pod.Spec.Containers = []corev1.Container{{Name: "c", Resources: corev1.ResourceRequirements{Requests: zzvRL{true, false, r, 0}.list()}}}
		pods[i] = &st{pod: pod, req: r}
	}
	usedOf := func(name string) int64 {
		q := mgr.GetQuotaInfoByName(name).GetUsed()[corev1.ResourceCPU]
		return q.MilliValue()
	}
	steps := zzverif.Param("steps")
	for s := 0; s < steps; s++ {
		ss := string(rune('a' + s))
		p := pods[zzverif.Choice("pod"+ss, np)]
		switch zzverif.Choice("op"+ss, 3) {
		case 0: // the pod appears (if new) and goes through PreFilter; on success it is reserved
			if p.reserved {
				continue
			}
			if !p.exists {
				mgr.OnPodAdd("L", p.pod)
				p.exists = true
			}
			var held int64
			for _, o := range pods {
				if o.reserved {
					held += o.req
				}
			}
			_, status := pl.PreFilter(context.TODO(), &zzvCycle{data: map[fwktype.StateKey]fwktype.StateData{}}, p.pod, nil)
			fits := held+p.req <= maxL
			if checkParent {
				fits = zzverif.And(fits, held+p.req <= maxP)
			}
			if !status.IsSuccess() {
				zzverif.Reach("rejected")
			}
			zzverif.Assert(zzverif.Iff(status.IsSuccess(), fits), "a pod is admitted exactly when used plus its request stays within the limit of its quota (and of the parent when parent checking is on)")
			if status.IsSuccess() {
				zzverif.Reach("admitted")
				pl.Reserve(context.TODO(), nil, p.pod, "node")
				p.reserved = true
			}
		case 1: // roll-back
			if !p.reserved {
				continue
			}
			pl.Unreserve(context.TODO(), nil, p.pod, "node")
			p.reserved = false
		case 2: // deletion
			if !p.exists {
				continue
			}
			mgr.OnPodDelete("L", p.pod)
			p.exists, p.reserved = false, false
		}
		var held int64
		for _, o := range pods {
			if o.reserved {
				held += o.req
			}
		}
		zzverif.Assert(usedOf("L") == held && usedOf("P") == held, "used equals the summed requests of the pods holding a reservation")
		zzverif.Assert(usedOf("L") <= maxL, "a quota whose max is not lowered never shows used above max")
		if checkParent {
			zzverif.Assert(usedOf("P") <= maxP, "with parent checking the parent never shows used above its max")
		}
	}
	zzverif.Reach("end")
}

// ZzvC03Twin: must-fail twin (claims parent limits are checked even when check-parent is off).
func ZzvC03Twin() {
	B := int64(1) << 30
	big := zzvRL{true, true, 1 << 50, 1 << 50}.list()
	mgr := core.NewGroupQuotaManager("", false, big, big)
	mgr.UpdateClusterTotalResource(big)
	mgr.UpdateQuota(zzvQuota("P", extension.RootQuotaName, true, big))
	mgr.UpdateQuota(zzvQuota("L", "P", false, big))
	p := &Plugin{pluginArgs: &config.ElasticQuotaArgs{}, groupQuotaManager: mgr, quotaToTreeMap: map[string]string{"L": "", "P": ""}}
	pu, pl := zzverif.Int64("P.used", 0, B), zzverif.Int64("P.max", 0, B)
	r := zzverif.Int64("req", 0, B)
	qi := mgr.GetQuotaInfoByName("P")
	qi.CalculateInfo.Used = zzvRL{true, false, pu, 0}.list()
	qi.CalculateInfo.Max = zzvRL{true, false, pl, 0}.list()
	pod := &corev1.Pod{ObjectMeta: metav1.ObjectMeta{Namespace: "ns", Name: "pod", Labels: map[string]string{extension.LabelQuotaName: "L"}}}
	pod.Spec.Containers = []corev1.Container{{Name: "c", Resources: corev1.ResourceRequirements{Requests: zzvRL{true, false, r, 0}.list()}}}
	_, st := p.PreFilter(context.TODO(), &zzvCycle{data: map[fwktype.StateKey]fwktype.StateData{}}, pod, nil)
	zzverif.Assert(zzverif.Implies(st.IsSuccess(), pu+r <= pl), "twin: parent limit enforced with check-parent off (false)")
	zzverif.Reach("end")
}

// zzvNoRefresh replaces GroupQuotaManager.RefreshRuntime (spec "redirect"): the runtime
// quota values are symbolic inputs of this kernel.
func zzvNoRefresh(mgr *core.GroupQuotaManager, quotaName string) corev1.ResourceList { return nil }
