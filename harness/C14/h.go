package batchresource

// C14 harnesses: batch pod cgroup limits. Overlay-only file (never written into
// the repository); see /verif/DESIGN.md section 5/C14.

import (
	"math"

	corev1 "k8s.io/api/core/v1"
	"k8s.io/apimachinery/pkg/api/resource"

	apiext "github.com/koordinator-sh/koordinator/apis/extension"
	"github.com/koordinator-sh/koordinator/pkg/koordlet/runtimehooks/protocol"
	"github.com/koordinator-sh/koordinator/pkg/zzverif"
)

const zzvB = int64(1) << 40

type zzvCont struct {
	reqMode, limMode int   // request: 0 nil list, 1 list without batch-cpu, 2 with; limits: 0 nil, 1 empty, 2 cpu only, 3 memory only, 4 both
	req, lim, mem    int64 // declared amounts (may be <= 0)
}

func zzvContainer(i string) (zzvCont, apiext.ExtendedResourceContainerSpec) {
	B := int64(1) << uint(zzverif.Param("bits"))
	c := zzvCont{
		reqMode: zzvPick("reqMode"+i, "reqModes", []int{2, 0, 1}),
		limMode: zzvPick("limMode"+i, "limModes", []int{4, 0, 2, 3, 1}),
		req:     zzverif.Int64("req"+i, -2, B),
		lim:     zzverif.Int64("lim"+i, -2, B),
		mem:     zzverif.Int64("mem"+i, -2, B),
	}
	var s apiext.ExtendedResourceContainerSpec
	switch c.reqMode {
	case 1:
		s.Requests = corev1.ResourceList{}
	case 2:
		s.Requests = corev1.ResourceList{apiext.BatchCPU: *resource.NewQuantity(c.req, resource.DecimalSI)}
	}
	switch c.limMode {
	case 1:
		s.Limits = corev1.ResourceList{}
	case 2:
		s.Limits = corev1.ResourceList{apiext.BatchCPU: *resource.NewQuantity(c.lim, resource.DecimalSI)}
	case 3:
		s.Limits = corev1.ResourceList{apiext.BatchMemory: *resource.NewQuantity(c.mem, resource.BinarySI)}
	case 4:
		s.Limits = corev1.ResourceList{apiext.BatchCPU: *resource.NewQuantity(c.lim, resource.DecimalSI), apiext.BatchMemory: *resource.NewQuantity(c.mem, resource.BinarySI)}
	}
	return c, s
}

// zzvPick chooses among the first Param(param) entries of the catalogue.
func zzvPick(name, param string, cat []int) int {
	return cat[zzverif.Choice(name, zzverif.Param(param))]
}

// effective declared amounts: <= 0 or undeclared means "none"
func (c zzvCont) effReq() int64 {
	if c.reqMode == 2 {
		return zzverif.MaxInt64(c.req, 0)
	}
	return 0
}
func (c zzvCont) effLim() int64 {
	if c.limMode == 2 || c.limMode == 4 {
		return zzverif.MaxInt64(c.lim, 0)
	}
	return 0
}
func (c zzvCont) effMem() int64 {
	if c.limMode == 3 || c.limMode == 4 {
		return zzverif.MaxInt64(c.mem, 0)
	}
	return 0
}

// the standard conversions, written from the property statement / kernel docs
func zzvShares(milli int64) int64 { // 1024 shares per core, clamped to [2, 262144]
	s := milli * 1024 / 1000
	s = zzverif.MaxInt64(s, 2)
	s = zzverif.MinInt64(s, 262144)
	return zzverif.IteInt64(milli <= 0, 2, s)
}
func zzvQuota(milli int64) int64 { // 100 us of quota per milli-core at the 100 ms period, at least 1000, -1 = unlimited
	q := zzverif.MaxInt64(milli*100, 1000)
	return zzverif.IteInt64(milli <= 0, -1, q)
}

func zzvRule() (*Rule, bool, int) {
	r := newRule()
	cfsMode := zzvPick("cfsMode", "cfsModes", []int{0, 2, 1}) // 0 unset (default enabled), 1 enabled, 2 disabled
	switch cfsMode {
	case 1:
		t := true
		r.enableCFSQuota = &t
	case 2:
		f := false
		r.enableCFSQuota = &f
	}
	ratioMode := zzvPick("ratioMode", "ratios", []int{0, 2, 1, 3, 4, 5, 6})
	if ratioMode > 0 {
		v := zzvRatios[ratioMode]
		r.cpuNormalizationRatio = &v
	}
	return r, cfsMode != 2, ratioMode
}

var zzvRatios = []float64{0, 1.0, 1.5, 2.0, 3.0, 0.5, -1}

// ceil(q/ratio) for ratios above 1; no ratio, 1.0 and ratios below 1 are not applied.
// exact=true states it in integers for the catalogue ratios (a float-vs-integer
// obligation for the solver); otherwise it is the float expression of the statement.
func zzvScale(q int64, ratioMode int, exact bool) int64 {
	if ratioMode < 2 || ratioMode > 4 {
		return q
	}
	if exact {
		var r int64
		switch ratioMode {
		case 2: // 1.5
			r = (2*q + 2) / 3
		case 3: // 2
			r = (q + 1) / 2
		case 4: // 3
			r = (q + 2) / 3
		}
		return zzverif.IteInt64(q > 0, r, q)
	}
	return zzverif.IteInt64(q > 0, int64(math.Ceil(float64(q)/zzvRatios[ratioMode])), q)
}

func zzvQoSLabels() (map[string]string, bool) {
	switch zzverif.Choice("qos", zzverif.Param("qos")) {
	case 0:
		return map[string]string{apiext.LabelPodQoS: string(apiext.QoSBE)}, true
	case 1:
		return map[string]string{apiext.LabelPodQoS: string(apiext.QoSLS)}, false
	case 2:
		return map[string]string{"other": "x"}, false
	}
	return nil, false
}

// ZzvC14Container: one container through the three container-level hooks.
func ZzvC14Container() {
	p := &plugin{}
	var cfsOn bool
	var ratioMode int
	p.rule, cfsOn, ratioMode = zzvRule()
	labels, isBE := zzvQoSLabels()
	c, spec := zzvContainer("0")
	ctx := &protocol.ContainerContext{Request: protocol.ContainerRequest{PodLabels: labels, ExtendedResources: &spec}}
	err := p.SetContainerResources(ctx)
	zzverif.Assert(err == nil, "no error")
	res := ctx.Response.Resources
	if !isBE {
		zzverif.Assert(res.CPUShares == nil && res.CFSQuota == nil && res.MemoryLimit == nil, "non-BE untouched")
		zzverif.Reach("end")
		return
	}
	zzverif.Assert(res.CPUShares != nil && res.CFSQuota != nil && res.MemoryLimit != nil, "BE: all three set")
	zzverif.Assert(*res.CPUShares == zzvShares(c.effReq()), "container shares = conversion of batch-cpu request")
	wantQ := int64(-1)
	if cfsOn {
		wantQ = zzvScale(zzvQuota(c.effLim()), ratioMode, zzverif.Param("exact") == 1)
	}
	zzverif.Assert(*res.CFSQuota == wantQ, "container quota = conversion of batch-cpu limit / ratio")
	zzverif.Assert(*res.MemoryLimit == zzverif.IteInt64(c.effMem() > 0, c.effMem(), -1), "container memory limit = declared bytes or unlimited")
	zzverif.Observe("shares", *res.CPUShares)
	zzverif.Observe("quota", *res.CFSQuota)
	zzverif.Observe("mem", *res.MemoryLimit)
	zzverif.Reach("end")
}

// ZzvC14Pod: N containers through pod-level and container-level hooks; relation
// between the two.
func ZzvC14Pod() {
	n := zzverif.Param("N")
	p := &plugin{}
	var cfsOn bool
	var ratioMode int
	p.rule, cfsOn, ratioMode = zzvRule()
	labels, isBE := zzvQoSLabels()
	conts := make([]zzvCont, n)
	specs := map[string]apiext.ExtendedResourceContainerSpec{}
	names := []string{"a", "b", "c", "d"}
	for i := 0; i < n; i++ {
		var s apiext.ExtendedResourceContainerSpec
		conts[i], s = zzvContainer(names[i])
		specs[names[i]] = s
	}
	pctx := &protocol.PodContext{Request: protocol.PodRequest{Labels: labels, ExtendedResources: &apiext.ExtendedResourceSpec{Containers: specs}}}
	err := p.SetPodResources(pctx)
	zzverif.Assert(err == nil, "no error")
	pr := pctx.Response.Resources
	if !isBE {
		zzverif.Assert(pr.CPUShares == nil && pr.CFSQuota == nil && pr.MemoryLimit == nil, "non-BE pod untouched")
		zzverif.Reach("end")
		return
	}
	zzverif.Assert(pr.CPUShares != nil && pr.CFSQuota != nil && pr.MemoryLimit != nil, "BE pod: all three set")
	var sumReq, sumLim, sumMem int64
	unlimitedCPU, unlimitedMem := false, false
	for i := 0; i < n; i++ {
		sumReq += conts[i].effReq()
		sumLim += conts[i].effLim()
		sumMem += conts[i].effMem()
		unlimitedCPU = zzverif.Or(unlimitedCPU, conts[i].effLim() <= 0)
		unlimitedMem = zzverif.Or(unlimitedMem, conts[i].effMem() <= 0)
	}
	zzverif.Assert(*pr.CPUShares == zzvShares(sumReq), "pod shares = conversion of the summed requests")
	wantQ := int64(-1)
	if cfsOn {
		wantQ = zzverif.IteInt64(unlimitedCPU, -1, zzvScale(zzvQuota(sumLim), ratioMode, false))
	}
	zzverif.Assert(*pr.CFSQuota == wantQ, "pod quota = conversion of the summed limits / ratio, unlimited once one container is")
	zzverif.Assert(*pr.MemoryLimit == zzverif.IteInt64(unlimitedMem, -1, sumMem), "pod memory = sum, unlimited once one container is")
	// container-level results for the same pod
	var sumCShares int64
	for i := 0; i < n; i++ {
		s := specs[names[i]]
		cctx := &protocol.ContainerContext{Request: protocol.ContainerRequest{PodLabels: labels, ExtendedResources: &s}}
		zzverif.Assert(p.SetContainerResources(cctx) == nil, "no error (container)")
		cr := cctx.Response.Resources
		sumCShares += *cr.CPUShares
		zzverif.Assert(*pr.CPUShares >= *cr.CPUShares, "pod shares >= container shares")
		if ratioMode < 2 || ratioMode > 4 || zzverif.Param("fpmono") == 1 {
			zzverif.Assert(zzverif.Or(*pr.CFSQuota == -1, zzverif.And(*cr.CFSQuota != -1, *pr.CFSQuota >= *cr.CFSQuota)), "pod quota no tighter than container quota")
		}
		zzverif.Assert(zzverif.Or(*pr.MemoryLimit == -1, zzverif.And(*cr.MemoryLimit != -1, *pr.MemoryLimit >= *cr.MemoryLimit)), "pod memory no tighter than container memory")
	}
	// equals the sum up to rounding (one share per container) and the min/max clamps
	zzverif.Assert(*pr.CPUShares <= sumCShares+int64(n), "pod shares <= sum of container shares + rounding (one per container)")
	zzverif.Assert(*pr.CPUShares+int64(2*n) >= zzverif.MinInt64(sumCShares, 262144), "pod shares >= sum of container shares - min clamps (two per container), up to the max clamp")
	zzverif.Observe("podShares", *pr.CPUShares)
	zzverif.Observe("podQuota", *pr.CFSQuota)
	zzverif.Observe("podMem", *pr.MemoryLimit)
	zzverif.Reach("end")
}

// ZzvC14Twin: must-fail twin (deliberately wrong postcondition: pod shares equal
// the plain sum of the container shares, which rounding refutes).
func ZzvC14Twin() {
	p := &plugin{rule: newRule()}
	labels := map[string]string{apiext.LabelPodQoS: string(apiext.QoSBE)}
	r0, r1 := zzverif.Int64("r0", 1, zzvB), zzverif.Int64("r1", 1, zzvB)
	mk := func(r int64) apiext.ExtendedResourceContainerSpec {
		return apiext.ExtendedResourceContainerSpec{Requests: corev1.ResourceList{apiext.BatchCPU: *resource.NewQuantity(r, resource.DecimalSI)}}
	}
	specs := map[string]apiext.ExtendedResourceContainerSpec{"a": mk(r0), "b": mk(r1)}
	pctx := &protocol.PodContext{Request: protocol.PodRequest{Labels: labels, ExtendedResources: &apiext.ExtendedResourceSpec{Containers: specs}}}
	p.SetPodCPUShares(pctx)
	zzverif.Assert(*pctx.Response.Resources.CPUShares == zzvShares(r0)+zzvShares(r1), "twin: pod shares == sum of container shares (false)")
	zzverif.Reach("end")
}

// ZzvC14RatioSym: the scale ratio as a symbolic float64; the scaled quota is the
// ceiling of quota/ratio: (q'-1)*ratio < q <= q'*ratio up to float rounding, and
// it is monotone in the limit (pod >= container under a common ratio).
func ZzvC14RatioSym() {
	ratio := zzverif.Float64("ratio", 1.0009765625, 8)
	r := newRule()
	r.cpuNormalizationRatio = &ratio
	p := &plugin{rule: r}
	labels := map[string]string{apiext.LabelPodQoS: string(apiext.QoSBE)}
	B := int64(zzverif.Param("limBound"))
	l0, l1 := zzverif.Int64("l0", 1, B), zzverif.Int64("l1", 1, B)
	mk := func(l int64) apiext.ExtendedResourceContainerSpec {
		return apiext.ExtendedResourceContainerSpec{Limits: corev1.ResourceList{apiext.BatchCPU: *resource.NewQuantity(l, resource.DecimalSI)}}
	}
	s0, s1 := mk(l0), mk(l1)
	pctx := &protocol.PodContext{Request: protocol.PodRequest{Labels: labels, ExtendedResources: &apiext.ExtendedResourceSpec{Containers: map[string]apiext.ExtendedResourceContainerSpec{"a": s0, "b": s1}}}}
	p.SetPodCFSQuota(pctx)
	cctx := &protocol.ContainerContext{Request: protocol.ContainerRequest{PodLabels: labels, ExtendedResources: &s0}}
	p.SetContainerCFSQuota(cctx)
	pq, cq := *pctx.Response.Resources.CFSQuota, *cctx.Response.Resources.CFSQuota
	zzverif.Assert(pq >= cq, "pod quota >= container quota under a symbolic ratio")
	q := zzvQuota(l0)
	zzverif.Assert(cq >= 1 && cq <= q, "scaled quota in [1, unscaled]")
	zzverif.Assert(float64(cq)*ratio >= float64(q)*0.999999999, "scaled quota * ratio covers the unscaled quota")
	zzverif.Assert(float64(cq-1)*ratio <= float64(q)*1.000000001, "scaled quota is the least such integer")
	_ = math.Ceil
	zzverif.Reach("end")
}
