package migration

// C17 harness: one doMigrate step of the real reconciler from an arbitrary job state, against an
// environment (pod, reservation, API failures, clock) chosen lazily when the code consults it.
// Overlay-only; see /verif/DESIGN.md 5/C17.

import (
	"context"
	"errors"
	"time"

	corev1 "k8s.io/api/core/v1"
	apierrors "k8s.io/apimachinery/pkg/api/errors"
	metav1 "k8s.io/apimachinery/pkg/apis/meta/v1"
	"k8s.io/apimachinery/pkg/runtime"
	"k8s.io/apimachinery/pkg/runtime/schema"
	"k8s.io/apimachinery/pkg/types"
	"k8s.io/utils/clock"
	"sigs.k8s.io/controller-runtime/pkg/client"

	"github.com/koordinator-sh/koordinator/apis/extension"
	sev1alpha1 "github.com/koordinator-sh/koordinator/apis/scheduling/v1alpha1"
	deschedulerconfig "github.com/koordinator-sh/koordinator/pkg/descheduler/apis/config"
	"github.com/koordinator-sh/koordinator/pkg/descheduler/controllers/migration/reservation"
	"github.com/koordinator-sh/koordinator/pkg/zzverif"
)

type zzvEnv struct {
	// pod: 0 unknown yet, 1 present (uid-1 on node-a), 2 missing, 3 replaced (uid-2 on node-a)
	pod int
	// reservation, chosen at the first lookup
	resKnown   bool
	resMissing bool
	res        *sev1alpha1.Reservation

	writes       int // successful job writes
	writeTries   int
	evictCalls   int
	evictOK      int
	createCalls  int
	deleteCalls  int
	lastPhase    sev1alpha1.PodMigrationJobPhase
	evictStamped bool

	// history mode
	tag      string                      // prefix of the lazily chosen inputs of the current reconcile
	noFaults bool                        // every API call succeeds
	stored   *sev1alpha1.PodMigrationJob // the job as last written successfully
	fixNode  string                      // a reservation once seen scheduled stays on that node
}

func (e *zzvEnv) choice(name string, n int) int {
	if e.noFaults && (name == "updateFails" || name == "statusUpdateFails" || name == "createFails" || name == "evictFails" || name == "deleteResult") {
		return 0
	}
	return zzverif.Choice(e.tag+name, n)
}

var zzvE *zzvEnv

func zzvNotFound(kind, name string) error {
	return apierrors.NewNotFound(schema.GroupResource{Resource: kind}, name)
}

type zzvClient struct {
	client.Client
}

func (c *zzvClient) Get(ctx context.Context, key client.ObjectKey, obj client.Object, opts ...client.GetOption) error {
	p, ok := obj.(*corev1.Pod)
	if !ok {
		return errors.New("zzv: unsupported get")
	}
	if key.Name != "target" {
		// the pod bound to the reservation (waitForPodReady)
		switch zzvE.choice("boundPod", 3) {
		case 0:
			return zzvNotFound("pods", key.Name)
		case 1:
			*p = corev1.Pod{ObjectMeta: metav1.ObjectMeta{Namespace: key.Namespace, Name: key.Name, UID: "uid-bound"}}
			p.Status.Conditions = []corev1.PodCondition{{Type: corev1.PodReady, Status: corev1.ConditionTrue}}
		default:
			*p = corev1.Pod{ObjectMeta: metav1.ObjectMeta{Namespace: key.Namespace, Name: key.Name, UID: "uid-bound"}}
		}
		return nil
	}
	if zzvE.pod == 0 {
		zzvE.pod = 1 + zzvE.choice("pod", 3)
	}
	switch zzvE.pod {
	case 2:
		return zzvNotFound("pods", key.Name)
	case 3:
		*p = corev1.Pod{ObjectMeta: metav1.ObjectMeta{Namespace: "ns", Name: "target", UID: "uid-2"}, Spec: corev1.PodSpec{NodeName: "node-a"}}
	default:
		*p = corev1.Pod{ObjectMeta: metav1.ObjectMeta{Namespace: "ns", Name: "target", UID: "uid-1"}, Spec: corev1.PodSpec{NodeName: "node-a"}}
	}
	return nil
}

func (c *zzvClient) zzvWrite(obj client.Object, what string) error {
	zzvE.writeTries++
	if zzvE.choice(what, 2) == 1 {
		return errors.New("zzv: API write failed")
	}
	zzvE.writes++
	if j, ok := obj.(*sev1alpha1.PodMigrationJob); ok {
		zzvE.lastPhase = j.Status.Phase
		zzvE.stored = j.DeepCopy()
	}
	return nil
}
func (c *zzvClient) Update(ctx context.Context, obj client.Object, opts ...client.UpdateOption) error {
	return c.zzvWrite(obj, "updateFails")
}

type zzvStatusWriter struct {
	client.SubResourceWriter
	c *zzvClient
}

func (s *zzvStatusWriter) Update(ctx context.Context, obj client.Object, opts ...client.SubResourceUpdateOption) error {
	return s.c.zzvWrite(obj, "statusUpdateFails")
}
func (c *zzvClient) Status() client.SubResourceWriter { return &zzvStatusWriter{c: c} }

type zzvReservations struct{}

func (zzvReservations) GetReservationType() client.Object  { return &sev1alpha1.Reservation{} }
func (zzvReservations) Preemption() reservation.Preemption { return nil }
func (zzvReservations) CreateReservation(ctx context.Context, job *sev1alpha1.PodMigrationJob) (reservation.Object, error) {
	zzvE.createCalls++
	if zzvE.choice("createFails", 2) == 1 {
		return nil, errors.New("zzv: create failed")
	}
	return reservation.NewReservation(&sev1alpha1.Reservation{ObjectMeta: metav1.ObjectMeta{Name: "resv", UID: "resv-uid"}}), nil
}
func (zzvReservations) DeleteReservation(ctx context.Context, ref *corev1.ObjectReference) error {
	zzvE.deleteCalls++
	switch zzvE.choice("deleteResult", 3) {
	case 1:
		return zzvNotFound("reservations", "resv")
	case 2:
		return errors.New("zzv: delete failed")
	}
	return nil
}
func (zzvReservations) GetReservation(ctx context.Context, ref *corev1.ObjectReference) (reservation.Object, error) {
	e := zzvE
	if !e.resKnown {
		e.resKnown = true
		if e.choice("reservationMissing", 2) == 1 {
			e.resMissing = true
		} else {
			yes := true
			r := &sev1alpha1.Reservation{ObjectMeta: metav1.ObjectMeta{Name: "resv", UID: "resv-uid", Labels: map[string]string{extension.LabelReservationOrder: "1"}}}
			r.Spec.Owners = []sev1alpha1.ReservationOwner{{Controller: &sev1alpha1.ReservationControllerReference{OwnerReference: metav1.OwnerReference{Name: "w", Controller: &yes}}}}
			r.Status.Phase = []sev1alpha1.ReservationPhase{sev1alpha1.ReservationPending, sev1alpha1.ReservationAvailable, sev1alpha1.ReservationSucceeded, sev1alpha1.ReservationFailed}[e.choice("reservationPhase", 4)]
			r.Status.NodeName = []string{"", "node-a", "node-b"}[e.choice("reservationNode", 3)]
			if e.fixNode != "" && r.Status.NodeName != "" {
				r.Status.NodeName = e.fixNode // a scheduled reservation is never moved
			}
			switch e.choice("reservationScheduledCond", 3) {
			case 1:
				r.Status.Conditions = append(r.Status.Conditions, sev1alpha1.ReservationCondition{Type: sev1alpha1.ReservationConditionScheduled, Status: sev1alpha1.ConditionStatusTrue, Reason: sev1alpha1.ReasonReservationScheduled})
			case 2:
				r.Status.Conditions = append(r.Status.Conditions, sev1alpha1.ReservationCondition{Type: sev1alpha1.ReservationConditionScheduled, Status: sev1alpha1.ConditionStatusFalse, Reason: sev1alpha1.ReasonReservationUnschedulable, Message: "0/3 nodes"})
			}
			if r.Status.Phase == sev1alpha1.ReservationFailed && e.choice("reservationExpired", 2) == 1 {
				r.Status.Conditions = append(r.Status.Conditions, sev1alpha1.ReservationCondition{Type: sev1alpha1.ReservationConditionReady, Status: sev1alpha1.ConditionStatusFalse, Reason: sev1alpha1.ReasonReservationExpired})
			}
			if r.Status.Phase == sev1alpha1.ReservationSucceeded {
				// an allocate-once reservation that succeeded is bound: to the replacement of the target or to another pod
				switch e.choice("reservationOwner", 2) {
				case 0:
					r.Status.CurrentOwners = []corev1.ObjectReference{{Namespace: "ns", Name: "target-new", UID: "uid-new"}}
				default:
					r.Status.CurrentOwners = []corev1.ObjectReference{{Namespace: "other", Name: "intruder", UID: "uid-x"}}
				}
			}
			e.res = r
		}
	}
	if e.resMissing {
		return nil, zzvNotFound("reservations", "resv")
	}
	return reservation.NewReservation(e.res.DeepCopy()), nil
}

type zzvEvictor struct{}

func (zzvEvictor) Evict(ctx context.Context, job *sev1alpha1.PodMigrationJob, pod *corev1.Pod) error {
	e := zzvE
	e.evictCalls++
	reservationFirst := job.Spec.Mode != sev1alpha1.PodMigrationJobModeEvictionDirectly
	if reservationFirst {
		// the state of the reservation at this instant
		e.evictStamped = true
		zzverif.Reach("evict-in-reservation-first-mode")
		zzverif.Assert(e.resKnown && !e.resMissing && e.res != nil, "eviction is issued only while the job's reservation exists")
		if e.res != nil {
			r := reservation.NewReservation(e.res)
			zzverif.Assert(!reservation.IsReservationPending(r), "eviction is never issued while the reservation is pending")
			zzverif.Assert(!reservation.IsReservationExpired(r), "eviction is never issued while the reservation is expired")
			zzverif.Assert(reservation.IsReservationScheduled(r), "eviction is issued only after the reservation has been scheduled")
			zzverif.Assert(e.res.Status.NodeName != pod.Spec.NodeName, "eviction is issued only when the reservation sits on a node different from the pod's")
			zzverif.Assert(len(e.res.Status.CurrentOwners) == 0, "eviction is never issued while the reservation is bound to some other pod")
		}
	}
	if zzvE.choice("evictFails", 2) == 1 {
		return errors.New("zzv: eviction refused")
	}
	e.evictOK++
	return nil
}

type zzvClock struct {
	clock.Clock
	elapsed time.Duration
}

func (c zzvClock) Since(t time.Time) time.Duration { return c.elapsed }

type zzvEvents struct{}

func (zzvEvents) Eventf(regarding runtime.Object, related runtime.Object, eventtype, reason, action, note string, args ...interface{}) {
}

func zzvTerminal(p sev1alpha1.PodMigrationJobPhase) bool {
	return p == sev1alpha1.PodMigrationJobSucceeded || p == sev1alpha1.PodMigrationJobFailed || p == sev1alpha1.PodMigrationJobAborted
}

// ZzvC17Step: one doMigrate call.
func ZzvC17Step() {
	zzvE = &zzvEnv{}
	e := zzvE
	job := &sev1alpha1.PodMigrationJob{ObjectMeta: metav1.ObjectMeta{Name: "job", UID: "job-uid"}}
	job.Spec.PodRef = &corev1.ObjectReference{Namespace: "ns", Name: "target", UID: "uid-1"}
	phase := []sev1alpha1.PodMigrationJobPhase{"", sev1alpha1.PodMigrationJobPending, sev1alpha1.PodMigrationJobRunning, sev1alpha1.PodMigrationJobSucceeded, sev1alpha1.PodMigrationJobFailed, sev1alpha1.PodMigrationJobAborted}[zzverif.Choice("phase", 6)]
	job.Status.Phase = phase
	job.Spec.Paused = zzverif.Choice("paused", 2) == 1
	hasTTL := zzverif.Choice("hasTTL", 2) == 1
	ttl := int64(0)
	if hasTTL {
		ttl = zzverif.Int64("ttlSeconds", 0, 600)
		job.Spec.TTL = &metav1.Duration{Duration: time.Duration(ttl) * time.Second}
	}
	elapsed := zzverif.Int64("elapsedSeconds", 0, 1000)
	if zzverif.Choice("mode", 2) == 1 {
		job.Spec.Mode = sev1alpha1.PodMigrationJobModeEvictionDirectly
	} else {
		job.Spec.Mode = sev1alpha1.PodMigrationJobModeReservationFirst
	}
	hasRef := zzverif.Choice("hasReservationRef", 2) == 1
	if hasRef {
		job.Spec.ReservationOptions = &sev1alpha1.PodMigrateReservationOptions{ReservationRef: &corev1.ObjectReference{Name: "resv", UID: "resv-uid", Kind: "Reservation"}}
	}
	scheduledBefore := false
	evictCond := 0
	if !zzvTerminal(phase) || zzverif.Param("fullTerminal") == 1 {
		// representation invariant of a job the controller itself wrote: the ReservationScheduled condition
		// and status.nodeName are set together, after the same-node check, and only with a reservation ref
		if hasRef && zzverif.Choice("reservationScheduledBefore", 2) == 1 {
			scheduledBefore = true
			job.Status.NodeName = "node-b"
			job.Status.Conditions = append(job.Status.Conditions, sev1alpha1.PodMigrationJobCondition{Type: sev1alpha1.PodMigrationJobConditionReservationScheduled, Status: sev1alpha1.PodMigrationJobConditionStatusTrue})
		}
		evictCond = zzverif.Choice("evictionCondition", 3)
		switch evictCond {
		case 1:
			job.Status.Conditions = append(job.Status.Conditions, sev1alpha1.PodMigrationJobCondition{Type: sev1alpha1.PodMigrationJobConditionEviction, Status: sev1alpha1.PodMigrationJobConditionStatusFalse, Reason: sev1alpha1.PodMigrationJobReasonEvicting})
			job.Status.Status = string(sev1alpha1.PodMigrationJobConditionEviction)
		case 2:
			job.Status.Conditions = append(job.Status.Conditions, sev1alpha1.PodMigrationJobCondition{Type: sev1alpha1.PodMigrationJobConditionEviction, Status: sev1alpha1.PodMigrationJobConditionStatusTrue, Reason: sev1alpha1.PodMigrationJobReasonEvictComplete})
			job.Status.Status = string(sev1alpha1.PodMigrationJobConditionEviction)
		}
	}
	c := &zzvClient{}
	r := &Reconciler{Client: c, args: &deschedulerconfig.MigrationControllerArgs{DefaultJobMode: string(sev1alpha1.PodMigrationJobModeReservationFirst)}, eventRecorder: zzvEvents{},
		reservationInterpreter: zzvReservations{}, evictorInterpreter: zzvEvictor{}, clock: zzvClock{elapsed: time.Duration(elapsed) * time.Second}}
	if scheduledBefore {
		// environment invariant matching the job's record: a reservation that was found scheduled on node-b stays there
		e.resKnown = true
		if zzverif.Choice("reservationMissing", 2) == 1 {
			e.resMissing = true
		} else {
			yes := true
			rv := &sev1alpha1.Reservation{ObjectMeta: metav1.ObjectMeta{Name: "resv", UID: "resv-uid", Labels: map[string]string{extension.LabelReservationOrder: "1"}}}
			rv.Spec.Owners = []sev1alpha1.ReservationOwner{{Controller: &sev1alpha1.ReservationControllerReference{OwnerReference: metav1.OwnerReference{Name: "w", Controller: &yes}}}}
			rv.Status.NodeName = "node-b"
			rv.Status.Conditions = []sev1alpha1.ReservationCondition{{Type: sev1alpha1.ReservationConditionScheduled, Status: sev1alpha1.ConditionStatusTrue, Reason: sev1alpha1.ReasonReservationScheduled}}
			rv.Status.Phase = []sev1alpha1.ReservationPhase{sev1alpha1.ReservationAvailable, sev1alpha1.ReservationSucceeded, sev1alpha1.ReservationFailed}[zzverif.Choice("reservationPhase", 3)]
			if rv.Status.Phase == sev1alpha1.ReservationFailed && zzverif.Choice("reservationExpired", 2) == 1 {
				rv.Status.Conditions = append(rv.Status.Conditions, sev1alpha1.ReservationCondition{Type: sev1alpha1.ReservationConditionReady, Status: sev1alpha1.ConditionStatusFalse, Reason: sev1alpha1.ReasonReservationExpired})
			}
			if rv.Status.Phase == sev1alpha1.ReservationSucceeded {
				switch zzverif.Choice("reservationOwner", 2) {
				case 0:
					rv.Status.CurrentOwners = []corev1.ObjectReference{{Namespace: "ns", Name: "target-new", UID: "uid-new"}}
				default:
					rv.Status.CurrentOwners = []corev1.ObjectReference{{Namespace: "other", Name: "intruder", UID: "uid-x"}}
				}
			}
			e.res = rv
		}
	}
	e.lastPhase = phase

	_, err := r.doMigrate(context.TODO(), job)
	_ = err

	if zzvTerminal(phase) {
		zzverif.Assert(job.Status.Phase == phase && e.lastPhase == phase, "a job that reached succeeded, failed or aborted never changes phase again")
		zzverif.Assert(e.evictCalls == 0, "a finished job triggers no further eviction")
		zzverif.Assert(e.createCalls == 0 && e.deleteCalls == 0, "a finished job triggers no further reservation call")
		zzverif.Assert(e.writeTries == 0, "a finished job is not written again")
	}
	if job.Spec.Paused {
		zzverif.Assert(e.evictCalls == 0 && e.writeTries == 0, "a paused job does nothing")
	}
	expired := zzverif.And(hasTTL, zzverif.And(ttl != 0, elapsed >= ttl))
	if !zzvTerminal(phase) && !job.Spec.Paused {
		if hasRef {
			zzverif.Assert(zzverif.Implies(expired, e.deleteCalls == 1), "an expired job deletes its reservation")
		}
		zzverif.Assert(zzverif.Implies(expired, e.evictCalls == 0 && e.createCalls == 0), "an expired job evicts nothing and creates no reservation")
		zzverif.Assert(zzverif.Implies(zzverif.And(expired, e.writes > 0), e.lastPhase == sev1alpha1.PodMigrationJobFailed), "an expired job is recorded as failed")
	}
	zzverif.Assert(e.evictCalls <= 1, "one reconcile issues at most one eviction")
	if evictCond != 0 {
		zzverif.Assert(e.evictCalls == 0, "a job whose eviction is recorded as issued or complete does not evict again")
	}
	if e.evictOK == 1 && e.writes > 0 && err == nil {
		_, cond := zzvCond(job, sev1alpha1.PodMigrationJobConditionEviction)
		zzverif.Assert(cond != nil, "a successful eviction is recorded in the eviction condition")
	}
	if e.writes > 0 && !zzvTerminal(phase) {
		zzverif.Assert(e.lastPhase != "" && e.lastPhase != sev1alpha1.PodMigrationJobPending || phase == "" || phase == sev1alpha1.PodMigrationJobPending, "a running job never goes back to pending")
	}
	zzverif.Reach("end")
}

func zzvCond(job *sev1alpha1.PodMigrationJob, t sev1alpha1.PodMigrationJobConditionType) (int, *sev1alpha1.PodMigrationJobCondition) {
	for i := range job.Status.Conditions {
		if job.Status.Conditions[i].Type == t {
			return i, &job.Status.Conditions[i]
		}
	}
	return -1, nil
}

// ZzvC17History: a bounded history of reconciles of one reservation-first job from its creation, with the
// environment (pod, reservation, API faults, time) changing arbitrarily between reconciles; each reconcile
// starts from the job as it was last written successfully. Complements the one-step induction: the
// representation invariant that ZzvC17Step assumes is asserted here on every stored record, and with no
// API errors the target pod is evicted at most once over the whole history.
func ZzvC17History() {
	zzvE = &zzvEnv{noFaults: zzverif.Param("faults") == 0}
	e := zzvE
	job := &sev1alpha1.PodMigrationJob{ObjectMeta: metav1.ObjectMeta{Name: "job", UID: "job-uid"}}
	job.Spec.PodRef = &corev1.ObjectReference{Namespace: "ns", Name: "target", UID: "uid-1"}
	job.Spec.Mode = sev1alpha1.PodMigrationJobModeReservationFirst
	e.stored = job.DeepCopy()
	r := &Reconciler{Client: &zzvClient{}, args: &deschedulerconfig.MigrationControllerArgs{DefaultJobMode: string(sev1alpha1.PodMigrationJobModeReservationFirst)}, eventRecorder: zzvEvents{},
		reservationInterpreter: zzvReservations{}, evictorInterpreter: zzvEvictor{}, clock: zzvClock{}}
	rounds := zzverif.Param("reconciles")
	evictedOK := 0
	for k := 0; k < rounds; k++ {
		e.tag = "r" + string(rune('0'+k)) + "_"
		// the environment may have changed since the last reconcile
		e.pod, e.resKnown, e.resMissing, e.res = 0, false, false, nil
		before := e.evictOK
		cur := e.stored.DeepCopy()
		prevPhase := cur.Status.Phase
		_, psc := zzvCond(cur, sev1alpha1.PodMigrationJobConditionReservationScheduled)
		prevSched := psc != nil && psc.Status == sev1alpha1.PodMigrationJobConditionStatusTrue
		r.doMigrate(context.TODO(), cur)
		evictedOK += e.evictOK - before
		if e.res != nil && e.res.Status.NodeName != "" && e.resKnown && !e.resMissing {
			_, c := zzvCond(e.stored, sev1alpha1.PodMigrationJobConditionReservationScheduled)
			if c != nil && c.Status == sev1alpha1.PodMigrationJobConditionStatusTrue {
				e.fixNode = e.stored.Status.NodeName
			}
		}
		// the representation invariant of stored records (assumed by ZzvC17Step)
		_, sc := zzvCond(e.stored, sev1alpha1.PodMigrationJobConditionReservationScheduled)
		schedTrue := sc != nil && sc.Status == sev1alpha1.PodMigrationJobConditionStatusTrue
		zzverif.Assert(schedTrue == (e.stored.Status.NodeName != ""), "status.nodeName and the ReservationScheduled condition are written together")
		if schedTrue {
			if !prevSched && e.pod != 2 {
				// (when the pod is gone at that moment there is nothing to compare with; the job is aborted for the missing pod next)
				zzverif.Assert(e.stored.Status.NodeName != "node-a", "a job records its reservation as scheduled only on a node other than the pod's")
			}
			zzverif.Assert(e.stored.Spec.ReservationOptions != nil && e.stored.Spec.ReservationOptions.ReservationRef != nil, "a job recorded as scheduled has a reservation reference")
		}
		if zzvTerminal(prevPhase) {
			zzverif.Assert(e.stored.Status.Phase == prevPhase, "a job that reached a terminal phase never changes phase again")
		}
	}
	if e.noFaults {
		zzverif.Assert(evictedOK <= 1, "with no API errors a job evicts its pod at most once")
	}
	zzverif.Reach("end")
}

// ZzvC17Twin: must-fail twin (claims the controller never evicts).
func ZzvC17Twin() {
	zzvE = &zzvEnv{}
	job := &sev1alpha1.PodMigrationJob{ObjectMeta: metav1.ObjectMeta{Name: "job", UID: "job-uid"}}
	job.Spec.PodRef = &corev1.ObjectReference{Namespace: "ns", Name: "target", UID: types.UID("uid-1")}
	job.Spec.Mode = sev1alpha1.PodMigrationJobModeEvictionDirectly
	job.Status.Phase = sev1alpha1.PodMigrationJobRunning
	r := &Reconciler{Client: &zzvClient{}, args: &deschedulerconfig.MigrationControllerArgs{}, eventRecorder: zzvEvents{}, reservationInterpreter: zzvReservations{}, evictorInterpreter: zzvEvictor{}, clock: zzvClock{}}
	r.doMigrate(context.TODO(), job)
	zzverif.Assert(zzvE.evictCalls == 0, "twin: the controller never evicts (false)")
	zzverif.Reach("end")
}
